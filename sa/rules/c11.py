"""C11 — every documented emissions option combination works or is refused by name.

The option product (~41k combinations) is never enumerated: the defects that
can break it are of a few kinds, and each kind is a per-site rule that holds for
every member of the enum at that site.

R1  dispatch exhaustiveness (T-AGREE, finite): every dispatch over a method
    enum handles each member (read from the enum class) by an explicit arm -
    or by a guard clause before the dispatch that leaves for that member - or
    falls to a default arm that raises NotImplementedError/ValueError whose
    message interpolates the method value.  What the arm raises is decided
    from what is built, not from where it is spelt: the constructor call, a
    local it was put in (names with one definition expanded, a `case other:`
    capture read as the subject), a conditional between two refusals, a
    repository exception class derived from one of the two (the message its
    __init__ hands to the base class), a resolved helper every return of which
    hands back such an exception, or a helper called as a statement that
    never comes back (every path ends in a raise, nothing returns) - in each
    case with the helper's parameters bound to the arguments of the call, so
    the message names the method only when the value handed over is the read
    of that method (a message put together by a further helper is followed the
    same way).  Not a refusal: a helper that only builds the exception and is
    called without `raise`, one that can hand back None / another exception
    type / only warns, a message that drops the method value or takes another
    method's, `raise NotImplementedError` without message, and a message that
    cannot be built once the arguments are bound (`'EI_X_method'.value`).  A
    default arm no member can reach is not judged.
R2  guarded key reads (T-GUARD): a subscript read m[Species.K] / m[k] of a
    species map whose keys depend on configuration finds its key; an in-place
    update `m[K] op= v` (also spelt `m[K] = m[K] op v`) reads m[K] before it
    stores and is decided like a read.  Decided from
    where the key got in, not from how the guard is spelt: a membership fact on
    the path (`K in m`, `K in m.keys()`, `if K not in m: return / continue /
    raise`, conditional expression, short-circuit operand, match arm) or an
    enclosing try that handles KeyError; for the totals, configuration facts
    that imply the species is enabled (see R3's table); for a map built in the
    function, every path of the control-flow graph from the entry - and from
    anything that may take the key out again - to the read passes a store of
    the key (`m[K] = …` in every branch, a display the map is built from,
    setdefault / update with the key, a completed loop over a constant
    collection containing K - or over the Species enum itself - that stores
    an element per member on every path through its body, a mapping made
    from every member: `{k: … for k in Species}`, dict.fromkeys(Species, …);
    another map merged in - `m.update(v)`, `m |= v`, a completed loop over
    v's keys that stores m[k] for each - when v has the key where the merge
    stands: a local map with the key stored on every path so far, the result
    of a resolved helper every return of which builds it with the key, a map
    the function is given);
    or an earlier `if` that stores the key under tests on the configuration
    which the configuration facts at the read imply (compared as predicates
    over the option fields, nothing taking the key out in between);
    a key variable that may be any species when the map holds every member
    of the enum; a key variable
    that walks the map's own keys, a constant collection (decided member by
    member) or a collection for whose every element an earlier loop / dict
    comprehension stored into m (nothing added to that collection since); a
    map handed back by a resolved helper (itself, a component of the tuple /
    record it returns) whose every return builds it with the key (a helper
    whose loop over the members can skip the store, or that returns early,
    does not - the totals then have the key only under the configurations
    that take the storing path, and a read that no fact on its path protects
    is reported with the helper's loop / return named); the field of a record
    built in the function from a local map (`rec = R(field=m)` … `rec.field[K]`)
    is that local, and the local handed to the record is decided like the
    field; and a read inside a helper from a map (and key) it is given - the
    parameter or a field of a record parameter - is decided at every call
    site of the helper with the arguments bound (so the guard may sit in the
    helper - early return, conditional expression - or around each call).
R3  switched-off species stay out: every store m[Species.K] = … into an index
    map handed back by the trajectory / LTO producer, by a function of the
    same module reachable from it (found through the call graph, not by name)
    or into any map whose entries get into the producer's map wholesale, is
    control-dependent on facts that imply K is enabled, or stores a literal
    zero.  Which maps those are is decided by following the entries, not the
    names: a local map merged in (`m.update(v)`, `m |= v`, `m = v` / v.copy()
    / SpeciesValues(v), an arm of a conditional expression, `a | b`, a loop
    that copies v's keys without testing them), the map a resolved function
    returns when its result is merged - the result itself, a position of the
    tuple or a field of the record it returns, unpacked / subscripted / read
    by field name, in place or through a local, in whatever module the
    function lives -, a map handed to a function that stores into that
    parameter, what the callers hand over for a parameter that is merged, and
    the entries of a display that is merged (`m.update({Species.K: v})`).
    The facts that count are those at the store together with those at every
    place the entries pass on their way in (the merge statement, the call, the
    `return`); each way in is decided on its own.  A fact that a value is
    there (`x is not None`, isinstance, a flag tested for truth) counts for
    the configurations under which the value can be there: the value is
    followed to where it was made - every binding of the local, conditional
    expressions, tuple displays / unpacking / constant subscripts, the returns
    of a resolved helper with the facts on the path to each `return` (its
    parameters bound to the arguments) - and each alternative that does not
    hand back None (a false constant), together with the configuration facts
    at the store, must imply K (a helper that returns `(mass, number)` with
    number None unless PMnvolN is enabled, the caller storing it under
    `number is not None`).  A store under a
    variable key needs `key in enabled_species`, or a key that is already in
    the map (the value reads the map at that key, or the key walks the map's
    own keys), or a key that walks the result of a helper which itself inserts
    every species only under its switch; a key that walks a constant
    collection of Species members (tuple of members, table of (member, value)
    rows, dict display) is decided member by member like a store under that
    constant key.  A map kept as the state of an object of a repository class
    (`acc = _Collector(…)`, `self.indices[K] = …` / `self.indices.update(…)` in
    its methods, `acc.indices` handed back - through a local or in place) is
    followed into the methods of the class: every store into `self.<attr>`
    there is a store into the inventory's indices, and the call sites of the
    method are places the entries pass on their way in.
    "Imply" is decided, not matched: the table gives for each species the
    condition under which EmissionsConfig.enabled_species contains it - found
    by evaluating the property's body over a concrete domain of Species
    members / strings / literal collections / rows of module-level tables and
    record classes, configuration reads kept symbolic (literal loops and
    comprehensions unrolled, local closures entered with their arguments
    bound, early return / continue / match arms turned into path conditions,
    tests on the set being built read as the conditions collected so far) -
    and that condition is a predicate over the finite domain of the option
    fields (bool switches, method enums; derived `<label>_enabled` properties
    evaluated from their own bodies).  The facts at a site (tests on
    config.emissions.*, `Species.J in enabled_species`, match arms and the
    arms before them, guard clauses - also a `match` earlier in the block
    whose arms leave: an arm of values that returns / raises was not taken, and
    under a default that leaves one of the arms that come back was -; locals
    with one definition expanded) are
    predicates over the same fields, and they imply K when every assignment
    of the fields that satisfies them has K enabled.  Facts that are not about
    the configuration are left out (that only weakens the premise).
R4  element type of thrust-mode arrays: iterating a ThrustModeArray yields raw
    values; attributes that exist only on ThrustMode may be used only on
    ThrustMode(x) / as_enum() elements.  The rule forbids something, so a
    tree in which no element of such an array is asked for an enum-only
    attribute passes (a look-up table broadcast over the array instead of a
    per-element conversion); what must not vanish is what the rule looks at
    (functions that receive a ThrustModeArray: floor), and that it tells the
    forms apart is shown on an embedded function (positive control).
R5  source switches: a component (APU, GSE) is summed into the totals under
    exactly the configurations under which it is computed, and those are the
    ones its own switch selects (the place where it enters the totals is any
    read of the component's map in the summing function or in a resolved
    helper the map is handed to, the helper's parameters bound to the
    arguments - so the switch may be tested in the helper on a flag it is
    given; when the map is not read under its own name - it travels through
    a dict of the sources and a module-level table of rows that name each
    source's switch - the summing function is run symbolically over what is
    concretely known: tables of records, dict displays, comprehensions and
    loops unrolled row by row, a row's methods evaluated on the row with
    getattr(config.emissions, <its flag>) read as that attribute, symbolic
    conditions kept as path conditions of the reads they govern); the
    life-cycle CO2 adjustment is reported and
    added to the CO2 total under the same configurations.  The conditions of
    the two sites (enclosing tests, guard clauses, locals with one definition
    expanded) are compared as predicates over the finite domain of the option
    fields, not as text.
R6  switches: every attribute the table's conditions read exists on
    EmissionsConfig; a species that has a switch of its own is enabled by that
    switch; every species of the set needs some `<label>_enabled` switch to be
    on (a species that gets in whatever the switches say cannot be switched
    off).  Decided as a finite truth table: every option field with a finite
    domain (bool, or an enum of the configuration module) is enumerated; each
    derived switch `<label>_enabled` is evaluated from its own body (through
    other properties) over the fields it reads, and each species' condition
    likewise; the switch a species belongs to is the one its condition implies
    (its own `<species>_enabled` first); with the group's own option off
    (`<label>_enabled = False`, or `<label>_method = NONE`) the switch must be
    false and the species must not be in the set - whatever the other options
    are.  A switch that also listens to another option turns a switched-off
    species back on.
R7  "works or is refused by name" - no internal error from a store: an object
    that some path stores into (element / slice store, `del x[k]`, in-place
    operator on an array, .fill/.sort/np.put/np.copyto/`out=`, or handing it
    to a repository function that does one of these to its parameter) must
    not be one that refuses the store.  Decided by def-use over the emissions
    package: origins are followed back through reaching definitions on the
    CFG, through elements of local mappings (a re-store of the same element
    that every path passes kills the older ones, and so does a completed loop
    over the map's own keys that puts a new value at each, `for k in m: m[k] =
    m[k].copy(mutable=True)`, with no other write into the map after it - the
    elements read later, also through `.values()`, are the copies;
    `.update(f())`, loops over
    .items()/.values() and over literal collections are followed), through
    view-preserving numpy operations, module constants and the returns of
    resolved repository functions.  Refusing origins: np.broadcast_to and
    sliding_window_view (read-only views), as_strided(writeable=False),
    np.frombuffer over immutable bytes, an array after `.flags.writeable =
    False` / `.setflags(write=False)`, MappingProxyType, and a repository
    container whose constructor takes `mutable=False` by default
    (ThrustModeValues) built without mutable=True or after `.freeze()`;
    `.copy(mutable=True)`, `.copy()` of an array, np.array / np.full /
    arithmetic make fresh writable objects.  (A memoised function's result is
    T-MEMO M2.)  Positive control: an embedded producer.
R8  a map per flight: every species map a per-flight producer hands back (the
    arguments of the EmissionsSubset it returns), and every map whose entries
    get into its index map wholesale (R3's flow), is an object made in the
    course of the call - by a constructor call, a display, a copy evaluated on
    the way.  An object made once for the process keeps what an earlier flight
    stored under another configuration: a species switched off since then is
    still in the inventory (and a stale array of another length fails to
    broadcast: an internal error).  Decided by following the object back:
    bindings of locals, conditional expressions, parameters (the argument at
    every call site; the default - evaluated once, when the function is defined
    - where a call site leaves the parameter out), the returns of resolved
    repository functions, attributes of instances of repository classes (every
    `self.attr = v` in the methods of the class; the value in the class body
    unless a constructor - or a set-up method it calls - gives each instance
    an object of its own; dataclass `field(default_factory=…)` is per
    instance), module-level names in this or an imported module.  Made once:
    a mutable object built at module level, in a class body, or as a
    parameter default.  What cannot be followed is not reported (the rule
    forbids, it does not guess); floor on the number of maps asked about.
R9  "works or is refused by name" - no internal error from a value left out:
    a local that some path leaves at None (`x = None` … `if <switch>: x = f()`)
    is computed under every configuration under which it is needed.  Needed:
    an attribute read, a subscript, an iteration, len() or arithmetic on the
    value - in the function, or in a resolved repository function (method) it
    is handed to, parameter by parameter along the calls.  A place a fact on
    whose path tests the value itself (`x is not None`, `if x is None: raise`,
    an assert) is not one.  Decided with reaching definitions on the CFG
    (does the None reach the place?) and over the finite domain of the option
    fields: the facts at the use (along the call chain, parameters bound to
    the arguments), at the None and at each computing definition are
    predicates over the options; an assignment of the options that reaches
    the use, takes the None and none of the computing definitions is an
    option combination that ends in AttributeError / TypeError on None.
    A use with a fact on its way that is not about the configuration is not
    judged (the rule forbids, it does not guess); facts that cannot be read at
    a computing definition only make it count as taken.  Positive control: an
    embedded function.
"""

from __future__ import annotations

import ast

from ..astutil import first_stmt, last_stmt  # noqa: F401
from ..astutil import (ancestors, call_name, calls_in, conjuncts, enclosing_iterations, guards_of, iterated_mapping, map_iteration,
                       names_in, norm, single_def_value, stmt_of, stores_to, walk_no_nested)
from ..loader import ClassInfo, FunctionInfo
from ..resolve import callers_of, closure, expr_class, resolve_call

CFGE = 'config/emissions.py'
# entry points of the two per-flight producers; the functions that build (parts of) their index maps are found
# through the call graph, not by name (a helper may be split off, merged back or renamed)
PRODUCER_ENTRIES = {
    'emissions/trajectory.py': 'get_trajectory_emissions',
    'emissions/lto.py': 'get_LTO_emissions',
}


def _index_maps(fi) -> set[str]:
    """names of the local species maps fi hands back: `return m`, or the index argument of the EmissionsSubset it returns"""
    out = set()
    for r in walk_no_nested(fi.node):
        if isinstance(r, ast.Return) and r.value is not None:
            v = r.value
            if isinstance(v, ast.Name):
                out.add(v.id)
            elif isinstance(v, ast.Call) and call_name(v).split('[')[0] == 'EmissionsSubset':
                a = next((k.value for k in v.keywords if k.arg == 'indices'), v.args[0] if v.args else None)
                if isinstance(a, ast.Name):
                    out.add(a.id)
    return out - set(fi.params)


def _producers(prog, rel):
    """the entry producer of module rel and every function of the same module reachable from it that writes
    `m[Species.K] = …` into a species map it returns: [(function, names of its index maps)]"""
    m = prog.module(rel)
    entry = m.func(PRODUCER_ENTRIES[rel])
    out = [(entry, _index_maps(entry))]
    for g in sorted(closure(prog, [entry]), key=lambda f: f.node.lineno):
        if g is entry or g.module is not m:
            continue
        maps = _index_maps(g)
        if any(isinstance(t, ast.Subscript) and norm(t.value) in maps and isinstance(t.slice, ast.Attribute)
               and norm(t.slice.value) == 'Species' for t, _, _ in stores_to(g.node)):
            out.append((g, maps))
    return out
READ_SCOPE = ['emissions/emission.py', 'emissions/trajectory.py', 'emissions/lto.py', 'emissions/apu.py', 'emissions/gse.py']


# ---------------------------------------------------------------- facts ---
def early_exit_facts(fn: ast.AST, node: ast.AST):
    """Facts established by preceding `if C: return/raise` in enclosing blocks."""
    out = []
    child = node
    for a in ancestors(node):
        body_lists = [getattr(a, f, None) for f in ('body', 'orelse', 'finalbody')]
        for bl in body_lists:
            if isinstance(bl, list) and any(child is s for s in bl):
                for s in bl:
                    if s is child:
                        break
                    if isinstance(s, ast.If) and isinstance(last_stmt(s.body), (ast.Return, ast.Raise, ast.Continue)) \
                            and not s.orelse:
                        out.append((s.test, False))
                    elif isinstance(s, ast.Match):
                        out.extend(_match_exit_facts(s))
        if a is fn:
            break
        child = a
    return out


def _match_exit_facts(m: ast.Match):
    """What is known after a `match` some arms of which always leave (return / raise / continue), as facts
    `subject in <pattern>`: an arm of value patterns that leaves was not taken - the subject is none of its values
    (only for values no earlier arm can take first: such an arm could come back with that value); and when an
    irrefutable default leaves, one of the arms that come back was taken - the subject is one of their values."""
    out = []
    earlier: set[str] = set()       # values an earlier arm may take
    unreadable = False              # an earlier arm whose pattern is not a list of values (capture, class pattern)
    back = []                       # arms that can fall out of the match
    for c in m.cases:
        leaves = isinstance(last_stmt(c.body), (ast.Return, ast.Raise, ast.Continue))
        vals = _pattern_values(c.pattern)
        if c.guard is None and isinstance(c.pattern, ast.MatchAs) and c.pattern.pattern is None:
            if leaves and back and all(_pattern_values(b.pattern) is not None for b in back):
                out.append((ast.Compare(left=m.subject, ops=[ast.In()],
                                        comparators=[ast.MatchOr(patterns=[b.pattern for b in back])]), True))
            break
        if leaves and c.guard is None and vals is not None and not unreadable and not ({norm(v) for v in vals} & earlier):
            out.append((ast.Compare(left=m.subject, ops=[ast.In()], comparators=[c.pattern]), False))
        if vals is None:
            unreadable = True
        else:
            earlier |= {norm(v) for v in vals}
        if not leaves:
            back.append(c)
    return out


def facts_at(fn: ast.AST, node: ast.AST):
    fs = [(t, pol) for t, pol, _ in guards_of(node)] + early_exit_facts(fn, node)
    # match arms: `match subject: case Enum.M:` gives subject == Enum.M, and none of the earlier (unguarded) arms
    for a in ancestors(node):
        if isinstance(a, ast.match_case):
            m = getattr(a, '_parent', None)
            if isinstance(m, ast.Match):
                fs.append((ast.Compare(left=m.subject, ops=[ast.In()], comparators=[a.pattern]), True))
                for c in m.cases:
                    if c is a:
                        break
                    if c.guard is None:
                        fs.append((ast.Compare(left=m.subject, ops=[ast.In()], comparators=[c.pattern]), False))
    atoms = []
    for t, pol in fs:
        if isinstance(t, ast.Compare) and isinstance(t.ops[0], ast.In) and isinstance(t.comparators[0], ast.pattern):
            atoms.append((t, pol))
        else:
            atoms.extend(_positive(x, p_) for x, p_ in conjuncts(t, pol))
    return atoms


def _positive(t, pol):
    """a fact with a negative comparison as its positive twin: `a not in b` true is `a in b` false (also is not / !=)"""
    if isinstance(t, ast.Compare) and len(t.ops) == 1:
        flip = {ast.NotIn: ast.In, ast.IsNot: ast.Is, ast.NotEq: ast.Eq}.get(type(t.ops[0]))
        if flip is not None:
            return ast.copy_location(ast.Compare(left=t.left, ops=[flip()], comparators=t.comparators), t), not pol
    return t, pol


class _Cannot(Exception):
    pass


class _Sym:
    """a value the table interpreter does not know concretely (a configuration read, …)"""

    def __init__(self, text):
        self.text = text


class _Record:
    """a row of a table: an object of a record class with its field values; unpacks in field order"""

    def __init__(self, cls, fields, values):
        self.cls, self.fields, self.values = cls, fields, values


class _SpeciesSetInterp:
    """Evaluates the body of `enabled_species` over a small concrete domain - Species members, strings, None,
    tuples / lists / dicts of those - keeping every test on configuration state symbolic.  Literal loops are
    unrolled, local closures are entered with their arguments bound (positional, *rest, keyword, defaults),
    early returns turn into path conditions.  The outcome is, for each species put into the returned set
    (`.add`, `.update`, `|=`, set displays), the list of symbolic conditions on its path.  Whatever falls outside
    (a loop over something not literal, an unknown statement) raises _Cannot - the rule is then undecided."""

    def __init__(self, fn: ast.AST, module=None):
        self.fn = fn
        self.module = module        # for module-level constant tables and record classes (NamedTuple / dataclass rows)
        self._consts = {}
        self.out: list[tuple[str, tuple[tuple[str, bool], ...]]] = []
        rets = [r.value for r in walk_no_nested(fn) if isinstance(r, ast.Return) and r.value is not None]
        if not rets:
            raise _Cannot('the property returns nothing')
        # the set that is built: the one local every return hands back (possibly wrapped: frozenset(result),
        # result | {…}); a property that returns only displays / comprehensions has no such local
        names = [{x.id for x in ast.walk(r) if isinstance(x, ast.Name) and isinstance(x.ctx, ast.Load)} for r in rets]
        stored = {t.id for t, _s, _h in stores_to(fn) if isinstance(t, ast.Name)}
        stored |= {st.target.id for st in walk_no_nested(fn) if isinstance(st, ast.AnnAssign) and isinstance(st.target, ast.Name)}
        direct = {r.id for r in rets if isinstance(r, ast.Name)}
        grown = {c.func.value.id for c in calls_in(fn) if isinstance(c.func, ast.Attribute) and isinstance(c.func.value, ast.Name)
                 and c.func.attr in ('add', 'update', 'append', 'extend')}
        grown |= {st.target.id for st in walk_no_nested(fn) if isinstance(st, ast.AugAssign) and isinstance(st.target, ast.Name)}
        cand = direct if len(direct) == 1 else (set.intersection(*names) & stored & grown if not direct else set())
        self.result = next(iter(cand)) if len(cand) == 1 else '<returned>'

    def subst(self, e, env):
        """text of expression e with what is known about its names filled in (symbolic values by their text,
        Species members / strings / numbers by themselves)"""
        import copy
        interp = self

        class T(ast.NodeTransformer):
            def visit_Name(self, n):
                if not isinstance(n.ctx, ast.Load) or n.id not in env:
                    return n
                v = env[n.id]
                if isinstance(v, _Sym):
                    try:
                        return ast.parse(v.text, mode='eval').body
                    except SyntaxError:
                        return n
                if isinstance(v, tuple) and len(v) == 2 and v[0] == 'sp' and isinstance(v[1], str):
                    return ast.Attribute(value=ast.Name(id='Species', ctx=ast.Load()), attr=v[1], ctx=ast.Load())
                if v is None or isinstance(v, (str, int, float, bool)):
                    return ast.Constant(value=v)
                return n

            def visit_Call(self, n):
                # getattr(self, f'{label}_enabled') with a known label reads one attribute
                if isinstance(n.func, ast.Name) and n.func.id == 'getattr' and len(n.args) == 2 and norm(n.args[0]) == 'self':
                    a = interp.ev(n.args[1], env)
                    if isinstance(a, str) and a.isidentifier():
                        return ast.Attribute(value=ast.Name(id='self', ctx=ast.Load()), attr=a, ctx=ast.Load())
                return self.generic_visit(n)
        return norm(ast.fix_missing_locations(T().visit(copy.deepcopy(e))))

    # ---- expressions
    def ev(self, e, env):
        if isinstance(e, ast.Constant):
            return e.value
        if isinstance(e, ast.Attribute) and isinstance(e.value, ast.Name) and e.value.id == 'Species':
            return ('sp', e.attr)
        if isinstance(e, ast.Name):
            if e.id in env:
                return env[e.id]
            if self.module is not None and e.id in self.module.constants:
                if e.id not in self._consts:
                    self._consts[e.id] = _Sym(e.id)         # a constant that refers to itself stays symbolic
                    self._consts[e.id] = self.ev(self.module.constants[e.id], {})
                return self._consts[e.id]
            return _Sym(e.id)
        if isinstance(e, ast.BinOp) and isinstance(e.op, (ast.Add, ast.Mod)):
            l, r = self.ev(e.left, env), self.ev(e.right, env)
            if isinstance(e.op, ast.Add) and ((isinstance(l, str) and isinstance(r, str)) or (
                    isinstance(l, tuple) and isinstance(r, tuple) and not self._is_sp(l) and not self._is_sp(r))):
                return l + r
            if isinstance(e.op, ast.Mod) and isinstance(l, str) and (isinstance(r, str) or (
                    isinstance(r, tuple) and all(isinstance(x, (str, int)) for x in r))):
                try:
                    return l % r
                except (TypeError, ValueError):
                    pass
            return _Sym(self.subst(e, env))
        if isinstance(e, (ast.ListComp, ast.SetComp, ast.GeneratorExp, ast.DictComp)):
            v = self._comp_value(e, 0, dict(env))
            if v is None:
                return _Sym(self.subst(e, env))
            return dict(v) if isinstance(e, ast.DictComp) else tuple(v)
        if isinstance(e, (ast.Tuple, ast.List, ast.Set)):
            out = []
            for x in e.elts:
                if isinstance(x, ast.Starred):
                    v = self.ev(x.value, env)
                    if not isinstance(v, (tuple, list)):
                        raise _Cannot(f'cannot unpack `{norm(x)}`')
                    out.extend(v)
                else:
                    out.append(self.ev(x, env))
            return tuple(out)
        if isinstance(e, ast.Dict):
            out = {}
            for k, v in zip(e.keys, e.values):
                if k is None:
                    inner = self.ev(v, env)
                    if not isinstance(inner, dict):
                        raise _Cannot('dict unpacking of something that is not a literal dict')
                    out.update(inner)
                else:
                    out[self._hashable(self.ev(k, env))] = self.ev(v, env)
            return out
        if isinstance(e, ast.Subscript):
            b, i = self.ev(e.value, env), self.ev(e.slice, env) if not isinstance(e.slice, ast.Slice) else None
            if isinstance(b, (tuple, list)) and isinstance(i, int) and -len(b) <= i < len(b):
                return b[i]
            if isinstance(b, dict) and not isinstance(i, _Sym) and i in b:
                return b[i]
            return _Sym(self.subst(e, env))
        if isinstance(e, ast.Attribute):
            b = self.ev(e.value, env)
            if isinstance(b, tuple) and len(b) == 2 and b[0] == 'sp' and e.attr == 'name':
                return b[1]
            if isinstance(b, _Record) and e.attr in b.fields:
                return b.fields[e.attr]
            return _Sym(self.subst(e, env))
        if isinstance(e, ast.JoinedStr):
            parts = []
            for x in e.values:
                v = self.ev(x.value, env) if isinstance(x, ast.FormattedValue) else x.value
                if not isinstance(v, str) or (isinstance(x, ast.FormattedValue) and (x.conversion != -1 or x.format_spec)):
                    return _Sym(self.subst(e, env))
                parts.append(v)
            return ''.join(parts)
        if isinstance(e, ast.Call):
            f = e.func
            rec = self._record(e, env)
            if rec is not None:
                return rec
            if isinstance(f, ast.Attribute) and f.attr == 'format' and not e.keywords:
                b = self.ev(f.value, env)
                args = [self.ev(a, env) for a in e.args]
                if isinstance(b, str) and all(isinstance(a, (str, int)) and not isinstance(a, bool) for a in args):
                    try:
                        return b.format(*args)
                    except (IndexError, KeyError, ValueError):
                        pass
            if isinstance(f, ast.Name) and f.id == 'dict' and not e.keywords and len(e.args) == 1:
                v = self.ev(e.args[0], env)
                if isinstance(v, dict):
                    return dict(v)
                if isinstance(v, (tuple, list)) and all(isinstance(x, (tuple, list)) and len(x) == 2 and not self._is_sp(x) for x in v):
                    return {self._hashable(k): val for k, val in v}
            if isinstance(f, ast.Name) and f.id == 'zip' and not e.keywords and e.args:
                vs = [self.ev(a, env) for a in e.args]
                if all(isinstance(v, (tuple, list)) and not self._is_sp(v) for v in vs):
                    return tuple(zip(*vs))
            if isinstance(f, ast.Attribute) and not e.args and not e.keywords and f.attr in ('lower', 'upper', 'items', 'keys', 'values'):
                b = self.ev(f.value, env)
                if isinstance(b, str) and f.attr in ('lower', 'upper'):
                    return getattr(b, f.attr)()
                if isinstance(b, dict) and f.attr in ('items', 'keys', 'values'):
                    return tuple(getattr(b, f.attr)()) if f.attr != 'items' else tuple((k, v) for k, v in b.items())
                return _Sym(self.subst(e, env))
            if isinstance(f, ast.Name) and f.id == 'getattr' and len(e.args) == 2 and norm(e.args[0]) == 'self':
                a = self.ev(e.args[1], env)
                return _Sym(f'self.{a}') if isinstance(a, str) else _Sym(self.subst(e, env))
            if isinstance(f, ast.Name) and f.id in ('tuple', 'list', 'set', 'frozenset', 'sorted') and len(e.args) <= 1 and not e.keywords:
                if not e.args:
                    return ()
                v = self.ev(e.args[0], env)
                return tuple(v) if isinstance(v, (tuple, list)) else _Sym(self.subst(e, env))
            return _Sym(self.subst(e, env))
        if isinstance(e, ast.Compare) and len(e.ops) == 1 and isinstance(e.ops[0], (ast.In, ast.NotIn)):
            l, r = self.ev(e.left, env), e.comparators[0]
            neg = isinstance(e.ops[0], ast.NotIn)
            if isinstance(r, ast.Name) and r.id == self.result and self._is_sp(l):
                # a test on the set being built: true exactly under the conditions under which the member got in so far
                paths = [g for sp, g in self.out if sp == l[1]]
                if not paths:
                    return neg
                if any(not g for g in paths):
                    return not neg
                txt = ' or '.join('(' + ' and '.join((('' if pol else 'not ') + f'({t})') for t, pol in g) + ')' for g in paths)
                return _Sym(f'not ({txt})' if neg else txt)
            rv = self.ev(r, env)
            if not isinstance(l, _Sym) and isinstance(rv, (tuple, list, dict)) and not self._is_sp(rv) \
                    and not any(isinstance(x, _Sym) for x in rv):
                return (l in rv) != neg
            return _Sym(self.subst(e, env))
        if isinstance(e, ast.Compare) and len(e.ops) == 1 and isinstance(e.ops[0], (ast.Is, ast.IsNot, ast.Eq, ast.NotEq)):
            l, r = self.ev(e.left, env), self.ev(e.comparators[0], env)
            if not isinstance(l, _Sym) and not isinstance(r, _Sym):
                eq = l == r
                return eq if isinstance(e.ops[0], (ast.Is, ast.Eq)) else not eq
            return _Sym(self.subst(e, env))
        if isinstance(e, ast.UnaryOp) and isinstance(e.op, ast.Not):
            v = self.ev(e.operand, env)
            return _Sym(f'not ({v.text})') if isinstance(v, _Sym) else (not v)
        if isinstance(e, ast.BoolOp):
            # concrete operands decide or drop out; what stays symbolic keeps its substituted text
            is_or = isinstance(e.op, ast.Or)
            parts, last = [], None
            for x in e.values:
                v = self.ev(x, env)
                last = v
                if isinstance(v, _Sym):
                    parts.append(v.text)
                elif bool(v) == is_or and not parts:
                    return v            # or: first true operand / and: first false operand, nothing symbolic before it
                elif bool(v) == is_or:
                    parts.append(repr(bool(v)))
                    break
            if not parts:
                return last
            return _Sym((' or ' if is_or else ' and ').join(f'({t})' for t in parts)) if len(parts) > 1 else _Sym(parts[0])
        if isinstance(e, ast.UnaryOp) and isinstance(e.op, ast.USub):
            v = self.ev(e.operand, env)
            return -v if isinstance(v, int) and not isinstance(v, bool) else _Sym(self.subst(e, env))
        if isinstance(e, ast.IfExp):
            c = self.ev(e.test, env)
            if not isinstance(c, _Sym):
                return self.ev(e.body if c else e.orelse, env)
        return _Sym(self.subst(e, env))

    @staticmethod
    def _is_sp(v):
        return isinstance(v, tuple) and len(v) == 2 and v[0] == 'sp' and isinstance(v[1], str)

    def _record(self, c: ast.Call, env):
        """a row object: the call builds a record class of the module (NamedTuple / dataclass: annotated fields only,
        no constructor of its own) positionally or by keyword"""
        if self.module is None or not isinstance(c.func, ast.Name) or c.func.id in env:
            return None
        ci = self.module.classes.get(c.func.id)
        if ci is None or any(n in ci.methods for n in ('__init__', '__new__', '__post_init__')):
            return None
        order = list(ci.annotated_fields())
        if not order or any(isinstance(a, ast.Starred) for a in c.args) or any(k.arg is None for k in c.keywords) or len(c.args) > len(order):
            return None
        fields = {order[i]: self.ev(a, env) for i, a in enumerate(c.args)}
        for k in c.keywords:
            if k.arg not in order or k.arg in fields:
                return None
            fields[k.arg] = self.ev(k.value, env)
        defaults = ci.class_assignments()
        for n in order:
            if n not in fields:
                if defaults.get(n) is None:
                    return None
                fields[n] = self.ev(defaults[n], {})
        return _Record(ci.name, fields, tuple(fields[n] for n in order))

    def _comp_value(self, comp, i, env):
        """the elements (list of values / of (key, value) pairs) of a comprehension over literal collections whose
        conditions are all concretely known; None when a condition is symbolic"""
        if i == len(comp.generators):
            if isinstance(comp, ast.DictComp):
                return [(self._hashable(self.ev(comp.key, env)), self.ev(comp.value, env))]
            return [self.ev(comp.elt, env)]
        g = comp.generators[i]
        seq = self.ev(g.iter, env)
        if isinstance(seq, dict):
            seq = tuple(seq)
        if not isinstance(seq, (tuple, list)) or self._is_sp(seq):
            return None
        out = []
        for item in seq:
            e2 = dict(env)
            self.bind(g.target, item, e2)
            keep = True
            for c in g.ifs:
                v = self.ev(c, e2)
                if isinstance(v, _Sym):
                    return None
                keep = keep and bool(v)
            if keep:
                r = self._comp_value(comp, i + 1, e2)
                if r is None:
                    return None
                out += r
        return out

    @staticmethod
    def _hashable(v):
        if isinstance(v, _Sym):
            raise _Cannot('symbolic dict key')
        return v

    def _test_text(self, test, env):
        """text of a symbolic test with what is concretely known substituted (getattr(self, f'{label}_enabled')
        -> self.co2_enabled); a leading `not` is peeled into the polarity"""
        pol = True
        while isinstance(test, ast.UnaryOp) and isinstance(test.op, ast.Not):
            test, pol = test.operand, not pol
        v = self.ev(test, env)
        return (v.text if isinstance(v, _Sym) else norm(test)), pol

    # ---- statements
    def record(self, v, guards):
        if isinstance(v, tuple) and len(v) == 2 and v[0] == 'sp' and isinstance(v[1], str):
            self.out.append((v[1], tuple(guards)))
        else:
            raise _Cannot('something that is not a Species member is put into the set')

    def record_all(self, v, guards):
        if isinstance(v, tuple) and len(v) == 2 and v[0] == 'sp' and isinstance(v[1], str):
            raise _Cannot('a single member where a collection is expected')
        if not isinstance(v, (tuple, list)):
            raise _Cannot('the collection added to the set is not known')
        for x in v:
            self.record(x, guards)

    def _branches(self, test, env, guards):
        """[(truth value, guards of that branch)] of a test: one branch when it is concretely known, else both"""
        v = self.ev(test, env)
        if not isinstance(v, _Sym):
            return [(bool(v), guards)]
        return [(pol, guards + [self._test_text(ast.UnaryOp(ast.Not(), t) if not p else t, env) for t, p in conjuncts(test, pol)])
                for pol in (True, False)]

    def add_collection(self, e, env, guards):
        """everything the collection expression e contributes goes into the result set under `guards`: the set itself
        (nothing new), displays, comprehensions (unrolled), set()/frozenset()/list()/tuple()/sorted() of one,
        unions (`a | b`, a.union(b, …)), a conditional expression (both arms under its test)"""
        if isinstance(e, ast.Name) and e.id == self.result:
            return
        if isinstance(e, (ast.SetComp, ast.ListComp, ast.GeneratorExp)):
            return self.comprehension(e, 0, dict(env), guards)
        if isinstance(e, ast.Call) and isinstance(e.func, ast.Name) and e.func.id in ('set', 'frozenset', 'list', 'tuple', 'sorted') \
                and len(e.args) <= 1 and not e.keywords:
            if e.args:
                self.add_collection(e.args[0], env, guards)
            return
        if isinstance(e, ast.BinOp) and isinstance(e.op, ast.BitOr):
            self.add_collection(e.left, env, guards)
            self.add_collection(e.right, env, guards)
            return
        if isinstance(e, ast.Call) and isinstance(e.func, ast.Attribute) and e.func.attr == 'union' and not e.keywords:
            for a in [e.func.value, *e.args]:
                self.add_collection(a, env, guards)
            return
        if isinstance(e, ast.IfExp):
            for truth, g in self._branches(e.test, env, guards):
                self.add_collection(e.body if truth else e.orelse, env, g)
            return
        if isinstance(e, ast.Starred):
            return self.add_collection(e.value, env, guards)
        if isinstance(e, (ast.Set, ast.List, ast.Tuple)) and any(isinstance(x, ast.Starred) for x in e.elts):
            for x in e.elts:
                if isinstance(x, ast.Starred):
                    self.add_collection(x.value, env, guards)
                else:
                    self.record(self.ev(x, env), guards)
            return
        v = self.ev(e, env)
        if isinstance(v, dict):
            v = tuple(v)
        self.record_all(v, guards)

    def comprehension(self, comp, i, env, guards):
        """unrolls clause i of a comprehension over a literal collection; its conditions become path conditions"""
        if i == len(comp.generators):
            return self.record(self.ev(comp.elt, env), guards)
        g = comp.generators[i]
        seq = self.ev(g.iter, env)
        if isinstance(seq, dict):
            seq = tuple(seq)
        if not isinstance(seq, (tuple, list)):
            raise _Cannot(f'comprehension over `{norm(g.iter)[:50]}`, which is not a literal collection')
        for item in seq:
            e2 = dict(env)
            self.bind(g.target, item, e2)
            paths = [guards]
            for c in g.ifs:
                nxt = []
                for gs in paths:
                    nxt += [g_ for truth, g_ in self._branches(c, e2, gs) if truth]
                paths = nxt
            for gs in paths:
                self.comprehension(comp, i + 1, e2, gs)

    def bind(self, target, item, env):
        if isinstance(item, _Record) and not isinstance(target, ast.Name):
            item = item.values
        if isinstance(target, ast.Name):
            env[target.id] = item
        elif isinstance(target, (ast.Tuple, ast.List)) and isinstance(item, (tuple, list)) and len(item) == len(target.elts) \
                and not (len(item) == 2 and item[0] == 'sp' and isinstance(item[1], str)):
            for x, v in zip(target.elts, item):
                self.bind(x, v, env)
        else:
            raise _Cannot(f'loop target `{norm(target)}`')

    def call(self, c: ast.Call, env, guards):
        f = c.func
        if isinstance(f, ast.Attribute) and norm(f.value) == self.result:
            if f.attr in ('add', 'append') and len(c.args) == 1 and not c.keywords:
                return self.record(self.ev(c.args[0], env), guards)
            if f.attr in ('update', 'extend') and not c.keywords:
                for a in c.args:
                    self.add_collection(a, env, guards)
                return
            raise _Cannot(f'`{norm(c)[:50]}` on the result set')
        if isinstance(f, ast.Name) and isinstance(env.get(f.id), ast.FunctionDef):
            d = env[f.id]
            a = d.args
            pos = []
            for x in c.args:
                if isinstance(x, ast.Starred):
                    v = self.ev(x.value, env)
                    if not isinstance(v, (tuple, list)):
                        raise _Cannot(f'cannot unpack `{norm(x)}`')
                    pos.extend(v)
                else:
                    pos.append(self.ev(x, env))
            new = dict(env)
            names = [p.arg for p in a.posonlyargs + a.args]
            defaults = dict(zip(names[len(names) - len(a.defaults):], a.defaults))
            for i, nme in enumerate(names):
                if i < len(pos):
                    new[nme] = pos[i]
                elif nme in defaults:
                    new[nme] = self.ev(defaults[nme], env)
            rest = pos[len(names):]
            if a.vararg is not None:
                new[a.vararg.arg] = tuple(rest)
            elif rest:
                raise _Cannot('too many arguments')
            for p, dflt in zip(a.kwonlyargs, a.kw_defaults):
                if dflt is not None:
                    new[p.arg] = self.ev(dflt, env)
            for k in c.keywords:
                if k.arg is None:
                    raise _Cannot('**kwargs')
                new[k.arg] = self.ev(k.value, env)
            self.block(d.body, new, list(guards))
            return
        if any(isinstance(x, ast.Name) and x.id == self.result for x in ast.walk(c)):
            raise _Cannot(f'the result set escapes into `{norm(c)[:50]}`')
        # any other call cannot change the set

    def block(self, stmts, env, guards):
        """runs stmts; 'return' / 'continue' when every path through them left that way, None when some path falls
        through (the paths that left are then excluded by the path condition)"""
        for i, st in enumerate(stmts):
            if isinstance(st, (ast.Pass, ast.Global, ast.Nonlocal, ast.Import, ast.ImportFrom)):
                continue
            if isinstance(st, ast.FunctionDef):
                env[st.name] = st
            elif isinstance(st, ast.Return):
                if st.value is not None:
                    self.add_collection(st.value, env, guards)
                return 'return'
            elif isinstance(st, ast.Continue):
                return 'continue'
            elif isinstance(st, ast.Expr):
                v = st.value
                if isinstance(v, ast.Call):
                    self.call(v, env, guards)
                elif isinstance(v, ast.IfExp) or (isinstance(v, ast.BoolOp) and len(v.values) >= 2):
                    # `f() if c else None`, `c and f()`, `c or f()` used as statements
                    if isinstance(v, ast.IfExp):
                        arms = [(v.test, True, v.body), (v.test, False, v.orelse)]
                    else:
                        head = v.values[0] if len(v.values) == 2 else ast.BoolOp(op=v.op, values=v.values[:-1])
                        arms = [(head, isinstance(v.op, ast.And), v.values[-1])]
                    for test, want, arm in arms:
                        for truth, g in self._branches(test, env, guards):
                            if truth == want:
                                if isinstance(arm, ast.Call):
                                    self.call(arm, env, g)
                                elif not isinstance(arm, ast.Constant):
                                    raise _Cannot(f'statement `{norm(st)[:50]}`')
                elif not isinstance(v, ast.Constant):
                    raise _Cannot(f'statement `{norm(st)[:50]}`')
            elif isinstance(st, (ast.Assign, ast.AnnAssign)):
                tg = st.targets if isinstance(st, ast.Assign) else [st.target]
                if st.value is None:
                    continue
                if len(tg) != 1 or not isinstance(tg[0], ast.Name):
                    raise _Cannot(f'assignment `{norm(st)[:50]}`')
                if tg[0].id == self.result:
                    # (re)binding the result: what it held stays only when the new value contains the old one
                    v = st.value
                    keeps = any(isinstance(x, ast.Name) and x.id == self.result for x in ast.walk(v))
                    if self.out and not keeps:
                        raise _Cannot(f'the result set is rebound: `{norm(st)[:50]}`')
                    if isinstance(v, ast.Dict) and not v.keys:
                        continue
                    self.add_collection(v, env, guards)
                    continue
                env[tg[0].id] = self.ev(st.value, env)
            elif isinstance(st, ast.AugAssign):
                if isinstance(st.target, ast.Name) and st.target.id == self.result and isinstance(st.op, (ast.BitOr, ast.Add)):
                    self.add_collection(st.value, env, guards)
                elif isinstance(st.target, ast.Name):
                    env[st.target.id] = _Sym(st.target.id)
                else:
                    raise _Cannot(f'statement `{norm(st)[:50]}`')
            elif isinstance(st, ast.For):
                seq = self.ev(st.iter, env)
                if isinstance(seq, dict):
                    seq = tuple(seq)
                if not isinstance(seq, (tuple, list)) or st.orelse:
                    raise _Cannot(f'loop over `{norm(st.iter)[:50]}`, which is not a literal collection')
                for item in seq:
                    self.bind(st.target, item, env)
                    if any(isinstance(x, ast.Break) for x in walk_no_nested(st)):
                        raise _Cannot('break in a loop')
                    if self.block(st.body, env, guards) == 'return':
                        return 'return'
            elif isinstance(st, ast.If):
                v = self.ev(st.test, env)
                if not isinstance(v, _Sym):
                    r = self.block(st.body if v else st.orelse, env, guards)
                    if r:
                        return r
                    continue
                g_true = [self._test_text(ast.UnaryOp(ast.Not(), t) if not p else t, env) for t, p in conjuncts(st.test, True)]
                g_false = [self._test_text(ast.UnaryOp(ast.Not(), t) if not p else t, env) for t, p in conjuncts(st.test, False)]
                e1, e2 = dict(env), dict(env)
                r1 = self.block(st.body, e1, guards + g_true)
                r2 = self.block(st.orelse, e2, guards + g_false)
                if r1 and r2:
                    if r1 != r2:
                        raise _Cannot('one branch returns and the other continues')
                    return r1
                if r1 or r2:
                    merged = e2 if r1 else e1          # only the branch that falls through goes on
                else:
                    merged = {k: (e1[k] if k in e1 and k in e2 and e1[k] is e2[k] else _Sym(k)) for k in set(e1) | set(e2)}
                env.clear()
                env.update(merged)
                if r1:
                    guards = guards + g_false
                elif r2:
                    guards = guards + g_true
            elif isinstance(st, ast.Match):
                # each arm as `if subject in (its values) and no earlier arm` - rewritten into an if / elif chain
                chain = None
                for c in reversed(st.cases):
                    pats = c.pattern.patterns if isinstance(c.pattern, ast.MatchOr) else [c.pattern]
                    if c.guard is not None:
                        raise _Cannot('guarded case')
                    if all(isinstance(p_, ast.MatchValue) for p_ in pats):
                        test = ast.Compare(left=st.subject, ops=[ast.In()], comparators=[ast.Tuple(elts=[p_.value for p_ in pats], ctx=ast.Load())])
                        chain = [ast.If(test=test, body=c.body, orelse=chain or [])]
                    elif len(pats) == 1 and isinstance(pats[0], ast.MatchAs) and pats[0].pattern is None and pats[0].name is None:
                        chain = list(c.body)
                    else:
                        raise _Cannot('pattern')
                r = self.block((chain or []) + list(stmts[i + 1:]), env, guards)
                return r
            else:
                raise _Cannot(f'statement `{norm(st)[:50]}`')
        return None


class _Member:
    """a member of a configuration enum during truth-table evaluation (one object per member, so `is` works; a
    string-mixin enum also equals its value)"""
    _all: dict = {}

    def __new__(cls, enum, name, value, strmix):
        k = (enum, name)
        if k not in cls._all:
            o = object.__new__(cls)
            o.enum, o.name, o.value, o.strmix = enum, name, value, strmix
            cls._all[k] = o
        return cls._all[k]

    def __eq__(self, other):
        if isinstance(other, _Member):
            return self is other or (self.strmix and other.strmix and self.value == other.value)
        return self.strmix and isinstance(other, str) and other == self.value

    def __ne__(self, other):
        return not self.__eq__(other)

    def __hash__(self):
        return hash((self.enum, self.name))

    def __repr__(self):
        return f'{self.enum}.{self.name}'


class _ConfigTable:
    """Finite evaluation of EmissionsConfig's derived switches: every option field with a finite domain (bool, or an
    enum declared in the configuration module) is enumerated, properties are evaluated from their own bodies
    (if / return / local assignments; comparisons, boolean operators, membership tests, conditional expressions).
    Nothing is imported or run."""

    def __init__(self, prog, cm, ec):
        self.prog, self.cm, self.ec = prog, cm, ec
        self.enums = {}
        for name, ci in cm.classes.items():
            mem = {k: v.value for k, v in ci.class_assignments().items() if isinstance(v, ast.Constant)}
            if mem and any('Enum' in b for k_ in ci.mro() for b in k_.base_exprs):
                strmix = any(b in ('str', 'StrEnum', 'enum.StrEnum') for k_ in ci.mro() for b in k_.base_exprs)
                self.enums[name] = [_Member(name, k, v, strmix) for k, v in mem.items()]
        self.domains = {}
        for f, ann in ec.all_fields().items():
            a = norm(ann)
            if a == 'bool':
                self.domains[f] = [True, False]
            elif a in self.enums:
                self.domains[f] = list(self.enums[a])
        self.props = {n: fi for n, fi in ec.methods.items()
                      if any(d.split('.')[-1] in ('property', 'cached_property') for d in fi.decorators())}
        self.species = None     # _EnabledTable, once enabled_species has been evaluated

    @staticmethod
    def _species_test(x):
        """K when x is `Species.K in self.enabled_species` / `Species.K not in self.enabled_species`"""
        if isinstance(x, ast.Compare) and len(x.ops) == 1 and isinstance(x.ops[0], (ast.In, ast.NotIn)) \
                and isinstance(x.left, ast.Attribute) and isinstance(x.left.value, ast.Name) and x.left.value.id == 'Species' \
                and norm(x.comparators[0]) == 'self.enabled_species':
            return x.left.attr
        return None

    def reads(self, node, seen=None):
        """option fields a piece of code reads through self (through other properties too)"""
        seen = set() if seen is None else seen
        out = set()
        skip = set()
        for x in ast.walk(node):
            nm = None
            if self.species is not None:
                # the set of enabled species is read through the table computed from the property's body
                k = self._species_test(x)
                if k is not None:
                    out |= self.species.fields.get(k, set())
                    skip.add(id(x.comparators[0]))
                    continue
                if isinstance(x, ast.Attribute) and norm(x) == 'self.enabled_species':
                    if id(x) not in skip:
                        out |= set().union(*self.species.fields.values()) if self.species.fields else set()
                    continue
            if isinstance(x, ast.Attribute) and isinstance(x.value, ast.Name) and x.value.id == 'self':
                nm = x.attr
            elif isinstance(x, ast.Call) and call_name(x) == 'getattr' and len(x.args) >= 2 and norm(x.args[0]) == 'self' \
                    and isinstance(x.args[1], ast.Constant):
                nm = x.args[1].value
            if nm in self.domains:
                out.add(nm)
            elif nm in self.props and nm not in seen:
                seen.add(nm)
                out |= self.reads(self.props[nm].node, seen)
        return out

    def ev(self, e, env, loc):
        if isinstance(e, ast.Constant):
            return e.value
        if isinstance(e, ast.Name):
            if e.id in loc:
                return loc[e.id]
            raise _Cannot(f'name `{e.id}`')
        if isinstance(e, ast.Attribute):
            if isinstance(e.value, ast.Name) and e.value.id == 'self':
                return self.attr(e.attr, env)
            if isinstance(e.value, ast.Name) and e.value.id in self.enums:
                m = next((x for x in self.enums[e.value.id] if x.name == e.attr), None)
                if m is None:
                    raise _Cannot(f'`{norm(e)}` is not a member')
                return m
            if isinstance(e.value, ast.Name) and e.value.id == 'Species' and e.value.id not in loc:
                return ('sp', e.attr)
            b = self.ev(e.value, env, loc)
            if isinstance(b, _Member) and e.attr in ('value', 'name'):
                return getattr(b, e.attr)
            raise _Cannot(f'attribute `{norm(e)}`')
        if isinstance(e, ast.BoolOp):
            v = None
            for x in e.values:
                v = self.ev(x, env, loc)
                if bool(v) == isinstance(e.op, ast.Or):
                    return v
            return v
        if isinstance(e, ast.UnaryOp) and isinstance(e.op, ast.Not):
            return not self.ev(e.operand, env, loc)
        if isinstance(e, ast.IfExp):
            return self.ev(e.body if self.ev(e.test, env, loc) else e.orelse, env, loc)
        if isinstance(e, (ast.Tuple, ast.List, ast.Set)):
            return tuple(self.ev(x, env, loc) for x in e.elts)
        if isinstance(e, ast.Compare):
            k = self._species_test(e) if self.species is not None else None
            if k is not None:
                return self.species.enabled(k, env) == isinstance(e.ops[0], ast.In)
            left = self.ev(e.left, env, loc)
            for op, c in zip(e.ops, e.comparators):
                right = self.ev(c, env, loc)
                if isinstance(op, (ast.Eq, ast.NotEq)):
                    r = (left == right) == isinstance(op, ast.Eq)
                elif isinstance(op, (ast.Is, ast.IsNot)):
                    r = (left is right) == isinstance(op, ast.Is)
                elif isinstance(op, (ast.In, ast.NotIn)) and isinstance(right, tuple):
                    r = any(left == x for x in right) == isinstance(op, ast.In)
                else:
                    raise _Cannot(f'comparison `{norm(e)}`')
                if not r:
                    return False
                left = right
            return True
        if isinstance(e, ast.Call):
            cn = call_name(e)
            if cn == 'bool' and len(e.args) == 1:
                return bool(self.ev(e.args[0], env, loc))
            if cn == 'getattr' and len(e.args) >= 2 and norm(e.args[0]) == 'self':
                a = self.ev(e.args[1], env, loc)
                if isinstance(a, str):
                    return self.attr(a, env)
            if cn in ('any', 'all') and len(e.args) == 1 and isinstance(e.args[0], (ast.Tuple, ast.List)):
                vals = [bool(self.ev(x, env, loc)) for x in e.args[0].elts]
                return any(vals) if cn == 'any' else all(vals)
            raise _Cannot(f'call `{norm(e)[:40]}`')
        raise _Cannot(f'`{norm(e)[:40]}`')

    def attr(self, name, env):
        if name in env:
            return env[name]
        if name == 'enabled_species' and self.species is not None:
            return self.species.enabled_set(env)
        if name in self.props:
            key = ('prop', name)
            if key in env:
                raise _Cannot(f'`{name}` depends on itself')
            env2 = dict(env)
            env2[key] = True
            r = self.run(self.props[name].node.body, env2, {})
            if r is None:
                raise _Cannot(f'`{name}` can end without a return')
            return r[0]
        ca = self.ec.class_assignments().get(name)
        if ca is not None and name not in self.domains:
            return self.ev(ca, env, {})
        raise _Cannot(f'`self.{name}` has no finite domain')

    def run(self, stmts, env, loc):
        """(value,) when the block returns, None when it falls through"""
        for st in stmts:
            if isinstance(st, ast.Expr) and isinstance(st.value, ast.Constant):
                continue
            if isinstance(st, (ast.Pass, ast.Import, ast.ImportFrom)):
                continue
            if isinstance(st, ast.Return):
                return (self.ev(st.value, env, loc) if st.value is not None else None,)
            if isinstance(st, ast.If):
                r = self.run(st.body if self.ev(st.test, env, loc) else st.orelse, env, loc)
                if r is not None:
                    return r
            elif isinstance(st, (ast.Assign, ast.AnnAssign)) and st.value is not None:
                tg = st.targets if isinstance(st, ast.Assign) else [st.target]
                if len(tg) != 1 or not isinstance(tg[0], ast.Name):
                    raise _Cannot(f'statement `{norm(st)[:40]}`')
                loc[tg[0].id] = self.ev(st.value, env, loc)
            elif isinstance(st, ast.Match):
                subj = self.ev(st.subject, env, loc)
                for c in st.cases:
                    if c.guard is not None:
                        raise _Cannot('guarded case')
                    pats = c.pattern.patterns if isinstance(c.pattern, ast.MatchOr) else [c.pattern]
                    hit = False
                    for p_ in pats:
                        if isinstance(p_, ast.MatchAs) and p_.pattern is None:
                            hit = True
                        elif isinstance(p_, ast.MatchValue):
                            hit = hit or subj == self.ev(p_.value, env, loc)
                        else:
                            raise _Cannot('pattern')
                    if hit:
                        r = self.run(c.body, env, loc)
                        if r is not None:
                            return r
                        break
            else:
                raise _Cannot(f'statement `{norm(st)[:40]}`')
        return None

    def assignments(self, fields):
        import itertools
        fields = sorted(fields)
        for combo in itertools.product(*(self.domains[f] for f in fields)):
            yield dict(zip(fields, combo))

    def own_switch(self, label):
        """(field, predicate 'is off') of the option that the documentation gives species group `label`: the bool field
        `<label>_enabled`, or the enum field `<label>_method` whose member NONE disables it"""
        f = f'{label}_enabled'
        if self.domains.get(f) == [True, False]:
            return f, (lambda v: v is False), f'{f} = False'
        f = f'{label}_method'
        if f in self.domains and any(isinstance(v, _Member) and v.name == 'NONE' for v in self.domains[f]):
            return f, (lambda v: isinstance(v, _Member) and v.name == 'NONE'), f'{f} = NONE'
        return None


class _EnabledTable:
    """species -> the condition under which EmissionsConfig.enabled_species contains it, as a predicate over the
    finite option fields (bool switches and method enums): the path conditions the interpreter found, evaluated by
    _ConfigTable - through derived `<label>_enabled` properties, whatever their spelling."""

    def __init__(self, tab: _ConfigTable, paths_by_species):
        self.tab = tab
        self.text = {sp: [' and '.join((('' if pol else 'not ') + f'({t})') for t, pol in g) or 'always' for g in paths]
                     for sp, paths in paths_by_species.items()}
        self.cond = {sp: [[(ast.parse(t, mode='eval').body, pol) for t, pol in g] for g in paths]
                     for sp, paths in paths_by_species.items()}       # SyntaxError: the caller reports it
        self.fields = {sp: set().union(*[tab.reads(c) for g in paths for c, _pol in g]) if any(paths) else set()
                       for sp, paths in self.cond.items()}
        self._memo = {}
        tab.species = self

    def enabled(self, sp, env) -> bool:
        if sp not in self.cond:
            return False
        key = (sp, tuple(sorted((k, repr(env[k])) for k in self.fields[sp] if k in env)))
        if key not in self._memo:
            self._memo[key] = any(all(bool(self.tab.ev(c, dict(env), {})) == pol for c, pol in g) for g in self.cond[sp])
        return self._memo[key]

    def enabled_set(self, env):
        return tuple(('sp', sp) for sp in self.cond if self.enabled(sp, env))

    # ---- facts of the emissions package, read as predicates over the same option fields
    def site_predicate(self, fi, t):
        """the fact expression t (a test of some function of the emissions package) as an expression over `self` =
        config.emissions, locals with a single definition expanded; a match arm reads `subject in (its values)`.
        None when it is not an expression (a wildcard arm)."""
        import copy
        if isinstance(t, ast.Compare) and isinstance(t.comparators[0], ast.pattern):
            vals = _pattern_values(t.comparators[0])
            if vals is None:
                return None
            t = ast.Compare(left=t.left, ops=[ast.In()], comparators=[ast.Tuple(elts=list(vals), ctx=ast.Load())])
        fn = fi.node if fi is not None else None
        params = set(fi.params) if fi is not None else set()

        class T(ast.NodeTransformer):
            def __init__(self, depth):
                self.depth = depth

            def visit_Attribute(self, n):
                if isinstance(n.value, ast.Name) and n.value.id == 'config' and n.attr == 'emissions':
                    return ast.Name(id='self', ctx=ast.Load())
                return self.generic_visit(n)

            def visit_Name(self, n):
                if fn is not None and isinstance(n.ctx, ast.Load) and n.id not in params and self.depth < 5:
                    v = single_def_value(fn, n.id)
                    if v is not None:
                        return T(self.depth + 1).visit(fresh(v))
                return n

        def fresh(e):
            # a copy without the loader's parent links (a deep copy of a fact built from pieces of the tree would
            # follow them into the whole module)
            return ast.parse(ast.unparse(e), mode='eval').body
        return T(0).visit(fresh(t))

    def premises(self, fi, atoms):
        """the facts among atoms that are predicates over the option fields: [(expression over self, polarity, fields it
        reads, text)]"""
        prem = []
        for t, pol in atoms:
            try:
                e = self.site_predicate(fi, t)
            except RecursionError:
                e = None
            if e is None:
                continue
            try:
                fields = self.tab.reads(e)
                if not fields:
                    continue
                for env in self.tab.assignments(fields):        # evaluable for every value of what it reads?
                    self.tab.ev(e, dict(env), {})
            except _Cannot:
                continue
            txt = norm(t) if not isinstance(t.comparators[0] if isinstance(t, ast.Compare) else None, ast.pattern) else \
                f'case {norm(e.comparators[0])} of {norm(t.left)}'
            prem.append((e, pol, fields, ('' if pol else 'not ') + txt))
        return prem

    def differ(self, A, B):
        """an assignment of the option fields under which the conjunctions A and B of premises differ (None: they are
        the same predicate)"""
        fields = set().union(*[p[2] for p in A + B]) if A + B else set()
        for env in self.tab.assignments(fields):
            a = all(bool(self.tab.ev(e, dict(env), {})) == pol for e, pol, _f, _t in A)
            b = all(bool(self.tab.ev(e, dict(env), {})) == pol for e, pol, _f, _t in B)
            if a != b:
                return env
        return None

    def implied_by(self, fi, atoms, K):
        """the facts (test, polarity) among `atoms` that together imply `Species.K in enabled_species` for every value
        of the option fields - None when they do not.  Facts that are not about the configuration are left out (that
        only weakens the premise)."""
        return self.implied_by_premises(self.premises(fi, atoms), K)

    def implied_by_premises(self, prem, K):
        """implied_by for premises already read (they may come from several functions: a call site and the helper)"""
        if not prem:
            return None

        def implies(ps):
            fields = set(self.fields.get(K, set())).union(*[p[2] for p in ps])
            sat = False
            for env in self.tab.assignments(fields):
                if all(bool(self.tab.ev(e, dict(env), {})) == pol for e, pol, _f, _t in ps):
                    sat = True
                    if not self.enabled(K, env):
                        return False
            return True if sat else None        # None: the facts contradict each other (dead code)
        try:
            for p_ in prem:                                     # one fact that does it alone reads best
                if implies([p_]):
                    return p_[3]
            r = implies(prem)
        except _Cannot:
            return None
        if r is None:
            return 'unreachable: ' + ' and '.join(p_[3] for p_ in prem)
        return ' and '.join(p_[3] for p_ in prem) if r else None


def _pattern_values(p):
    """the value expressions of a `case A | B:` pattern; None for anything else (wildcard, capture, class pattern)"""
    if isinstance(p, ast.MatchValue):
        return [p.value]
    if isinstance(p, ast.MatchOr):
        out = []
        for q in p.patterns:
            r = _pattern_values(q)
            if r is None:
                return None
            out += r
        return out
    return None


def rule_own_switch(ctx, tab, table, label_of):
    """R6 (truth table): a species group that is switched off is not enabled, whatever the other options say."""
    prog = ctx.prog
    cm = prog.module(CFGE)
    ctx.floor('C11-R6/domains', len(tab.domains), 10, 'option fields with a finite domain')
    n = 0
    # (a) every derived switch `<label>_enabled` on its own
    for name, fi in sorted(tab.props.items()):
        if not name.endswith('_enabled'):
            continue
        label = name[:-len('_enabled')]
        sw = tab.own_switch(label)
        if sw is None or sw[0] == name:
            continue
        fields = tab.reads(fi.node) | {sw[0]}
        bad, total = None, 0
        try:
            for env in tab.assignments(fields):
                if sw[1](env[sw[0]]):
                    total += 1
                    if tab.attr(name, dict(env)) and bad is None:
                        bad = env
        except _Cannot as e:
            ctx.undecided('C11-R6', fi, name, f'cannot evaluate the switch over its option fields: {e}')
        n += 1
        others = sorted(fields - {sw[0]})
        ctx.ob('C11-R6', fi, f'`{name}` is off whenever {sw[2]}', bad is None,
               (f'false for all {total} assignments of {sorted(fields)} with {sw[2]}' if bad is None else
                f'`{name}` is true for {", ".join(f"{k}={v!r}" for k, v in sorted(bad.items()))}: the species is switched off '
                f'({sw[2]}) but counts as enabled because of {others}, so enabled_species contains it and the trajectory and '
                'LTO parts report it non-zero'), line=fi.node.lineno)
    ctx.floor('C11-R6/switches', n, 5, 'derived `<label>_enabled` switches evaluated')
    # (b) every species of enabled_species, through the condition(s) under which it is put into the set
    fi = cm.func('EmissionsConfig.enabled_species')
    for sp in sorted(table.cond):
        label = sp.lower() if tab.own_switch(sp.lower()) else label_of.get(sp)
        sw = tab.own_switch(label) if label else None
        if sw is None:
            continue
        fields = {sw[0]} | table.fields[sp]
        bad = None
        for env in tab.assignments(fields):
            if sw[1](env[sw[0]]) and table.enabled(sp, env):
                bad = env
                break
        ctx.ob('C11-R6', fi, f'Species.{sp} is not enabled when {sw[2]}', bad is None,
               f'for every assignment of {sorted(fields)}' if bad is None else
               f'Species.{sp} is put into enabled_species for {", ".join(f"{k}={v!r}" for k, v in sorted(bad.items()))}: '
               f'switched off ({sw[2]}), yet enabled', line=fi.node.lineno)


def implication_table(ctx):
    """species -> condition under which EmissionsConfig.enabled_species contains it, and the grouping by the switch
    each species needs: computed from what the property *does* (interpreted over literal collections, configuration
    reads symbolic) and *decided* over the finite domain of the option fields - not from how conditions are spelt."""
    m = ctx.prog.module(CFGE)
    fi = m.func('EmissionsConfig.enabled_species')
    ec = m.cls('EmissionsConfig')
    try:
        it = _SpeciesSetInterp(fi.node, m)
        it.block(fi.node.body, {}, [])
    except _Cannot as e:
        ctx.undecided('C11-R3/table', fi, 'enabled_species', f'cannot evaluate which species each switch enables: {e}')
    by_sp: dict[str, list] = {}
    for sp, guards in it.out:
        by_sp.setdefault(sp, []).append(guards)
    tab = _ConfigTable(ctx.prog, m, ec)
    try:
        table = _EnabledTable(tab, by_sp)
    except SyntaxError as e:
        ctx.undecided('C11-R3/table', fi, 'enabled_species', f'a path condition is not an expression: {e}')
    # every condition must be decidable over the option fields
    for sp in sorted(table.cond):
        try:
            for env in tab.assignments(table.fields[sp]):
                table.enabled(sp, env)
        except _Cannot as e:
            ctx.undecided('C11-R3/table', fi, f'Species.{sp}',
                          f'enabled under {table.text[sp]}: cannot be evaluated over the option fields ({e})')
    # the switches: every `<label>_enabled` of the configuration (plain bool field or derived property)
    switches = sorted(n for n in set(tab.domains) | set(tab.props) if n.endswith('_enabled'))
    groups, label_of, pending, unswitchable = {}, {}, [], []
    for sp in sorted(table.cond):
        sat = any(table.enabled(sp, env) for env in tab.assignments(table.fields[sp]))
        if not sat:
            pending.append((f'Species.{sp}', f'enabled under {table.text[sp]}, which no configuration satisfies'))
            continue
        nec, equal = [], []
        for sw in switches:
            try:
                fields = table.fields[sp] | tab.reads(ast.parse(f'self.{sw}', mode='eval').body)
                rows = [(table.enabled(sp, env), bool(tab.attr(sw, dict(env)))) for env in tab.assignments(fields)]
            except _Cannot:
                continue
            if all(s_ or not e_ for e_, s_ in rows):
                nec.append(sw)
                if all(e_ == s_ for e_, s_ in rows):
                    equal.append(sw)
        if not nec:
            unswitchable.append(sp)
            continue
        mine = f'{sp.lower()}_enabled'
        pick = mine if mine in nec else (equal[0] if equal else nec[0])
        label = pick[:-len('_enabled')]
        label_of[sp] = label
        groups.setdefault(label, {'species': set(), 'conditional': {}})
        if pick in equal:
            groups[label]['species'].add(sp)
        else:
            groups[label]['conditional'][sp] = table.text[sp]
    rule_own_switch(ctx, tab, table, label_of)
    # a switch the property reads must exist (else every use of enabled_species fails)
    own = set(ec.all_fields()) | set(ec.methods)
    for sp in sorted(table.cond):
        for g in table.cond[sp]:
            for c, _pol in g:
                for x in ast.walk(c):
                    if isinstance(x, ast.Attribute) and isinstance(x.value, ast.Name) and x.value.id == 'self' and x.attr not in own:
                        ctx.ob('C11-R6', fi, f'switch `{x.attr}` exists', False,
                               f'enabled_species reads `self.{x.attr}`, which EmissionsConfig does not have: every use of '
                               f'enabled_species fails with AttributeError', line=fi.node.lineno)
    for sp in unswitchable:
        ctx.ob('C11-R6', fi, f'Species.{sp} can be switched off', False,
               f'Species.{sp} is put into enabled_species under {table.text[sp]}: no `<label>_enabled` switch of the configuration '
               'has to be on for that, so the option that is documented to switch it off does not keep it out of the '
               'trajectory and LTO parts', line=fi.node.lineno)
    for what, why in pending:
        ctx.undecided('C11-R3/table', fi, what, why)
    # R6: a species that has a switch of its own must be enabled by that switch
    for label, g in sorted(groups.items()):
        for sp in sorted(g['species'] | set(g['conditional'])):
            mine = f'{sp.lower()}_enabled'
            if mine in own and sp.lower() != label:
                ctx.ob('C11-R6', fi, f'Species.{sp} enabled by `{label}_enabled`', False,
                       f'EmissionsConfig has `{mine}`' + (f' (from {sp.lower()}_method)' if f'{sp.lower()}_method' in own else '') +
                       f', but enabled_species puts Species.{sp} in the '
                       f'`{label}` group: switching {sp} off has no effect and it keeps being computed (and switching '
                       f'{label.upper()} off removes it)', line=fi.node.lineno)
            else:
                ctx.ob('C11-R6', fi, f'Species.{sp} enabled by `{label}_enabled`', True,
                       'own switch' if sp.lower() == label else 'member of a multi-species group without a switch of its own',
                       line=fi.node.lineno, nontrivial=False)
    ctx.floor('C11-R3/table', len(groups), 7, 'species groups in enabled_species')
    table.groups = groups
    return table


def species_enabled_by(atoms, K: str, table, keyvar: str | None = None, fi=None) -> str | None:
    """Do the facts at a site imply that species K is switched on?  Decided over the finite domain of the option
    fields: for every assignment under which all the (configuration) facts hold, enabled_species contains K.
    Returns the text of the deciding fact(s)."""
    if keyvar:
        for t, pol in atoms:
            if pol and isinstance(t, ast.Compare) and not isinstance(t.comparators[0], ast.pattern) and isinstance(t.ops[0], ast.In) \
                    and norm(t.left) == keyvar and 'enabled_species' in norm(t.comparators[0]):
                return norm(t)
    return table.implied_by(fi, atoms, K)


def _pattern_members(p) -> set[str] | None:
    if isinstance(p, ast.MatchValue) and isinstance(p.value, ast.Attribute):
        return {p.value.attr}
    if isinstance(p, ast.MatchOr):
        out = set()
        for q in p.patterns:
            r = _pattern_members(q)
            if r is None:
                return None
            out |= r
        return out
    return None


def is_literal_zero(v: ast.AST) -> bool:
    if isinstance(v, ast.Constant) and v.value in (0, 0.0):
        return True
    if isinstance(v, ast.Call):
        cn = call_name(v)
        if cn in ('np.zeros', 'np.zeros_like', 'numpy.zeros'):
            return True
        if cn == 'ThrustModeValues' and (not v.args or (len(v.args) == 1 and isinstance(v.args[0], ast.Constant)
                                                         and v.args[0].value in (0, 0.0))):
            return True
    return False


# ---------------------------------------------------------------- R1 -----
def rule_dispatch(ctx):
    prog = ctx.prog
    cm = prog.module(CFGE)
    ec = cm.cls('EmissionsConfig')
    fields = ec.annotated_fields()
    sites = 0
    for rel in ('emissions/trajectory.py', 'emissions/lto.py', 'emissions/apu.py', 'emissions/emission.py', 'emissions/utils.py'):
        m = prog.module(rel)
        for fi in m.functions.values():
            # match statements
            for x in walk_no_nested(fi.node):
                if isinstance(x, ast.Match) and norm(x.subject).startswith('config.emissions.') \
                        and norm(x.subject).endswith('_method'):
                    attr = norm(x.subject).split('.')[-1]
                    enum = prog.resolve_class_expr(cm, fields[attr]) if attr in fields else None
                    if enum is None:
                        ctx.undecided('C11-R1', fi, norm(x.subject), 'cannot resolve the method enum')
                    members = [k for k, v in enum.class_assignments().items() if isinstance(v, ast.Constant)]
                    handled = set()
                    default = None
                    for c in x.cases:
                        pm = _pattern_members(c.pattern)
                        if pm is None:
                            default = c
                        else:
                            handled |= pm
                    handled |= _handled_before(fi, x, attr)
                    sites += 1
                    # `case other:` gives the subject a name the arm may build its message from
                    cap = {default.pattern.name: x.subject} if default is not None and isinstance(default.pattern, ast.MatchAs) \
                        and default.pattern.pattern is None and default.pattern.name else {}
                    _dispatch_verdict(ctx, fi, x, attr, members, handled, default.body if default else None, cap)
            # if / elif chains on `config.emissions.X_method is Enum.M`
            for x in walk_no_nested(fi.node):
                if isinstance(x, ast.If) and not (isinstance(getattr(x, '_parent', None), ast.If)
                                                  and x in getattr(x._parent, 'orelse', [])):
                    chain, cur, attr = [], x, None
                    while isinstance(cur, ast.If):
                        t = cur.test
                        mem = None
                        if isinstance(t, ast.Compare) and len(t.ops) == 1 and isinstance(t.ops[0], (ast.Is, ast.Eq)) \
                                and norm(t.left).startswith('config.emissions.') and norm(t.left).endswith('_method') \
                                and isinstance(t.comparators[0], ast.Attribute):
                            mem = t.comparators[0].attr
                            attr = norm(t.left).split('.')[-1]
                        if mem is None:
                            break
                        chain.append(mem)
                        nxt = cur.orelse
                        if len(nxt) == 1 and isinstance(nxt[0], ast.If):
                            cur = nxt[0]
                        else:
                            cur = nxt
                    if len(chain) >= 2 and attr in fields:
                        enum = prog.resolve_class_expr(cm, fields[attr])
                        members = [k for k, v in enum.class_assignments().items() if isinstance(v, ast.Constant)]
                        handled = set(chain) | _handled_before(fi, x, attr)
                        sites += 1
                        _dispatch_verdict(ctx, fi, x, attr, members, handled, cur if isinstance(cur, list) else None)
    ctx.floor('C11-R1', sites, 5, 'method dispatch sites')


_REFUSAL_TYPES = ('NotImplementedError', 'ValueError')


def _expanded(fi, e, bind, depth=0):
    """expression e of function fi with its names resolved: a parameter by the argument bound to it (`bind`, already
    in the terms of the dispatching function), a local with one plain definition by that definition (expanded the
    same way).  What flows into e is then readable off the result."""
    import copy
    if bind is None:            # already expanded
        return e
    fn = fi.node
    params = set(fi.params)

    class T(ast.NodeTransformer):
        def visit_Name(self, n):
            if not isinstance(n.ctx, ast.Load):
                return n
            if n.id in bind:
                return copy.deepcopy(bind[n.id])
            if n.id in params or depth > 6:
                return n
            v = single_def_value(fn, n.id)
            if v is None or any(isinstance(x, ast.Name) and x.id == n.id for x in ast.walk(v)):
                return n
            return _expanded(fi, v, bind, depth + 1)

        def visit_Lambda(self, n):
            return n
    return T().visit(copy.deepcopy(e))


def _call_binding(callee, call, fi, bind, skip_self=False):
    """parameter -> argument expression (expanded in the caller fi) of a call to callee; a parameter the call does
    not bind takes its default; None when the call cannot be bound (*args / **kwargs)"""
    a = callee.node.args
    if any(isinstance(x, ast.Starred) for x in call.args) or any(k.arg is None for k in call.keywords) or a.vararg or a.kwarg:
        return None
    names = [p.arg for p in a.posonlyargs + a.args]
    defaults = dict(zip(names[len(names) - len(a.defaults):], a.defaults))
    defaults.update({p.arg: d for p, d in zip(a.kwonlyargs, a.kw_defaults) if d is not None})
    if skip_self or (callee.cls is not None and names[:1] in (['self'], ['cls']) and isinstance(call.func, ast.Attribute)
                     and not any('staticmethod' in d for d in callee.decorators())):
        names = names[1:]
    if len(call.args) > len(names):
        return None
    out = {n: _expanded(fi, x, bind) for n, x in zip(names, call.args)}
    for k in call.keywords:
        out[k.arg] = _expanded(fi, k.value, bind)
    for n, d in defaults.items():
        out.setdefault(n, d)
    return out


def _handled_before(fi, node, attr) -> set[str]:
    """members of the method enum that an earlier guard clause (`if … method is NONE: return / raise`) has taken
    out before the dispatch `node` is reached: they are handled there, whatever form the dispatch has"""
    out = set()
    for t, pol in early_exit_facts(fi.node, node):
        for tt, pp in conjuncts(t, pol):
            if not pp and isinstance(tt, ast.Compare) and len(tt.ops) == 1 and norm(tt.left) == f'config.emissions.{attr}':
                c = tt.comparators[0]
                if isinstance(tt.ops[0], (ast.Is, ast.Eq)) and isinstance(c, ast.Attribute):
                    out.add(c.attr)
                elif isinstance(tt.ops[0], ast.In) and isinstance(c, (ast.Tuple, ast.List, ast.Set)) \
                        and all(isinstance(el, ast.Attribute) for el in c.elts):
                    out |= {el.attr for el in c.elts}
    return out


def _raise_points(stmts):
    """the raise statements a block ends in when every path through it that reaches its end leaves by one of them
    (last statement a raise; an if / else or a match with a catch-all arm whose every branch does); else None"""
    s = last_stmt(stmts) if stmts else None
    if isinstance(s, ast.Raise):
        return [s]
    if isinstance(s, ast.If) and s.orelse:
        a, b = _raise_points(s.body), _raise_points(s.orelse)
        return a + b if a is not None and b is not None else None
    if isinstance(s, ast.Match) and any(_pattern_members(c.pattern) is None and c.guard is None
                                        and isinstance(c.pattern, ast.MatchAs) and c.pattern.pattern is None for c in s.cases):
        out = []
        for c in s.cases:
            r = _raise_points(c.body)
            if r is None:
                return None
            out += r
        return out
    return None


def _is_target(x, target: str) -> bool:
    return isinstance(x, ast.Attribute) and norm(x) == target


def _breaks_itself(msg) -> str | None:
    """a message expression that cannot be evaluated: an attribute read off a literal that has no such attribute
    (`'EI_X_method'.value` once the arguments are bound - the option name handed over where the method belongs)"""
    for a in msg:
        for x in ast.walk(a):
            if isinstance(x, ast.Attribute) and isinstance(x.value, ast.Constant) and not hasattr(x.value.value, x.attr):
                return f'`{norm(x)[:40]}` raises AttributeError while the message is built: the refusal itself fails'
    return None


def _interpolates(prog, fi, msg, target: str, depth=0) -> bool:
    """do the (expanded) message arguments `msg` of an exception read `target`?  A message that a resolved helper
    of the repository puts together (`NotImplementedError(_text(option, method))`) reads it when every return of
    the helper does, with the parameters bound to the arguments.  Raises _Cannot when the message cannot be built."""
    broken = _breaks_itself(msg)
    if broken:
        raise _Cannot(broken)
    for a in msg:
        callee = resolve_call(prog, fi, a) if isinstance(a, ast.Call) and depth < 3 else None
        if callee is not None and callee.name not in ('__init__', '__post_init__'):
            b2 = _call_binding(callee, a, fi, None)
            rets = [r.value for r in walk_no_nested(callee.node) if isinstance(r, ast.Return) and r.value is not None]
            if b2 is not None and rets:
                if all(_interpolates(prog, callee, [_expanded(callee, r, b2)], target, depth + 1) for r in rets):
                    return True
                continue
        if any(_is_target(x, target) for x in ast.walk(a)):
            return True
    return False


def _refusal(prog, fi, e, target: str, bind, depth=0):
    """Is the exception expression e (in fi, parameters bound by `bind`) a NotImplementedError / ValueError whose
    message interpolates the configuration read `target`?  Decided from what is built, not from where: the
    constructor call itself, a local it was put in, a conditional between two of them, a repository class derived
    from one of the two (the message its __init__ hands to the base class), or a resolved helper every return of
    which hands back such an exception - with the helper's parameters bound to the arguments of this call, so the
    message names the method only when the value that is passed in is the method's.
    `bind` None: e is already expanded.
    -> (True, how) | (False, why not) | (None, why it cannot be told)"""
    try:
        return _refusal_1(prog, fi, e, target, bind, depth)
    except _Cannot as ex:
        return False, str(ex)


def _refusal_1(prog, fi, e, target: str, bind, depth):
    if e is None:
        return False, 'a bare `raise`'
    if depth > 4:
        return None, f'`{norm(e)[:50]}`: too many levels of helpers'
    e = _expanded(fi, e, bind)
    if isinstance(e, ast.IfExp):
        for arm in (e.body, e.orelse):
            r = _refusal(prog, fi, arm, target, None, depth + 1)
            if r[0] is not True:
                return r
        return True, 'both arms of the conditional'
    if not isinstance(e, ast.Call):
        if isinstance(e, (ast.Name, ast.Attribute)) and norm(e).split('.')[-1] in _REFUSAL_TYPES:
            return False, f'`raise {norm(e)}` carries no message'
        if isinstance(e, ast.Name) and e.id in fi.params:
            return None, f'the exception is the parameter `{e.id}`, not bound here'
        return False, f'`{norm(e)[:50]}` is not a NotImplementedError/ValueError built here'
    ci = prog.resolve_class_expr(fi.module, e.func)
    if ci is None and call_name(e).split('.')[-1] in _REFUSAL_TYPES and call_name(e).split('.')[0] in _REFUSAL_TYPES + ('builtins',):
        msg = list(e.args) + [k.value for k in e.keywords]
        if _interpolates(prog, fi, msg, target):
            return True, f'{call_name(e)} naming {target}'
        return False, f'the message of `{norm(e)[:60]}` does not interpolate {target}'
    if ci is not None:
        # a repository exception class: refuses when it derives from one of the two; its message is what reaches
        # the base constructor
        mro = ci.mro()
        if not any(b.split('.')[-1] in _REFUSAL_TYPES for k in mro for b in k.base_exprs):
            return False, f'{ci.name} is not a NotImplementedError/ValueError'
        if any(n in k.methods for k in mro for n in ('__str__', '__new__')):
            return None, f'{ci.name} renders its own message'
        init = ci.find_method('__init__')
        if init is None:
            msg = list(e.args) + [k.value for k in e.keywords]
            if _interpolates(prog, fi, msg, target):
                return True, f'{ci.name} naming {target}'
            return False, f'the message of `{norm(e)[:60]}` does not interpolate {target}'
        b2 = _call_binding(init, e, fi, None, skip_self=True)
        if b2 is None:
            return None, f'cannot bind the arguments of `{norm(e)[:50]}`'
        sup = [c for c in calls_in(init.node) if isinstance(c.func, ast.Attribute) and c.func.attr == '__init__'
               and (isinstance(c.func.value, ast.Call) and call_name(c.func.value) == 'super'
                    or norm(c.func.value).split('.')[-1] in _REFUSAL_TYPES)]
        if len(sup) != 1:
            return None, f'{ci.name}.__init__ does not hand one message to its base class'
        msg = [_expanded(init, a, b2) for a in list(sup[0].args) + [k.value for k in sup[0].keywords]]
        if _interpolates(prog, init, msg, target):
            return True, f'{ci.name} naming {target}'
        return False, f'the message {ci.name} builds for `{norm(e)[:50]}` does not interpolate {target}'
    callee = resolve_call(prog, fi, e)
    if callee is None:
        if call_name(e).split('.')[-1].endswith(('Error', 'Exception', 'Warning')) and '.' not in call_name(e):
            return False, f'`{norm(e)[:50]}` is not a NotImplementedError/ValueError'
        return None, f'cannot resolve `{call_name(e)}`, which builds the exception'
    b2 = _call_binding(callee, e, fi, None)
    if b2 is None:
        return None, f'cannot bind the arguments of `{norm(e)[:50]}`'
    if any(isinstance(x, (ast.Yield, ast.YieldFrom)) for x in walk_no_nested(callee.node)):
        return False, f'{callee.name} is a generator, not an exception'
    rets = [r for r in walk_no_nested(callee.node) if isinstance(r, ast.Return)]
    if not rets or _raise_points(callee.node.body) is None and not isinstance(last_stmt(callee.node.body), ast.Return):
        return False, f'{callee.name} can end without handing back an exception (`raise None` is a TypeError)'
    for r in rets:
        got = _refusal(prog, callee, r.value, target, b2, depth + 1)
        if got[0] is not True:
            return got[0], f'{callee.name} (line {r.lineno}): {got[1]}'
    return True, f'{callee.name} builds a refusal naming {target}'


def _arm_refusal(prog, fi, body, target: str, bind, depth=0):
    """Does the default arm `body` refuse by name?  Its raise (as before: a raise among its own statements), the
    raise points it ends in, or a call - as a statement - of a resolved helper that never comes back: every path
    through the helper ends in a raise and nothing returns, each of its raises decided with the helper's parameters
    bound to the arguments.  A helper that only *builds* the exception must be raised by the arm: calling it as a
    statement refuses nothing."""
    if not body:
        return False, None
    own = [s for s in body if isinstance(s, ast.Raise)]
    pts = [own[-1]] if own else _raise_points(body)
    if pts:
        for r in pts:
            got = _refusal(prog, fi, r.exc, target, bind, depth)
            if got[0] is not True:
                return got
        return True, 'raise'
    s = last_stmt(body)
    if isinstance(s, ast.Expr) and isinstance(s.value, ast.Call) and depth <= 3:
        callee = resolve_call(prog, fi, s.value)
        if callee is not None and callee.name not in ('__init__', '__post_init__'):
            inner = _raise_points(callee.node.body)
            if inner is not None and not any(isinstance(x, (ast.Return, ast.Yield, ast.YieldFrom)) for x in walk_no_nested(callee.node)):
                b2 = _call_binding(callee, s.value, fi, bind)
                if b2 is None:
                    return None, f'cannot bind the arguments of `{norm(s.value)[:50]}`'
                for r in inner:
                    got = _refusal(prog, callee, r.exc, target, b2, depth + 1)
                    if got[0] is not True:
                        return got[0], f'{callee.name} (line {r.lineno}): {got[1]}'
                return True, f'{callee.name} never returns'
            if inner is None and any(isinstance(r, ast.Return) and r.value is not None
                                     and _refusal(prog, callee, r.value, target, _call_binding(callee, s.value, fi, bind) or {}, depth + 1)[0]
                                     for r in walk_no_nested(callee.node)):
                return False, f'`{norm(s.value)[:50]}` builds the exception but the arm does not raise it'
            if any(isinstance(x, ast.Raise) for x in walk_no_nested(callee.node)):
                return False, f'{callee.name} raises only on some of its paths: the others come back and the arm goes on'
    return False, None


def _dispatch_verdict(ctx, fi, node, attr, members, handled, default_body, bind=None):
    missing = [m for m in members if m not in handled]
    target = f'config.emissions.{attr}'
    named, why = (False, None)
    if missing:
        named, why = _arm_refusal(ctx.prog, fi, default_body, target, bind or {})
        if named is None:
            ctx.undecided('C11-R1', fi, f'{attr}: default arm', why)
    for mem in members:
        if mem in handled:
            ctx.ob('C11-R1', fi, f'{attr}: member {mem} has an explicit arm', True, 'explicit arm', line=node.lineno,
                   nontrivial=False)
        else:
            ctx.ob('C11-R1', fi, f'{attr}: member {mem} falls to the default arm', bool(named),
                   'default arm raises NotImplementedError/ValueError naming the method value' if named else
                   (f'{mem} is neither handled nor refused by name: the call continues with unset locals / '
                    'returns nothing (an internal error or a silently wrong inventory)' + (f' [{why}]' if why else '')),
                   line=node.lineno)
    if not missing:
        ctx.ob('C11-R1', fi, f'{attr}: dispatch covers {sorted(handled)}', True, 'all members handled explicitly',
               line=node.lineno)


def _governing(node, keyvar: str):
    """the iteration that binds `keyvar` around node: (owner, map_iteration result or None, iter expr).  The
    key variable may be the loop target itself (`for k in …`) or the key half of `for k, v in m.items()`."""
    for owner, tgt, it in enclosing_iterations(node):
        mi = map_iteration(tgt, it)
        if mi is not None and mi[1] == keyvar:
            return owner, mi, it
        if mi is None and isinstance(tgt, ast.Name) and tgt.id == keyvar:
            return owner, None, it
    return None


# ---------------------------------------------------------------- R2 -----
_KEYERROR_HANDLERS = {'KeyError', 'LookupError', 'Exception', 'BaseException'}
_MAP_NAMES = ('indices', 'emissions', 'gse', 'lto_indices', 'lto_emissions', 'trajectory', 'lto', 'apu', 'nominal', 'result')


def _species_const(e):
    return isinstance(e, ast.Attribute) and isinstance(e.value, ast.Name) and e.value.id == 'Species'


class _KeyReads:
    """Is the key of a read `m[key]` certainly in the species map m when the read happens?  Decided from where the key
    got in, not from how the guard is spelt:
      * a membership fact on the path (`key in m`, `key in m.keys()`, `if key not in m: return/continue/raise`, a
        conditional expression, a short-circuit operand, a match arm), or an enclosing try that handles KeyError;
      * for the totals (an attribute of an inventory): facts that imply the species is enabled, over the option fields;
      * for a map built in the function: every path from the function entry - and from anything that may take the key
        out again (del / pop / clear / rebinding the map, rebinding a name the key mentions) - to the read passes a
        store of that key (`m[key] = …`, a display the map is built from, `.setdefault` / `.update` with the key; a
        completed loop over a literal collection / a mapping that stores `m[v] = …` for every element v counts for
        each of its elements), decided on the control-flow graph;
      * a key variable that walks the map's own keys; one that walks a literal collection of constant keys is decided
        key by key; one that walks another collection needs an earlier loop (or dict comprehension) that stored an
        element for everything that collection yields, with nothing added to the collection in between;
      * a map handed back by a resolved helper whose every return builds it with the key;
      * a map (and key) received as parameters: the read is decided at every call site, with the arguments bound."""

    def __init__(self, prog, table):
        self.prog, self.table = prog, table
        self.flow = _Writability(prog)      # for its CFG / statement-node tables
        self.why_not = None

    # ---- facts
    def handled(self, fi, at):
        child = at
        for a in ancestors(at):
            if isinstance(a, ast.Try) and any(child is s for s in a.body):
                for h in a.handlers:
                    ts = [h.type] if h.type is not None and not isinstance(h.type, ast.Tuple) else (h.type.elts if h.type is not None else [])
                    if h.type is None or any(norm(t).split('.')[-1] in _KEYERROR_HANDLERS for t in ts):
                        return f'a missing key is handled by `except {norm(h.type) if h.type is not None else ""}` at line {h.lineno}'
            if a is fi.node:
                break
            child = a
        return None

    @staticmethod
    def member_fact(atoms, ktxt, btxt):
        for t, pol in atoms:
            if not pol or not isinstance(t, ast.Compare) or len(t.ops) != 1 or isinstance(t.comparators[0], ast.pattern):
                continue
            if isinstance(t.ops[0], ast.In) and norm(t.left) == ktxt:
                r = t.comparators[0]
                if isinstance(r, ast.Call) and isinstance(r.func, ast.Attribute) and r.func.attr == 'keys' and not r.args:
                    r = r.func.value
                while isinstance(r, ast.Call) and call_name(r) in ('set', 'list', 'tuple', 'frozenset') and len(r.args) == 1:
                    r = r.args[0]
                if norm(r) == btxt:
                    return f'guarded by `{norm(t)}`'
        return None

    def _display_has(self, fi, e, key):
        """expression e contains a mapping display that has `key`: a dict display with the key, or - for a member of
        the Species enum - a mapping made from every member (`{k: … for k in Species}`, dict.fromkeys(Species, …))"""
        ktxt = norm(key)
        for d in ast.walk(e):
            if isinstance(d, ast.Dict) and any(k is not None and norm(k) == ktxt for k in d.keys):
                return True
            if _species_const(key) and isinstance(d, ast.DictComp) and len(d.generators) == 1 and not d.generators[0].ifs \
                    and isinstance(d.generators[0].target, ast.Name) and norm(d.key) == d.generators[0].target.id \
                    and key.attr in (_species_members(self.prog, fi, d.generators[0].iter) or ()):
                return True
            if _species_const(key) and isinstance(d, ast.Call) and call_name(d) == 'dict.fromkeys' and d.args \
                    and key.attr in (_species_members(self.prog, fi, d.args[0]) or ()):
                return True
        return False

    # ---- a map built in the function: stores on every path (CFG)
    def _key_stores(self, fi, m, key, depth=0):
        """(nodes after which m certainly holds `key`, nodes after which it may no longer)"""
        fn, g = fi.node, self.flow.cfg(fi)
        ktxt = norm(key)
        stores, kills = set(), set()
        knames = {x.id for x in ast.walk(key) if isinstance(x, ast.Name) and not _species_const(x)} - {'Species'}
        if _species_const(key):
            knames = set()

        def display_has(e):
            return self._display_has(fi, e, key)

        for t, st, how in stores_to(fn):
            if isinstance(t, ast.Subscript) and isinstance(t.value, ast.Name) and t.value.id == m:
                if norm(t.slice) == ktxt and how in ('assign', 'ann'):
                    stores |= set(self.flow.nodes(fi, st))
                elif how == 'del':
                    kills |= set(self.flow.nodes(fi, st))
            elif isinstance(t, ast.Name) and t.id == m:
                v = getattr(st, 'value', None)
                if how in ('assign', 'ann') and v is not None and display_has(v):
                    stores |= set(self.flow.nodes(fi, st))
                elif how == 'aug' and isinstance(getattr(st, 'op', None), ast.BitOr) and (
                        display_has(st.value) or self._holds(fi, st.value, key, st, m, depth)):
                    stores |= set(self.flow.nodes(fi, st))
                elif how != 'aug':
                    kills |= set(self.flow.nodes(fi, st))
            elif isinstance(t, ast.Name) and t.id in knames:
                kills |= set(self.flow.nodes(fi, st))
        for c in calls_in(fn):
            if isinstance(c.func, ast.Attribute) and isinstance(c.func.value, ast.Name) and c.func.value.id == m:
                st = stmt_of(c)
                if c.func.attr == 'setdefault' and c.args and norm(c.args[0]) == ktxt:
                    stores |= set(self.flow.nodes(fi, st))
                elif c.func.attr == 'update' and any(display_has(a) or self._holds(fi, a, key, c, m, depth) for a in c.args):
                    stores |= set(self.flow.nodes(fi, st))
                elif c.func.attr in ('pop', 'popitem', 'clear'):
                    kills |= set(self.flow.nodes(fi, st))
        # a call that hands the map to a resolved function which stores the key into that parameter on every path to
        # its return
        if _species_const(key) and depth < 3:
            for c in calls_in(fn):
                if not any(isinstance(a_, ast.Name) and a_.id == m for a_ in [*c.args, *[k.value for k in c.keywords]]):
                    continue
                callee = resolve_call(self.prog, fi, c)
                if callee is None or callee.node is fn or callee.node.decorator_list:
                    continue
                for pname in callee.params:
                    a_ = _bound_arg(callee, c, pname)
                    if isinstance(a_, ast.Name) and a_.id == m and self.stores_before_return(callee, pname, key, depth + 1):
                        stores |= set(self.flow.nodes(fi, stmt_of(c)))
        # a completed loop that stores an element for every member of a constant collection containing the key (a
        # display of members, rows of (member, value), a dict display - in place, a local or a module constant - or
        # the Species enum itself)
        if g is not None and _species_const(key):
            for t, st, how in stores_to(fn):
                if not (isinstance(t, ast.Subscript) and isinstance(t.value, ast.Name) and t.value.id == m
                        and isinstance(t.slice, ast.Name) and how in ('assign', 'ann')):
                    continue
                lit = _literal_species_keys(self.prog, fi, st, t.slice.id, with_owner=True, enum=True)
                if lit is None or key.attr not in lit[1] or not isinstance(lit[0], ast.For) or lit[0].orelse:
                    continue
                if self._stores_every(fi, lit[0], m, t.slice.id):
                    stores |= {n for n in g.nodes_of(lit[0]) if g.nodes[n].kind == 'join'}
        # a completed loop over the keys of another mapping that stores an element for every key it walks: the key
        # is in m afterwards when that mapping had it where the loop stands
        if g is not None and depth < 3:
            for t, st, how in stores_to(fn):
                if not (isinstance(t, ast.Subscript) and isinstance(t.value, ast.Name) and t.value.id == m
                        and isinstance(t.slice, ast.Name) and how in ('assign', 'ann')):
                    continue
                gov = _governing(st, t.slice.id)
                if gov is None or gov[1] is None or gov[1][0] == m or not isinstance(gov[0], ast.For) or gov[0].orelse:
                    continue
                src = iterated_mapping(gov[2])
                if src is None or src[1] == 'values' or not self._stores_every(fi, gov[0], m, t.slice.id):
                    continue
                if self._holds(fi, src[0], key, gov[0], m, depth):
                    stores |= {n for n in g.nodes_of(gov[0]) if g.nodes[n].kind == 'join'}
        return stores, kills - stores

    def _holds(self, fi, e, key, at, m, depth):
        """the map expression e, merged into map m at node `at` (`m.update(e)`, `m |= e`), certainly has `key` there: a
        read e[key] at that place would find it (another local map with the key stored on every path so far, the
        result of a helper every return of which builds the map with the key - itself, a field or an unpacked
        component -, a map the function is given, decided at its call sites, a fact on the path)"""
        if depth >= 3 or isinstance(e, ast.Starred) or self.handled(fi, at):
            return False
        e = _map_content(e)
        keep = self.why_not
        try:
            if isinstance(e, ast.Call) and _species_const(key):
                callee = resolve_call(self.prog, fi, e)
                if callee is None or callee.cls is not None or callee.node.decorator_list:
                    return False
                rets = [r_.value for r_ in walk_no_nested(callee.node) if isinstance(r_, ast.Return) and r_.value is not None]
                return bool(rets) and all(self._returns_with_key(callee, rv, None, key, depth + 1) for rv in rets)
            if isinstance(e, ast.Name) and e.id == m:
                return False
            if isinstance(e, (ast.Name, ast.Attribute)):
                return self.safe(fi, e, key, at, depth + 1) is not None
            return False
        finally:
            self.why_not = keep

    def _literal_elts(self, fi, it):
        while isinstance(it, ast.Call) and isinstance(it.func, ast.Name) and it.func.id in ('list', 'tuple', 'sorted', 'set', 'frozenset') \
                and len(it.args) == 1 and not it.keywords:
            it = it.args[0]
        if isinstance(it, ast.Name):
            v = single_def_value(fi.node, it.id)
            if v is None and it.id not in fi.params and not any(isinstance(t, ast.Name) and t.id == it.id for t, _s, _h in stores_to(fi.node)):
                r = self.prog.resolve_name(fi.module, it.id)
                v = r[1].constants[r[2]] if isinstance(r, tuple) and r[0] == 'const' else None
            it = v
        if isinstance(it, (ast.List, ast.Tuple, ast.Set)) and not any(isinstance(e, ast.Starred) for e in it.elts):
            return list(it.elts)
        return None

    def _stores_every(self, fi, lp, m, lv):
        """every iteration of loop lp stores m[lv] = …: no path through the body gets back to the loop head (or out
        of the loop by `break`) without passing such a store - whichever branch it takes"""
        g = self.flow.cfg(fi)
        if g is None:
            return False
        head = [n for n in g.nodes_of(lp) if g.nodes[n].kind == 'iter']
        join = [n for n in g.nodes_of(lp) if g.nodes[n].kind == 'join']
        S = set()
        for t, st, how in stores_to(lp):
            if isinstance(t, ast.Subscript) and isinstance(t.value, ast.Name) and t.value.id == m and norm(t.slice) == lv \
                    and how in ('assign', 'ann') and st is not lp:
                S |= set(self.flow.nodes(fi, st))
        if not head or not S:
            return False
        if any(isinstance(t, ast.Name) and t.id == lv and st is not lp for t, st, how in stores_to(lp)):
            return False        # the loop variable is rebound inside the loop
        h = head[0]

        def edge_ok(a, b, lab):
            if a == h:
                return lab == 't'
            return a not in S and lab != 'e'
        return not any(g.reaches(h, tgt, edge_ok) for tgt in [h, *join])

    def stores_before_return(self, fi, pname, key, depth=0):
        """function fi stores `key` into the map it receives as parameter pname on every path from its entry to a
        normal return"""
        g = self.flow.cfg(fi)
        if g is None:
            return False
        stores, kills = self._key_stores(fi, pname, key, depth)
        if not stores:
            return False
        blocked = self.flow._avoiding(g, stores)
        return not any(g.reaches(a, g.exit, blocked) for a in kills | {g.entry})

    def stored_on_every_path(self, fi, m, key, at, depth=0):
        g = self.flow.cfg(fi)
        use = self.flow.nodes(fi, stmt_of(at) if not isinstance(at, ast.stmt) else at)
        if g is None or not use:
            return None
        stores, kills = self._key_stores(fi, m, key, depth)
        if not stores:
            return None
        blocked = self.flow._avoiding(g, stores)
        for a in kills | {g.entry}:
            for u in use:
                if (a == u and a != g.entry and a not in stores) or g.reaches(a, u, blocked):
                    return None
        lines = sorted({g.nodes[n].line for n in stores if g.nodes[n].line})
        return f'every path to the read stores the key first (line{"s" if len(lines) > 1 else ""} {", ".join(map(str, lines[:4]))})'

    # ---- a store under configuration facts that the facts at the read imply
    def stored_under_implied_facts(self, fi, m, key, at, atoms):
        """An earlier statement of a block around the read is an `if` (chain) that stores `m[key] = …` under tests on
        the configuration only, and the configuration facts at the read imply those tests (decided over the option
        fields, so the two guards may be spelt differently): whenever the read is reached the store has happened.
        Nothing may take the key out again in between."""
        g = self.flow.cfg(fi)
        if g is None or not isinstance(self.table, _EnabledTable):
            return None
        ktxt = norm(key)
        _stores, kills = self._key_stores(fi, m, key)
        kill_lines = {g.nodes[n].line for n in kills if g.nodes[n].line}
        p_read = self.table.premises(fi, atoms)
        child = at
        for a in ancestors(at):
            for f in ('body', 'orelse', 'finalbody'):
                bl = getattr(a, f, None)
                if not (isinstance(bl, list) and any(child is s_ for s_ in bl)):
                    continue
                for s0 in bl:
                    if s0 is child:
                        break
                    if not isinstance(s0, ast.If):
                        continue
                    for t, st, how in stores_to(s0):
                        if not (isinstance(t, ast.Subscript) and isinstance(t.value, ast.Name) and t.value.id == m
                                and norm(t.slice) == ktxt and how in ('assign', 'ann')):
                            continue
                        up, only_ifs = getattr(st, '_parent', None), True
                        while up is not None and up is not s0:
                            only_ifs = only_ifs and isinstance(up, ast.If)
                            up = getattr(up, '_parent', None)
                        if not only_ifs or up is not s0:
                            continue
                        if any(st.lineno < ln <= getattr(at, 'lineno', 0) for ln in kill_lines):
                            continue
                        extra = [x for x in facts_at(fi.node, st) if not any(x[0] is y[0] and x[1] == y[1] for y in atoms)]
                        p_store = self.table.premises(fi, extra)
                        if len(p_store) != len(extra) or not p_store:
                            continue
                        fields = set().union(*[p_[2] for p_ in p_read + p_store])
                        try:
                            ok = all(all(bool(self.table.tab.ev(e, dict(env), {})) == pol for e, pol, _f, _t in p_store)
                                     for env in self.table.tab.assignments(fields)
                                     if all(bool(self.table.tab.ev(e, dict(env), {})) == pol for e, pol, _f, _t in p_read))
                        except _Cannot:
                            ok = False
                        if ok:
                            return (f'stored at line {st.lineno} under {" and ".join(p_[3] for p_ in p_store)[:80]}, which the facts at '
                                    f'the read imply')
            if a is fi.node:
                break
            child = a
        return None

    # ---- every element of a collection was stored by an earlier loop
    def stored_for_all_of(self, fi, m, it, at):
        """an earlier statement of an enclosing block stored m[v] for every v the iterable `it` yields (a loop with
        the same iterable, a dict comprehension over it handed to the map), and the iterated mapping got no new key since"""
        want = iterated_mapping(it)
        want_txt = (norm(want[0]), 'keys') if want is not None and want[1] in ('keys', 'items') else (norm(it), None)
        child = at
        for a in ancestors(at):
            for f in ('body', 'orelse', 'finalbody'):
                bl = getattr(a, f, None)
                if not (isinstance(bl, list) and any(child is s for s in bl)):
                    continue
                for s0 in bl:
                    if s0 is child:
                        break
                    src = None
                    if isinstance(s0, ast.For) and not s0.orelse:
                        mi0 = map_iteration(s0.target, s0.iter)
                        lv = mi0[1] if mi0 else (s0.target.id if isinstance(s0.target, ast.Name) else None)
                        if lv is not None and self._stores_every(fi, s0, m, lv):
                            src = (mi0[0], 'keys') if mi0 is not None else (norm(s0.iter), None)
                    else:
                        for comp in [x for x in ast.walk(s0) if isinstance(x, ast.DictComp)] if isinstance(s0, (ast.Assign, ast.AnnAssign, ast.Expr)) else []:
                            holder = getattr(comp, '_parent', None)
                            while isinstance(holder, ast.Call) and holder is not getattr(s0, 'value', None) and not (
                                    isinstance(holder.func, ast.Attribute) and holder.func.attr == 'update'):
                                holder = getattr(holder, '_parent', None)
                            into = None
                            if isinstance(holder, ast.Call) and isinstance(holder.func, ast.Attribute) and holder.func.attr == 'update':
                                into = norm(holder.func.value)
                            elif isinstance(s0, (ast.Assign, ast.AnnAssign)):
                                tg = s0.targets if isinstance(s0, ast.Assign) else [s0.target]
                                into = tg[0].id if len(tg) == 1 and isinstance(tg[0], ast.Name) else None
                            if into == m and len(comp.generators) == 1 and not comp.generators[0].ifs:
                                g0 = comp.generators[0]
                                mi0 = map_iteration(g0.target, g0.iter)
                                kv = mi0[1] if mi0 else (g0.target.id if isinstance(g0.target, ast.Name) else None)
                                if kv is not None and norm(comp.key) == kv:
                                    src = (mi0[0], 'keys') if mi0 is not None else (norm(g0.iter), None)
                    if src is not None and src == want_txt:
                        grown = self._grows(fi, src[0], s0, at) if src[1] == 'keys' else None
                        if grown is None:
                            return f'stored for every {"key of " if src[1] else "element of "}{src[0][:40]} by line {s0.lineno}'
            if a is fi.node:
                break
            child = a
        return None

    def _grows(self, fi, mtxt, after, before):
        """a statement between `after` and `before` that may add a key to the mapping mtxt"""
        lo, hi = getattr(after, 'end_lineno', after.lineno), getattr(before, 'lineno', 0)
        for t, st, how in stores_to(fi.node):
            if isinstance(t, ast.Subscript) and norm(t.value) == mtxt and how in ('assign', 'ann') and lo < st.lineno < hi:
                gov = _governing(st, norm(t.slice)) if isinstance(t.slice, ast.Name) else None
                if gov is not None and gov[1] is not None and gov[1][0] == mtxt:
                    continue        # re-stores a key the mapping already has
                return st
        for c in calls_in(fi.node):
            if isinstance(c.func, ast.Attribute) and norm(c.func.value) == mtxt and c.func.attr in ('update', 'setdefault') \
                    and lo < c.lineno < hi:
                return stmt_of(c)
        return None

    # ---- the decision
    def safe(self, fi, base, key, at, depth=0):
        """reason why base[key], evaluated at node `at` of function fi, finds its key - None when that cannot be shown"""
        prog = self.prog
        btxt, ktxt = norm(base), norm(key)
        K = key.attr if _species_const(key) else None
        r = self.handled(fi, at)
        if r:
            return r
        atoms = facts_at(fi.node, at)
        r = self.member_fact(atoms, ktxt, btxt)
        if r:
            return r
        if K and (isinstance(base, ast.Attribute) or self._record_field_of(fi, base) is not None):
            # `rec.field[K]`, or the local `m[K]` that a record of this function is built from (`rec = R(field=m)`)
            g = species_enabled_by(atoms, K, self.table, fi=fi)
            if g:
                return f'configuration guard `{g}` (totals contain every species)'
        if isinstance(key, ast.Name):
            gov = _governing(at, key.id)
            if gov is not None and gov[1] is not None and gov[1][0] == btxt:
                return f'iterating the map\'s own keys ({norm(gov[2])})'
            # the key walks a constant collection of members (a display, rows of (member, value), a dict display; in
            # place, a local or a module constant): decided member by member, where the loop stands
            lit = _literal_species_keys(prog, fi, at, key.id, with_owner=True)
            if lit is not None:
                owner, names = lit
                where = owner if isinstance(owner, ast.stmt) else at
                rs = [self.safe(fi, base, ast.Attribute(value=ast.Name(id='Species', ctx=ast.Load()), attr=k_, ctx=ast.Load()), where, depth)
                      for k_ in names]
                if all(rs):
                    return f'the key walks {len(names)} constant keys, each present: {rs[0]}'
                return None
            if gov is not None:
                owner, mi, it = gov
                if isinstance(base, ast.Name) and base.id not in fi.params:
                    r = self.stored_for_all_of(fi, base.id, it, owner if isinstance(owner, ast.stmt) else stmt_of(owner))
                    if r:
                        return r
        if isinstance(base, ast.Name) and base.id not in fi.params:
            r = self.stored_on_every_path(fi, base.id, key, at)
            if r:
                return r
            r = self.stored_under_implied_facts(fi, base.id, key, at, atoms) if K else None
            if r:
                return r
        # the field of a record built in this function from a local map (`rec = R(field=m)` … `rec.field[K]`): the
        # read is one of that local
        src = self._field_source(fi, base)
        if src is not None:
            r = self.safe(fi, src, key, at, depth)
            return f'`{btxt}` is the local `{src.id}` the record was built from: {r}' if r else None
        # a map handed back by a helper that builds it with the key on every return: the helper's result itself, a
        # component of the tuple / record it returns (unpacked, or read as a field)
        d, sel = None, None
        if isinstance(base, ast.Name) and base.id not in fi.params:
            d = single_def_value(fi.node, base.id)
            if d is None:
                from ..astutil import tuple_def_component
                td = tuple_def_component(fi.node, base.id)
                d, sel = td if td else (None, None)
        elif isinstance(base, ast.Attribute) and isinstance(base.value, ast.Name) and base.value.id not in fi.params:
            d, sel = single_def_value(fi.node, base.value.id), base.attr
        if isinstance(d, ast.Call) and K:
            callee = resolve_call(prog, fi, d)
            if callee is not None and callee.cls is None and not callee.node.decorator_list:
                rets = [r_.value for r_ in walk_no_nested(callee.node) if isinstance(r_, ast.Return) and r_.value is not None]
                if rets and all(self._returns_with_key(callee, rv, sel, key, depth) for rv in rets):
                    return f'every return of {callee.name} builds the map with this key'
                if rets and self.why_not is None:
                    self.why_not = (f'`{btxt}` is the map {callee.name} hands back, and {self._lacking(callee, rets, sel, key, depth)}; '
                                    f'at this place {_config_facts(atoms)} that {ktxt} is in it')
        if isinstance(key, ast.Name) and not (isinstance(base, ast.Name) and base.id in fi.params) and depth < 3:
            # a map that holds every member of the Species enum (built from `for k in Species`, `{k: … for k in
            # Species}`, … - here or in the helper that hands it back) has whatever species the variable holds
            mem = _species_members(prog, fi, ast.Name(id='Species', ctx=ast.Load()))
            if mem:
                keep = self.why_not
                rs = (self.safe(fi, base, ast.Attribute(value=ast.Name(id='Species', ctx=ast.Load()), attr=k_, ctx=ast.Load()), at, depth + 1)
                      for k_ in mem)
                first = next(rs)
                if first and all(rs):
                    return f'the map holds every member of Species: {first}'
                self.why_not = keep
        # a map the function is given - the parameter itself, or a field of a record it is given (`rec.field[K]`)
        root, chain = base, []
        while isinstance(root, ast.Attribute):
            chain.append(root.attr)
            root = root.value
        if isinstance(root, ast.Name) and root.id in fi.params and depth < 3 and (K or (isinstance(key, ast.Name) and key.id in fi.params)):
            sites = callers_of(prog, fi)
            reasons = []
            for caller, call in sites:
                b = _bound_arg(fi, call, root.id)
                if isinstance(b, (ast.Name, ast.Attribute)):
                    for f_ in reversed(chain):
                        b = ast.Attribute(value=b, attr=f_, ctx=ast.Load())
                k = key if K else _bound_arg(fi, call, key.id)
                if b is None or k is None or not isinstance(b, (ast.Name, ast.Attribute)) or not (_species_const(k) or isinstance(k, ast.Name)):
                    return None
                outer, self.why_not = self.why_not, None
                r = self.safe(caller, b, k, call, depth + 1)
                if not r:
                    inner = self.why_not
                    self.why_not = outer or (
                        f'{fi.name} reads it from the map it is given; at the call in {caller.name} (line {call.lineno}) '
                        f'`{norm(b)}` is not known to contain {norm(k)}' + (f' ({inner})' if inner else ''))
                    return None
                self.why_not = outer
                reasons.append(f'{caller.name}:{call.lineno} {r}')
            if reasons:
                return f'decided at the {len(reasons)} call site(s) of {fi.name}: ' + '; '.join(reasons)[:160]
        return None

    def _record_args(self, fi, call):
        return _record_args(self.prog, fi, call)

    def _field_source(self, fi, base):
        """the local map `m` when base is `rec.field`, rec is bound once - to a record built with `field=m` - and
        neither that field nor m is bound again in the function"""
        if not (isinstance(base, ast.Attribute) and isinstance(base.value, ast.Name) and base.value.id not in fi.params):
            return None
        args = self._record_args(fi, single_def_value(fi.node, base.value.id))
        a = args.get(base.attr) if args else None
        if not isinstance(a, ast.Name) or a.id in fi.params:
            return None
        for t, _st, _how in stores_to(fi.node):
            if isinstance(t, ast.Attribute) and t.attr == base.attr and norm(t.value) == base.value.id:
                return None
        return a if len([1 for t, _st, _how in stores_to(fi.node) if isinstance(t, ast.Name) and t.id == a.id]) == 1 else None

    def _record_field_of(self, fi, base):
        """the (record class call, field) a local map is handed to in this function - for a map that is finished when
        the function gets it (bound once, to the result of a resolved helper function, and never stored into under a
        new key here): then `m[K]` is the same read as `rec.field[K]`.  None for anything else - in particular for a
        map the function is still filling, whose keys are decided from its stores."""
        if not isinstance(base, ast.Name) or base.id in fi.params:
            return None
        d = single_def_value(fi.node, base.id)
        callee = resolve_call(self.prog, fi, d) if isinstance(d, ast.Call) else None
        if callee is None or callee.cls is not None:
            return None
        if any(isinstance(t, ast.Subscript) and isinstance(t.value, ast.Name) and t.value.id == base.id and how != 'aug'
               for t, _st, how in stores_to(fi.node)):
            return None
        for c in calls_in(fi.node):
            if not any(isinstance(a_, ast.Name) and a_.id == base.id for a_ in [*c.args, *[k.value for k in c.keywords]]):
                continue
            args = self._record_args(fi, c)
            for f, a_ in (args or {}).items():
                if isinstance(a_, ast.Name) and a_.id == base.id:
                    return c, f
        return None

    def _lacking(self, callee, rets, sel, key, depth):
        """says where the helper leaves the key out: a loop over the members that can skip the store, a return that
        hands the map back before it was stored"""
        ktxt = norm(key)
        for rv in rets:
            if self._returns_with_key(callee, rv, sel, key, depth):
                continue
            name = rv.id if isinstance(rv, ast.Name) else None
            if name and _species_const(key):
                for t, st, how in stores_to(callee.node):
                    if isinstance(t, ast.Subscript) and isinstance(t.value, ast.Name) and t.value.id == name \
                            and isinstance(t.slice, ast.Name) and how in ('assign', 'ann'):
                        lit = _literal_species_keys(self.prog, callee, st, t.slice.id, with_owner=True, enum=True)
                        if lit is not None and key.attr in lit[1] and isinstance(lit[0], ast.For) \
                                and not self._stores_every(callee, lit[0], name, t.slice.id):
                            return (f'its loop at line {lit[0].lineno} does not store `{norm(t)}` for every member it walks (a path '
                                    f'through the body reaches the next member without the store at line {st.lineno}), so '
                                    f'{ktxt} is in the map only when that path is not taken')
            if name is None:
                return (f'the map it returns at line {rv.lineno} (`{norm(rv)[:40]}`) is not built from something that has {ktxt} '
                        'whatever the configuration')
            return f'its `return {name}` at line {rv.lineno} can be reached without {ktxt} having been stored into the map'
        return f'not every return builds it with {ktxt}'

    def _returns_with_key(self, callee, rv, sel, key, depth):
        """the returned expression - its component `sel` (position of an unpacked target, or field name) when given -
        is a map that has `key`"""
        if isinstance(rv, ast.Name) and sel is not None:
            rv = single_def_value(callee.node, rv.id) or rv
        if sel is not None:
            # a tuple display, or a record (NamedTuple / dataclass of the repository) built positionally or by
            # keyword, whose fields unpack in declaration order
            if isinstance(rv, ast.Tuple) and isinstance(sel, int) and sel < len(rv.elts) and not any(isinstance(e, ast.Starred) for e in rv.elts):
                rv = rv.elts[sel]
            elif isinstance(rv, ast.Call) and not any(isinstance(a_, ast.Starred) for a_ in rv.args):
                from ..resolve import resolve_class_call
                rc = resolve_class_call(self.prog, callee, rv)
                order = list(rc.annotated_fields()) if rc is not None else []
                idx = sel if isinstance(sel, int) else (order.index(sel) if sel in order else len(order))
                if idx >= len(order):
                    return False
                rv = rv.args[idx] if idx < len(rv.args) else next((k.value for k in rv.keywords if k.arg == order[idx]), None)
                if rv is None:
                    return False
            else:
                return False
        if self._display_has(callee, rv, key):
            return True
        if isinstance(rv, ast.Name) and rv.id not in callee.params:
            at = next((r_ for r_ in walk_no_nested(callee.node) if isinstance(r_, ast.Return) and any(x is rv for x in ast.walk(r_))), None)
            return at is not None and self.stored_on_every_path(callee, rv.id, key, at) is not None
        return False


def rule_reads(ctx, table):
    prog = ctx.prog
    n = 0
    kr = _KeyReads(prog, table)
    for rel in READ_SCOPE:
        m = prog.module(rel)
        for fi in m.functions.values():
            for x in walk_no_nested(fi.node):
                if not isinstance(x, ast.Subscript):
                    continue
                # an in-place update `m[k] op= v` (and `m[k] = m[k] op v`, which the loader spells that way) reads
                # m[k] before it stores: the key must be there just as for a plain read
                par = getattr(x, '_parent', None)
                inplace = isinstance(par, ast.AugAssign) and par.target is x
                if not (isinstance(x.ctx, ast.Load) or inplace):
                    continue
                key = x.slice
                if not (_species_const(key) or isinstance(key, ast.Name)):
                    continue
                base = x.value
                btxt = norm(base)
                # only maps of species: annotated / constructed SpeciesValues, the producers' and the inventory's maps
                cls = expr_class(prog, fi, base) if isinstance(base, ast.Name) else None
                if isinstance(base, ast.Name):
                    if not (cls is not None and cls.name == 'SpeciesValues') and base.id not in _MAP_NAMES:
                        continue
                elif not (isinstance(base, ast.Attribute) and any(s in btxt for s in ('emissions', 'indices'))):
                    continue
                if isinstance(key, ast.Name) and not _species_variable(prog, fi, key, x):
                    continue
                n += 1
                ktxt = norm(key)
                kr.why_not = None
                why = kr.safe(fi, base, key, x)
                if why is None:
                    if kr.why_not:
                        bad = kr.why_not + ': KeyError for the configurations under which it is absent'
                    elif isinstance(base, ast.Name) and base.id not in fi.params:
                        bad = (f'`{btxt}` is filled in this function, and some path reaches this read without having stored '
                               f'{ktxt} (and nothing tests for it): KeyError on that path')
                    else:
                        bad = (f'`{btxt}` only contains {ktxt} under some configurations (e.g. with the species switched '
                               f'off); this read is unguarded and raises KeyError for the others')
                ctx.ob('C11-R2', fi, f'{"in-place update of" if inplace else "read"} {btxt}[{ktxt}]', why is not None,
                       why if why else bad, line=x.lineno)
    ctx.floor('C11-R2', n, 20, 'species-map key reads')


def _species_variable(prog, fi, key: ast.Name, at) -> bool:
    """does the variable hold a species?  A parameter annotated Species, a loop variable that walks a species map, the
    Species enum or a literal collection of its members, or (by convention of the package) a name like `species`"""
    if key.id in ('species', 'sp', 'spec'):
        return True
    a = fi.node.args
    for p in a.posonlyargs + a.args + a.kwonlyargs:
        if p.arg == key.id and p.annotation is not None and norm(p.annotation).split('.')[-1].strip('\'"') == 'Species':
            return True
    if _literal_species_keys(prog, fi, at, key.id) is not None:
        return True
    gov = _governing(at, key.id)
    if gov is not None:
        owner, mi, it = gov
        if isinstance(it, ast.Name) and it.id == 'Species':
            return True
        if isinstance(it, (ast.List, ast.Tuple, ast.Set)) and it.elts and all(_species_const(e) for e in it.elts):
            return True
        if mi is not None:
            m0 = iterated_mapping(it)[0]
            c = expr_class(prog, fi, m0) if isinstance(m0, ast.Name) else None
            if (c is not None and c.name == 'SpeciesValues') or (isinstance(m0, ast.Name) and m0.id in _MAP_NAMES):
                return True
    return False


def _only_enabled_keys(prog, fi, it: ast.AST, groups) -> str | None:
    """The iterable `it` walks a mapping produced by a repository function (directly, `f(x).items()`, or through a
    single-definition local) that puts a species into the mapping it returns only under a fact implying that
    species' switch: then every key it yields is enabled.  Returns the reason, or None when that cannot be shown."""
    im = iterated_mapping(it)
    if im is None:
        return None
    m = im[0]
    if isinstance(m, ast.Name):
        m = single_def_value(fi.node, m.id)
    if not isinstance(m, ast.Call):
        return None
    callee = resolve_call(prog, fi, m)
    if callee is None or callee.node.decorator_list:
        return None     # a decorated (e.g. memoised) helper answers for the configuration of an earlier call
    rets = [r.value for r in walk_no_nested(callee.node) if isinstance(r, ast.Return)]
    if not rets or not all(isinstance(r, ast.Name) for r in rets) or len({r.id for r in rets}) != 1:
        return None
    rname = rets[0].id
    if rname in callee.params:
        return None
    n = 0
    for x in walk_no_nested(callee.node):
        # anything that fills the map other than a store under a Species.K key cannot be judged here
        if isinstance(x, ast.Call) and isinstance(x.func, ast.Attribute) and norm(x.func.value) == rname \
                and x.func.attr in ('update', 'setdefault', '__setitem__'):
            return None
    for t, st, how in stores_to(callee.node):
        if isinstance(t, ast.Name) and t.id == rname:
            v = getattr(st, 'value', None)
            if not (isinstance(v, ast.Call) and not v.args and not v.keywords):
                return None     # must start empty: `R = SpeciesValues[...]()` / `{}`-like constructor without content
        if isinstance(t, ast.Subscript) and norm(t.value) == rname:
            if not (isinstance(t.slice, ast.Attribute) and norm(t.slice.value) == 'Species'):
                return None
            if species_enabled_by(facts_at(callee.node, st), t.slice.attr, groups, fi=callee) is None:
                return None
            n += 1
    if not n:
        return None
    return f'the key walks the result of {callee.name}, which inserts each of its {n} species only when it is enabled'


def _species_members(prog, fi, e):
    """every member of the Species enum when expression e is the enum class itself (possibly through list() /
    tuple() / sorted() / iter() / reversed()): iterating it yields each member once.  None otherwise."""
    while isinstance(e, ast.Call) and isinstance(e.func, ast.Name) and e.func.id in ('list', 'tuple', 'sorted', 'iter', 'reversed') \
            and len(e.args) == 1 and not e.keywords:
        e = e.args[0]
    if not (isinstance(e, ast.Name) and e.id == 'Species') or e.id in fi.params \
            or any(isinstance(t, ast.Name) and t.id == e.id for t, _s, _h in stores_to(fi.node)):
        return None
    ci = prog.resolve_name(fi.module, e.id)
    if not isinstance(ci, ClassInfo) or not any('Enum' in b for k_ in ci.mro() for b in k_.base_exprs):
        return None
    mem = [k for k, v in ci.class_assignments().items() if v is not None and not k.startswith('_')]
    return mem or None


def _literal_species_keys(prog, fi, st, keyvar, with_owner=False, enum=False):
    """the Species members the key variable of statement st walks, when its loop is over a constant collection: a
    tuple / list / set of `Species.K`, a sequence of (Species.K, value) pairs, or a dict display keyed by Species.K
    (`.items()` / keys) - written in place, a single-definition local or a module constant; with enum=True also the
    Species enum itself (`for k in Species`: every member).  None otherwise."""
    def literal(e):
        if isinstance(e, ast.Name):
            v = single_def_value(fi.node, e.id)
            if v is None and not any(isinstance(t, ast.Name) and t.id == e.id for t, _s, _h in stores_to(fi.node)) and e.id not in fi.params:
                r = prog.resolve_name(fi.module, e.id)
                v = r[1].constants[r[2]] if isinstance(r, tuple) and r[0] == 'const' else None
            e = v
        return e

    def member(x):
        return x.attr if isinstance(x, ast.Attribute) and norm(x.value) == 'Species' else None

    for owner, tgt, it in enclosing_iterations(st):
        first = tgt.elts[0] if isinstance(tgt, (ast.Tuple, ast.List)) and tgt.elts else tgt
        if not (isinstance(first, ast.Name) and first.id == keyvar):
            continue
        paired = first is not tgt
        if enum and not paired:
            mem = _species_members(prog, fi, it)
            if mem is not None:
                return (owner, mem) if with_owner else mem
        im = iterated_mapping(it)
        src = literal(im[0]) if im is not None and (im[1] == 'items') == paired and im[1] != 'values' else literal(it)
        if isinstance(src, ast.Dict) and (im is not None):
            keys = [member(k) for k in src.keys]
        elif isinstance(src, (ast.Tuple, ast.List, ast.Set)) and not paired:
            keys = [member(x) for x in src.elts]
        elif isinstance(src, (ast.Tuple, ast.List)) and paired:
            keys = [member(x.elts[0]) if isinstance(x, (ast.Tuple, ast.List)) and x.elts else None for x in src.elts]
        else:
            return None
        if with_owner:
            return (owner, keys) if keys and all(keys) else None
        return keys if keys and all(keys) else None
    return None


def _config_facts(atoms, fi=None) -> str:
    """the facts about the configuration among atoms, as text (for messages)"""
    out = []
    for t, pol in atoms:
        if isinstance(t, ast.Compare) and isinstance(t.comparators[0], ast.pattern):
            vals = _pattern_values(t.comparators[0])
            txt = f'{norm(t.left)} in ({", ".join(norm(v) for v in vals)})' if vals else None
        else:
            txt = norm(t)
            if fi is not None and isinstance(t, ast.Name) and t.id not in fi.params:
                # a flag: say what it stands for
                v = single_def_value(fi.node, t.id)
                if v is not None and ('config.' in norm(v) or 'enabled' in norm(v)):
                    txt = f'{t.id} = {norm(v)}'
        if txt and ('config.' in txt or 'enabled' in txt):
            out.append(('' if pol else 'not ') + txt)
    return ('the facts on its path (' + '; '.join(out)[:200] + ') do not imply') if out else 'nothing on its path implies'


# ------------------------------------------------ facts about a value ---
def _bound_premises(table, fi, atoms, bind):
    """the configuration facts among atoms of function fi as premises of the table, locals with one definition
    expanded and parameters replaced by the arguments bound to them (`bind`, in the terms of the function the
    question is asked in) - so that facts of a helper and facts of its call site can be put side by side"""
    out = []
    for t, pol in atoms:
        if isinstance(t, ast.Compare) and isinstance(t.comparators[0], ast.pattern):
            t2 = ast.Compare(left=_expanded(fi, t.left, bind), ops=t.ops, comparators=t.comparators)
        else:
            t2 = _expanded(fi, t, bind)
        if fi.cls is not None and any(isinstance(x, ast.Name) and x.id in ('self', 'cls') for x in ast.walk(t2)):
            continue        # the table reads `self` as the configuration object
        out.append((t2, pol))
    return table.premises(None, out)


def _value_alternatives(prog, table, fi, e, bind, truthy: bool, sel: int | None = None, depth: int = 0):
    """Under which configurations can the value of expression e (component `sel` of it) of function fi be something
    other than None (truthy=False) / be true (truthy=True)?  Answer: a list of alternatives, each a list of table
    premises (facts about the configuration that held when the value was made); the value is non-None / true only
    when all premises of at least one alternative hold.  [] - it never is; [[]] - nothing is known (any
    configuration).  The value is followed to where it was made: through the definitions of a local (every
    binding of the name is a source; a binding to None / a false constant is none), conditional expressions, tuple
    displays and unpacking, constant subscripts, and the returns of a resolved helper (the facts on the path to each
    `return`, the helper's parameters bound to the arguments of the call); a value tested for truth is also known
    by its own conjuncts (`flag = a is not None and K in enabled`).  The facts are about the configuration, which
    does not change while a flight is computed, so a fact that held where the value was made holds where it is
    tested."""
    from ..astutil import local_defs
    unknown = [[]]
    if depth > 6:
        return unknown

    def again(fi_, e_, bind_, sel_, d_=depth + 1):
        return _value_alternatives(prog, table, fi_, e_, bind_, truthy, sel_, d_)

    if isinstance(e, ast.IfExp):
        return [_bound_premises(table, fi, conjuncts(e.test, True), bind) + a for a in again(fi, e.body, bind, sel)] + \
               [_bound_premises(table, fi, conjuncts(e.test, False), bind) + a for a in again(fi, e.orelse, bind, sel)]
    if isinstance(e, ast.NamedExpr):
        return again(fi, e.value, bind, sel)
    if sel is not None:
        if isinstance(e, (ast.Tuple, ast.List)):
            if len(e.elts) > sel and not any(isinstance(x, ast.Starred) for x in e.elts):
                return again(fi, e.elts[sel], bind, None)
            return unknown
    else:
        if isinstance(e, ast.Constant):
            return [] if e.value is None or (truthy and not e.value) else unknown
        if isinstance(e, ast.Subscript) and isinstance(e.slice, ast.Constant) and isinstance(e.slice.value, int) \
                and not isinstance(e.slice.value, bool) and e.slice.value >= 0:
            return again(fi, e.value, bind, e.slice.value)
    if isinstance(e, ast.Name):
        if e.id in fi.params or e.id in (bind or {}):
            return unknown
        if any(isinstance(x, (ast.Nonlocal, ast.Global)) and e.id in x.names for x in ast.walk(fi.node)):
            return unknown
        ds = local_defs(fi.node, e.id)
        if not ds:
            return unknown
        out = []
        for d in ds:
            sub = unknown
            if isinstance(d, ast.Assign) and len(d.targets) == 1:
                tg = d.targets[0]
                if isinstance(tg, ast.Name):
                    sub = again(fi, d.value, bind, sel)
                elif isinstance(tg, (ast.Tuple, ast.List)) and sel is None and not any(isinstance(x, ast.Starred) for x in tg.elts):
                    i = next((i for i, x in enumerate(tg.elts) if isinstance(x, ast.Name) and x.id == e.id), None)
                    if i is not None:
                        sub = again(fi, d.value, bind, i)
            elif isinstance(d, ast.AnnAssign) and isinstance(d.target, ast.Name):
                if d.value is None:
                    continue        # a declaration binds nothing
                sub = again(fi, d.value, bind, sel)
            if sub:
                here = _bound_premises(table, fi, facts_at(fi.node, d), bind)
                out += [here + a for a in sub]
        return out
    if isinstance(e, ast.Call):
        callee = resolve_call(prog, fi, e)
        if callee is None or callee.node.decorator_list or callee.name.startswith('__') \
                or isinstance(callee.node, ast.AsyncFunctionDef) \
                or any(isinstance(x, (ast.Yield, ast.YieldFrom)) for x in walk_no_nested(callee.node)):
            return unknown      # (a memoised helper answers for the configuration of an earlier call)
        b = _call_binding(callee, e, fi, bind)
        if b is None:
            return unknown
        out = []
        for r in walk_no_nested(callee.node):
            if isinstance(r, ast.Return) and r.value is not None:
                sub = again(callee, r.value, b, sel)
                if sub:
                    here = _bound_premises(table, callee, facts_at(callee.node, r), b)
                    out += [here + a for a in sub]
        return out
    if sel is None and truthy:
        return [_bound_premises(table, fi, conjuncts(e, True), bind)]
    return unknown


def _value_facts(atoms):
    """the facts among atoms that say a value is there: `x is not None`, `x != None`, isinstance(x, ..) - and a
    value tested for truth: [(the value expression, tested for truth?, text)]"""
    out = []
    for t, pol in atoms:
        if isinstance(t, ast.Compare) and not isinstance(t.comparators[0], ast.pattern) and len(t.ops) == 1 \
                and isinstance(t.ops[0], (ast.Is, ast.Eq)) and not pol:
            l, r = t.left, t.comparators[0]
            if isinstance(l, ast.Constant) and l.value is None:
                l, r = r, l
            if isinstance(r, ast.Constant) and r.value is None and isinstance(l, (ast.Name, ast.Subscript, ast.Call)):
                out.append((l, False, f'{norm(l)} is not None'))
        elif pol and isinstance(t, ast.Call) and isinstance(t.func, ast.Name) and t.func.id == 'isinstance' and len(t.args) == 2 \
                and isinstance(t.args[0], (ast.Name, ast.Subscript)):
            out.append((t.args[0], False, norm(t)))
        elif pol and isinstance(t, (ast.Name, ast.Subscript)):
            out.append((t, True, norm(t)))
    return out


def species_enabled_by_value(prog, table, fi, atoms, K: str, extra=None) -> str | None:
    """Do the facts at a site imply that species K is switched on, when one of them is about a value that is there
    (not None / true) only under some configurations - the result of a helper that hands the value back only when
    the species is enabled?  Every alternative under which the value can be there must, together with the
    configuration facts of the site (and `extra`, the premises of a call site), imply K.  Returns the reason."""
    base = table.premises(fi, atoms) + list(extra or [])
    for e, truthy, txt in _value_facts(atoms):
        try:
            alts = _value_alternatives(prog, table, fi, e, {}, truthy)
        except (_Cannot, RecursionError):
            continue
        if alts == [[]]:
            continue
        if not alts:
            return f'unreachable: {txt} never holds (every source of the value is None)'
        why = []
        for a in alts:
            g = table.implied_by_premises(base + a, K) if base + a else None
            if g is None:
                break
            why.append(g)
        else:
            return f'{txt}, and the value is there only under: ' + ' | '.join(dict.fromkeys(why))
    return None


# ---------------------------------------------------------------- R3 -----
_COPY_CALLS = ('dict', 'SpeciesValues', 'copy', 'deepcopy', 'copy.copy', 'copy.deepcopy')


def _map_content(e):
    """the map expression whose entries e hands on unchanged: `x.copy()`, dict(x), SpeciesValues[..](x), copy(x)"""
    while True:
        if isinstance(e, ast.Call) and isinstance(e.func, ast.Attribute) and e.func.attr == 'copy' and not e.args and not e.keywords \
                and not (isinstance(e.func.value, ast.Name) and e.func.value.id == 'copy'):
            e = e.func.value
        elif isinstance(e, ast.Call) and len(e.args) == 1 and not e.keywords and not isinstance(e.args[0], ast.Starred) \
                and call_name(e).split('[')[0] in _COPY_CALLS:
            e = e.args[0]
        elif isinstance(e, ast.NamedExpr):
            e = e.value
        else:
            return e


def _record_args(prog, fi, call):
    """field name -> argument expression of a call that builds a record class of the repository (a dataclass /
    NamedTuple without a constructor of its own: each field is the argument it is given); None for anything else"""
    from ..resolve import resolve_class_call
    rc = resolve_class_call(prog, fi, call) if isinstance(call, ast.Call) else None
    if rc is None or any(c_.methods.get(n) is not None for c_ in rc.mro() for n in ('__init__', '__new__', '__post_init__')) \
            or any(isinstance(a_, ast.Starred) for a_ in call.args) or any(k.arg is None for k in call.keywords):
        return None
    order = [n for n, ann in rc.all_fields().items() if 'ClassVar' not in norm(ann)]
    out = dict(zip(order, call.args))
    out.update({k.arg: k.value for k in call.keywords})
    return out


class _IndexFlow:
    """Which maps end up, wholesale, in the index map an entry producer hands back?  The producer's own map; a local map
    merged into one of them (`m.update(v)`, `m |= v`, `m = v` / `v.copy()` / SpeciesValues(v), either arm of a
    conditional expression, `a | b`); the map a resolved function returns when its result is merged (the result
    itself, a position of the tuple or a field of the record it returns - unpacked, subscripted or read by field
    name, in place or through a local); a map handed to a function that stores into that parameter; what the callers
    hand over for a parameter that is merged.  Every store into such a map is a store into the inventory's indices.
    Each map comes with the places its entries pass on the way (`contexts`: one list of (function, node) per way in):
    the configuration facts at those places hold whenever an entry stored into the map reaches the inventory."""

    def __init__(self, prog):
        self.prog = prog
        self.maps: dict[tuple, list] = {}       # (file, qualname, name) -> [function, name, [context, ...]]
        self.displays: list[tuple] = []          # (function, key, value, statement, context): `m.update({K: v})`
        self._stack: list[tuple] = []
        self.order: list[tuple] = []
        self.opaque: list = []                  # decorated helpers whose result flows in: not judged from their facts

    def contexts(self, fi, name):
        ent = self.maps.get((fi.file, fi.qualname, name))
        return ent[2] if ent else None

    def visit(self, fi, name, ctx):
        key = (fi.file, fi.qualname, name)
        if key in self._stack or len(self._stack) > 8:
            return
        ent = self.maps.get(key)
        if ent is None:
            ent = self.maps[key] = [fi, name, []]
            self.order.append(key)
        sig = [(f.qualname, id(n)) for f, n in ctx]
        if any([(f.qualname, id(n)) for f, n in c] == sig for c in ent[2]) or len(ent[2]) > 12:
            return
        ent[2].append(ctx)
        self._stack.append(key)
        try:
            self._sources(fi, name, ctx)
        finally:
            self._stack.pop()

    def visit_attr(self, owner, attr, ctx):
        """the map is attribute `attr` of instances of repository class owner: every method of the class that touches
        `self.attr` holds it under that name; the call sites of the method are on the way in"""
        for c in owner.mro():
            for meth in c.methods.values():
                if not meth.params or any('staticmethod' in d or 'classmethod' in d for d in meth.decorators()):
                    continue
                name = f'{meth.params[0]}.{attr}'
                if not any(isinstance(x, ast.Attribute) and x.attr == attr and norm(x) == name for x in walk_no_nested(meth.node)):
                    continue
                sites = [(caller, call) for caller, call in callers_of(self.prog, meth) if caller.node is not meth.node]
                for caller, call in sites:
                    self.visit(meth, name, ctx + [(caller, call)])
                if not sites:
                    self.visit(meth, name, ctx)

    def _stateful(self, owner, attr) -> bool:
        """some method of the class binds or fills `self.attr` (the class keeps the map as state of its instances)"""
        for c in owner.mro():
            for meth in c.methods.values():
                if not meth.params:
                    continue
                name = f'{meth.params[0]}.{attr}'
                for t, _st, how in stores_to(meth.node):
                    b = t.value if isinstance(t, ast.Subscript) else t
                    if isinstance(b, ast.Attribute) and norm(b) == name and how != 'del':
                        return True
                for c_ in calls_in(meth.node):
                    if isinstance(c_.func, ast.Attribute) and c_.func.attr in ('update', 'setdefault') and norm(c_.func.value) == name:
                        return True
        return False

    def _sources(self, fi, name, ctx):
        prog = self.prog

        def is_map(x):
            return (isinstance(x, ast.Attribute) and norm(x) == name) if '.' in name else (isinstance(x, ast.Name) and x.id == name)
        for t, st, how in stores_to(fi.node):
            if not is_map(t):
                continue
            if how in ('assign', 'ann'):
                v = _stored_value(t, st)
                if v is not None:
                    self.expr(fi, v, ctx + [(fi, st)])
                elif isinstance(st, ast.Assign) and len(st.targets) == 1 and isinstance(st.targets[0], (ast.Tuple, ast.List)) \
                        and not any(isinstance(x, ast.Starred) for x in st.targets[0].elts):
                    i = next((i for i, x in enumerate(st.targets[0].elts) if x is t), None)
                    if i is not None:
                        self.expr(fi, st.value, ctx + [(fi, st)], i)
            elif how == 'aug' and isinstance(getattr(st, 'op', None), ast.BitOr):
                self.expr(fi, st.value, ctx + [(fi, st)])
        for c in calls_in(fi.node):
            if isinstance(c.func, ast.Attribute) and is_map(c.func.value) and c.func.attr == 'update':
                for a in c.args:
                    if not isinstance(a, ast.Starred):
                        self.expr(fi, a, ctx + [(fi, stmt_of(c) or c)])
                continue
            # the map handed to a function that stores into the parameter it arrives in
            if any(is_map(a_) for a_ in [*c.args, *[k.value for k in c.keywords]]):
                callee = resolve_call(prog, fi, c)
                if callee is None or callee.node is fi.node or _record_args(prog, fi, c) is not None:
                    continue
                for pname in callee.params:
                    a_ = _bound_arg(callee, c, pname)
                    if a_ is not None and is_map(a_) and _fills(callee, pname):
                        self.visit(callee, pname, ctx + [(fi, c)])
        if name in fi.params:
            for caller, call in callers_of(prog, fi):
                b = _bound_arg(fi, call, name)
                if b is not None:
                    self.expr(caller, b, ctx + [(caller, call)])

    def expr(self, fi, e, ctx, sel=None, depth=0):
        """the entries of map expression e of function fi (component `sel` of it: a position or a field name) get
        into an index map on the way `ctx`"""
        prog = self.prog
        if depth > 8 or e is None:
            return
        e = _map_content(e)
        if isinstance(e, ast.IfExp):
            self.expr(fi, e.body, ctx, sel, depth + 1)
            self.expr(fi, e.orelse, ctx, sel, depth + 1)
            return
        if isinstance(e, ast.BinOp) and isinstance(e.op, ast.BitOr) and sel is None:
            self.expr(fi, e.left, ctx, sel, depth + 1)
            self.expr(fi, e.right, ctx, sel, depth + 1)
            return
        if sel is None:
            if isinstance(e, ast.Dict):
                for k, v in zip(e.keys, e.values):
                    if k is None:
                        self.expr(fi, v, ctx, None, depth + 1)
                    else:
                        self.displays.append((fi, k, v, ctx))
            elif isinstance(e, ast.Name):
                if e.id in fi.params or local_defs_of(fi, e.id):
                    self.visit(fi, e.id, ctx)
            elif isinstance(e, ast.Attribute):
                self.expr(fi, e.value, ctx, e.attr, depth + 1)
            elif isinstance(e, ast.Subscript) and isinstance(e.slice, ast.Constant) and isinstance(e.slice.value, int) \
                    and not isinstance(e.slice.value, bool) and e.slice.value >= 0:
                self.expr(fi, e.value, ctx, e.slice.value, depth + 1)
            elif isinstance(e, ast.Call):
                self._returns(fi, e, ctx, None, depth)
            return
        if isinstance(e, ast.Name):
            if isinstance(sel, str):
                # an attribute of an instance of a repository class that keeps the map as its state (`acc.indices`
                # with `self.indices[K] = …` in the methods of the class): the stores in the methods are stores into it
                owner = expr_class(prog, fi, e)
                if owner is not None and self._stateful(owner, sel):
                    self.visit_attr(owner, sel, ctx)
                    return
            if e.id not in fi.params:
                self.expr(fi, single_def_value(fi.node, e.id), ctx, sel, depth + 1)
        elif isinstance(e, (ast.Tuple, ast.List)):
            if isinstance(sel, int) and sel < len(e.elts) and not any(isinstance(x, ast.Starred) for x in e.elts):
                self.expr(fi, e.elts[sel], ctx, None, depth + 1)
        elif isinstance(e, ast.Call):
            args = _record_args(prog, fi, e)
            if args is not None:
                names = list(args)
                f = sel if isinstance(sel, str) else (names[sel] if sel < len(names) else None)
                if f in args:
                    self.expr(fi, args[f], ctx, None, depth + 1)
            else:
                from ..resolve import resolve_class_call
                rc = resolve_class_call(prog, fi, e)
                if rc is not None and isinstance(sel, str) and self._stateful(rc, sel):
                    self.visit_attr(rc, sel, ctx)
                else:
                    self._returns(fi, e, ctx, sel, depth)

    def _returns(self, fi, call, ctx, sel, depth):
        callee = resolve_call(self.prog, fi, call)
        if callee is None or isinstance(callee.node, ast.Lambda) or callee.name.startswith('__'):
            return
        if callee.node.decorator_list:
            # a decorated (e.g. memoised) helper answers for the configuration of an earlier call: the facts at its
            # stores say nothing about the configuration its result is used under
            self.opaque.append(callee)
            return
        key = ('ret', callee.file, callee.qualname, sel)
        if key in self._stack or len(self._stack) > 8:
            return
        self._stack.append(key)
        try:
            for r in walk_no_nested(callee.node):
                if isinstance(r, ast.Return) and r.value is not None:
                    self.expr(callee, r.value, ctx + [(callee, r)], sel, depth + 1)
        finally:
            self._stack.pop()


def _fills(fi, pname) -> bool:
    """function fi puts entries into the map it receives as parameter pname (element store, update, |=, or by handing
    it on to a call)"""
    for t, _st, how in stores_to(fi.node):
        if isinstance(t, ast.Subscript) and isinstance(t.value, ast.Name) and t.value.id == pname and how != 'del':
            return True
        if isinstance(t, ast.Name) and t.id == pname and how == 'aug':
            return True
    for c in calls_in(fi.node):
        if isinstance(c.func, ast.Attribute) and isinstance(c.func.value, ast.Name) and c.func.value.id == pname \
                and c.func.attr in ('update', 'setdefault', '__setitem__'):
            return True
        if any(isinstance(a_, ast.Name) and a_.id == pname for a_ in [*c.args, *[k.value for k in c.keywords]]):
            return True
    return False


def local_defs_of(fi, name):
    from ..astutil import local_defs
    return local_defs(fi.node, name)


def rule_stores(ctx, groups):
    prog = ctx.prog
    n = 0
    n_fn = 0
    flows = []          # (module, entry producer, its flow): what R8 asks about

    def way_premises(c):
        return [p for f, nd in c for p in groups.premises(f, facts_at(f.node, nd))]

    def enabled_at(fi, atoms, K, ways):
        """(reason, where) when the facts at a store of function fi imply that species K is enabled: the configuration
        facts in the producer, those at every place the map passes on its way into the inventory's indices (the call
        sites of a helper, the statement that merges a local map), both together, or - with a fact about a value among
        them - the configurations under which a helper hands that value back"""
        g = species_enabled_by(atoms, K, groups, fi=fi)
        if g is not None:
            return g, 'in the producer'
        on_way = [way_premises(c) for c in ways] if ways and all(ways) else None
        if on_way:
            gs = [groups.implied_by_premises(p_, K) if p_ else None for p_ in on_way]
            if all(gs):
                return gs[0], 'at every place the map is handed on'
            own = groups.premises(fi, atoms)
            gs = [groups.implied_by_premises(own + p_, K) if own + p_ else None for p_ in on_way]
            if all(gs):
                return gs[0], 'with the facts at every place the map is handed on'
        g = species_enabled_by_value(prog, groups, fi, atoms, K)
        if g is not None:
            return g, 'in the producer'
        if on_way:
            gs = [species_enabled_by_value(prog, groups, fi, atoms, K, extra=p_) for p_ in on_way]
            if gs and all(gs):
                return gs[0], 'with the facts at every place the map is handed on'
        return None, 'in the producer'

    def copied_from(fi, t, st):
        """the mapping whose keys the variable key of the store `m[k] = …` walks - the store then copies that mapping's
        species into m - unless a test on the key or the map itself decides the store (None then)"""
        keyvar = t.slice.id
        for tt, pol in facts_at(fi.node, st):
            if pol and isinstance(tt, ast.Compare) and not isinstance(tt.comparators[0], ast.pattern) \
                    and isinstance(tt.ops[0], ast.In) and norm(tt.left) == keyvar and 'enabled_species' in norm(_expanded(fi, tt.comparators[0], {})):
                return None
        val = getattr(st, 'value', None)
        if val is not None and f'{norm(t.value)}[{keyvar}]' in norm(val):
            return None
        gov = _governing(st, keyvar)
        if gov is None or gov[1] is None or gov[1][0] == norm(t.value):
            return None
        im = iterated_mapping(gov[2])
        return im[0] if im is not None else None

    for rel in PRODUCER_ENTRIES:
        part = rel.split("/")[-1][:-3]
        old = _producers(prog, rel)
        flow = _IndexFlow(prog)
        flows.append((rel, old[0][0], flow))
        for m_ in sorted(old[0][1]):
            flow.visit(old[0][0], m_, [])
        for r_ in walk_no_nested(old[0][0].node):
            # the inventory part handed back through a local (`part = EmissionsSubset(indices=m, …)` … `return part`)
            if isinstance(r_, ast.Return) and isinstance(r_.value, ast.Name):
                flow.expr(old[0][0], r_.value, [], 'indices')
            # … or read off an object in place (`return EmissionsSubset(indices=acc.indices, …)`)
            if isinstance(r_, ast.Return) and isinstance(r_.value, ast.Call) and call_name(r_.value).split('[')[0] == 'EmissionsSubset':
                a_ = next((k.value for k in r_.value.keywords if k.arg == 'indices'), r_.value.args[0] if r_.value.args else None)
                if isinstance(a_, ast.Attribute):
                    flow.expr(old[0][0], a_, [])
        # a store under a key that walks another mapping copies that mapping's species: its entries flow in as well
        done = 0
        while done < len(flow.order) and done < 200:
            fi, name, ways = flow.maps[flow.order[done]]
            done += 1
            for t, st, how in stores_to(fi.node):
                if isinstance(t, ast.Subscript) and norm(t.value) == name and isinstance(t.slice, ast.Name) \
                        and how in ('assign', 'ann'):
                    src = copied_from(fi, t, st) if not _literal_species_keys(prog, fi, st, t.slice.id) else None
                    if isinstance(src, (ast.Name, ast.Attribute, ast.Subscript, ast.Call)) and _only_enabled_keys(prog, fi, _governing(st, t.slice.id)[2], groups) is None:
                        for c in list(ways):
                            flow.expr(fi, src, c + [(fi, st)])
        todo = []           # (function, map name, ways in)
        for fi, maps in old:
            for m_ in sorted(maps):
                ways = flow.contexts(fi, m_)
                if ways is None:
                    # not seen flowing in: every call site of the helper within the package is a way in
                    ways = [[(caller, call)] for caller, call in callers_of(prog, fi) if caller.file.startswith('src/AEIC/emissions')] \
                        if fi is not old[0][0] else []
                    ways = ways or [[]]
                todo.append((fi, m_, ways))
        for key in flow.order:
            fi, name, ways = flow.maps[key]
            if not any(f is fi and m_ == name for f, m_, _w in todo):
                todo.append((fi, name, ways))
        seen_fn = set()
        for fi, name, ways in todo:
            for t, st, how in stores_to(fi.node):
                if not (isinstance(t, ast.Subscript) and norm(t.value) == name):
                    continue
                key = t.slice
                if isinstance(key, ast.Attribute) and norm(key.value) == 'Species':
                    K, keyvar = key.attr, None
                elif isinstance(key, ast.Name):
                    K, keyvar = None, key.id
                else:
                    continue
                if how == 'del':
                    continue
                n += 1
                seen_fn.add((fi.file, fi.qualname))
                val = getattr(st, 'value', None)
                if val is not None and is_literal_zero(val):
                    ctx.ob('C11-R3', fi, f'{norm(t)} = {norm(val)[:30]}', True, 'literal zero contributes nothing',
                           line=st.lineno, nontrivial=False)
                    continue
                atoms = facts_at(fi.node, st)
                if K is None:
                    # variable key: needs `key in enabled_species`, or the value is a re-store of the same key
                    g = None
                    for tt, pol in atoms:
                        if pol and isinstance(tt, ast.Compare) and not isinstance(tt.comparators[0], ast.pattern) \
                                and isinstance(tt.ops[0], ast.In) and norm(tt.left) == keyvar \
                                and 'enabled_species' in norm(_expanded(fi, tt.comparators[0], {})):
                            g = norm(tt)
                    # the key is already in the map - nothing that was off can get in - when the value reads the
                    # map at that key, or when the key variable walks the map's own keys (`for k in m`, `m.keys()`,
                    # `for k, v in m.items()`, possibly through list()/sorted())
                    restore = val is not None and f'{norm(t.value)}[{keyvar}]' in norm(val)
                    gov = _governing(st, keyvar)
                    own_keys = gov is not None and gov[1] is not None and gov[1][0] == norm(t.value)
                    filtered = None
                    if g is None and not restore and not own_keys and gov is not None and gov[1] is not None:
                        filtered = _only_enabled_keys(prog, fi, gov[2], groups)
                        if filtered is None and not _literal_species_keys(prog, fi, st, keyvar):
                            # the key walks a mapping whose own stores are judged where they stand (a local map, the
                            # map a helper returns, a field of its result): the copy adds nothing of its own
                            src = copied_from(fi, t, st)
                            got = _flow_targets(flow, prog, fi, src) if src is not None else None
                            if got:
                                filtered = (f'the key walks {norm(src)[:40]}, and every store into that map is judged where it stands '
                                            f'({", ".join(got)[:80]})')
                    if g is None and not restore and not own_keys and filtered is None:
                        # the key walks a constant collection of Species members: each of them is a store under a
                        # constant key at this place
                        lit = _literal_species_keys(prog, fi, st, keyvar)
                        if lit:
                            for K_ in lit:
                                g_, where = enabled_at(fi, atoms, K_, ways)
                                ctx.ob('C11-R3', fi, f'{norm(t)} for {keyvar} = Species.{K_}', g_ is not None,
                                       f'implied on: `{g_}` ({where})' if g_ else
                                       (f'Species.{K_} is written into the {part} indices, and {_config_facts(atoms)} '
                                        f'that it is enabled: a switched-off species shows up in the inventory'), line=st.lineno)
                            continue
                    ok = g is not None or restore or own_keys or filtered is not None
                    ctx.ob('C11-R3', fi, f'{norm(t)} = {norm(val)[:40] if val is not None else ""}', ok,
                           (f'guarded by `{g}`' if g else 'rewrites a key the map already contains' if restore else
                            f'the key walks the map\'s own keys ({norm(gov[2])[:40]}): it is already present' if own_keys else
                            filtered) if ok else
                           'a species taken from a variable is stored without testing that it is enabled', line=st.lineno)
                    continue
                g, where = enabled_at(fi, atoms, K, ways)
                ctx.ob('C11-R3', fi, f'{norm(t)} = {norm(val)[:40] if val is not None else ""}', g is not None,
                       f'implied on: `{g}` ({where})' if g else
                       (f'Species.{K} is written into the {part} indices{_via(fi, name, ways)}, and {_config_facts(atoms, fi)} '
                        f'that it is enabled: a switched-off species shows up in the inventory'), line=st.lineno)
        # entries written as a display that is merged in: `m.update({Species.K: v})`, `return {Species.K: v}`
        for fi, k, v, way in flow.displays:
            if not (isinstance(k, ast.Attribute) and norm(k.value) == 'Species') or not way:
                continue
            n += 1
            seen_fn.add((fi.file, fi.qualname))
            f_at, node = way[-1]
            if is_literal_zero(v):
                ctx.ob('C11-R3', fi, f'{{{norm(k)}: {norm(v)[:30]}}}', True, 'literal zero contributes nothing', line=k.lineno, nontrivial=False)
                continue
            atoms = facts_at(f_at.node, node) + [x for x in facts_at(fi.node, k) if isinstance(node, ast.stmt) and node is stmt_of(k)]
            g, where = enabled_at(f_at, atoms, k.attr, [way[:-1]])
            ctx.ob('C11-R3', fi, f'{{{norm(k)}: {norm(v)[:40]}}}', g is not None,
                   f'implied on: `{g}` ({where})' if g else
                   (f'Species.{k.attr} is written into the {part} indices (an entry of a display that is merged into them), and '
                    f'{_config_facts(atoms)} that it is enabled: a switched-off species shows up in the inventory'), line=k.lineno)
        n_fn += len(seen_fn | {(old[0][0].file, old[0][0].qualname)})
    ctx.floor('C11-R3/producers', n_fn, 2, 'functions that build the trajectory and LTO index maps')
    ctx.floor('C11-R3', n, 18, 'species stores in trajectory and LTO producers')
    return flows


def _via(fi, name, ways):
    """how the map gets into the inventory, for messages: the last place it is handed on"""
    for c in ways:
        for f, nd in reversed(c):
            if not isinstance(nd, ast.Return):
                return f' (`{name}` of {fi.name} gets into them at {f.name} line {getattr(nd, "lineno", 0)}: `{norm(nd)[:50]}`)'
    return ''


def _flow_targets(flow, prog, fi, src):
    """names of the maps (of this or another function) the expression src of fi stands for, when all of them are maps
    the flow has under judgement; None otherwise"""
    probe = _IndexFlow(prog)
    probe.expr(fi, src, [(fi, src)])
    if not probe.order or probe.displays or probe.opaque:
        return None
    names = []
    for key in probe.order:
        if key not in flow.maps or not _maplike(flow.maps[key][0], key[2]):
            return None
        names.append(f'{flow.maps[key][0].name}:{key[2]}')
    return names


_SEQ_MAKERS = ('list', 'tuple', 'sorted', 'set', 'frozenset', 'reversed', 'enumerate', 'zip', 'range', 'iter')


def _maplike(fi, name) -> bool:
    """can the name hold a mapping?  A parameter, or a local every binding of which gives it a mapping display, the
    result of a call that is not one of the sequence makers, or another name / field / conditional of such"""
    if name in fi.params:
        return True
    ds = local_defs_of(fi, name)
    if not ds:
        return False
    for d in ds:
        if isinstance(d, ast.AugAssign) and isinstance(d.op, ast.BitOr):
            continue
        if not isinstance(d, (ast.Assign, ast.AnnAssign)) or d.value is None:
            return False
        tg = d.targets[0] if isinstance(d, ast.Assign) else d.target
        v = _map_content(d.value)
        if isinstance(tg, (ast.Tuple, ast.List)):
            if not isinstance(v, ast.Call):
                return False
            continue
        if isinstance(v, ast.Call):
            if call_name(v) in _SEQ_MAKERS:
                return False
        elif not isinstance(v, (ast.Dict, ast.DictComp, ast.Name, ast.Attribute, ast.Subscript, ast.IfExp, ast.BinOp)):
            return False
    return True


# ---------------------------------------------------------------- R8 -----
_IMMUTABLE_MAKERS = ('frozenset', 'tuple', 'MappingProxyType', 'types.MappingProxyType', 'str', 'int', 'float', 'bool', 'bytes',
                     'object', 'Path', 're.compile', 'TypeVar', 'logging.getLogger', 'getLogger')
_MEMO_DECORATORS = ('cache', 'lru_cache', 'cached_property', 'memoize', 'memoise')


def _makes_object(v) -> bool:
    """evaluating the expression builds a mutable object: a call (not one of the makers of immutable values), a display,
    a comprehension"""
    if isinstance(v, ast.Call):
        return call_name(v).split('[')[0] not in _IMMUTABLE_MAKERS
    return isinstance(v, (ast.Dict, ast.List, ast.Set, ast.DictComp, ast.ListComp, ast.SetComp))


def _default_of(callee, pname):
    a = callee.node.args
    names = [p.arg for p in a.posonlyargs + a.args]
    d = dict(zip(names[len(names) - len(a.defaults):], a.defaults))
    d.update({p.arg: v for p, v in zip(a.kwonlyargs, a.kw_defaults) if v is not None})
    return d.get(pname)


class _MadeOnce:
    """Where was the object an expression stands for made: in the course of the call that uses it, or once for the whole
    process?  Followed back through the bindings of locals, conditional expressions, parameters (the argument of every
    call site; the default where a call site leaves the parameter out), the returns of resolved repository functions,
    and attributes of instances of repository classes (every `self.attr = v` in a method of the class; the value in
    the class body when no constructor replaces it per instance).  Answers with the places that make the object once:
    ('module' | 'class' | 'default', text, file, line, note).  An object made by a call or a display that is evaluated
    on the way is fresh and has no tag; what cannot be followed has none either (the rule forbids, it does not guess)."""

    def __init__(self, prog):
        self.prog = prog
        self._stack = []

    def origins(self, fi, e, depth=0):
        key = (fi.file, fi.qualname, id(e))
        if e is None or depth > 10 or key in self._stack:
            return set()
        self._stack.append(key)
        try:
            return self._origins(fi, e, depth + 1)
        finally:
            self._stack.pop()

    def _static(self, mod, name, v, kind='module', note=''):
        """the object bound at module / class level by `name = v`"""
        if _makes_object(v):
            return {(kind, f'{name} = {norm(v)[:50]}', mod.relpath, v.lineno, note)}
        if isinstance(v, ast.Name) and v.id in mod.constants and v.id != name:
            return self._static(mod, v.id, mod.constants[v.id])
        return set()

    def _resolved(self, r):
        if isinstance(r, tuple) and r[0] == 'const':
            return self._static(r[1], r[2], r[1].constants[r[2]])
        return set()

    def _origins(self, fi, e, depth):
        prog = self.prog
        if isinstance(e, ast.NamedExpr):
            return self.origins(fi, e.value, depth)
        if isinstance(e, ast.IfExp):
            return self.origins(fi, e.body, depth) | self.origins(fi, e.orelse, depth)
        if isinstance(e, ast.BoolOp):
            return set().union(*[self.origins(fi, v, depth) for v in e.values])
        if isinstance(e, ast.Name):
            return self._name(fi, e, depth)
        if isinstance(e, ast.Attribute):
            return self._attribute(fi, e, depth)
        if isinstance(e, ast.Call):
            from ..resolve import resolve_class_call
            if resolve_class_call(prog, fi, e) is not None:
                return set()            # a constructor call: a new object each time it is evaluated
            callee = resolve_call(prog, fi, e)
            if callee is None or isinstance(callee.node, ast.Lambda) or callee.name in ('__init__', '__post_init__', '__new__'):
                return set()
            if any(m_ in d for d in callee.decorators() for m_ in _MEMO_DECORATORS):
                return set()            # a memoised result is T-MEMO M2
            out = set()
            for r in walk_no_nested(callee.node):
                if isinstance(r, ast.Return) and r.value is not None:
                    out |= self.origins(callee, r.value, depth)
            return out
        return set()

    def _name(self, fi, e, depth):
        prog = self.prog
        out = set()
        if e.id in fi.params:
            if fi.cls is not None and fi.params[:1] == [e.id] and e.id in ('self', 'cls'):
                return out
            for caller, call in callers_of(prog, fi):
                b = _bound_arg(fi, call, e.id)
                if b is not None:
                    out |= self.origins(caller, b, depth)
                elif not any(isinstance(x, ast.Starred) for x in call.args) and not any(k.arg is None for k in call.keywords):
                    d = _default_of(fi, e.id)
                    if d is not None and _makes_object(d):
                        out.add(('default', f'{e.id}={norm(d)[:50]}', fi.file, d.lineno,
                                 f'the default of parameter `{e.id}` of {fi.name}, evaluated once when the function is defined; '
                                 f'{caller.name} line {call.lineno} leaves the parameter out'))
            return out
        ds = local_defs_of(fi, e.id)
        if ds:
            for d in ds:
                if isinstance(d, ast.Assign) and any(isinstance(t, ast.Name) and t.id == e.id for t in d.targets):
                    out |= self.origins(fi, d.value, depth)
                elif isinstance(d, ast.AnnAssign) and d.value is not None and isinstance(d.target, ast.Name):
                    out |= self.origins(fi, d.value, depth)
            return out
        if '.<locals>.' in fi.qualname:
            return out                  # a variable of the enclosing function: not followed
        return self._resolved(prog.resolve_name(fi.module, e.id))

    def _attribute(self, fi, e, depth):
        prog = self.prog
        from ..astutil import dotted_name
        d = dotted_name(e)
        if d:
            head, _, rest = d.partition('.')
            if head in fi.module.imports and head not in fi.params and not local_defs_of(fi, head):
                r = prog.resolve_dotted(fi.module.imports[head] + '.' + rest)       # module.NAME
                if r is not None:
                    return self._resolved(r)
        owner = prog.resolve_class_expr(fi.module, e.value)                       # Class.attr
        inst = owner is None
        if owner is None:
            owner = expr_class(prog, fi, e.value)
        if owner is None:
            return set()
        out = set()
        replaced = False        # a constructor gives every instance an object of its own
        if inst:
            # stores through the same name in the function itself, ahead of the read and on every path to it
            if isinstance(e.value, ast.Name):
                for t, st, how in stores_to(fi.node):
                    if how in ('assign', 'ann') and isinstance(t, ast.Attribute) and t.attr == e.attr and norm(t.value) == e.value.id \
                            and _stored_value(t, st) is not None:
                        out |= self.origins(fi, _stored_value(t, st), depth)
                        if any(st is s for s in fi.node.body) and st.lineno < getattr(e, 'lineno', 0):
                            replaced = True
            for c in owner.mro():
                for meth in c.methods.values():
                    recv = meth.params[:1]
                    if not recv or any('staticmethod' in x or 'classmethod' in x for x in meth.decorators()):
                        continue
                    for t, st, how in stores_to(meth.node):
                        if how in ('assign', 'ann') and isinstance(t, ast.Attribute) and t.attr == e.attr and norm(t.value) == recv[0]:
                            v = _stored_value(t, st)
                            if v is None:
                                continue
                            out |= self.origins(meth, v, depth)
                            if meth.name in ('__init__', '__post_init__') and any(st is s for s in meth.node.body):
                                replaced = True
                # one level: a set-up method the constructor calls as a statement (`self._reset()`)
                for nm in ('__init__', '__post_init__'):
                    init = c.methods.get(nm)
                    for s in (init.node.body if init is not None else []):
                        if isinstance(s, ast.Expr) and isinstance(s.value, ast.Call) and isinstance(s.value.func, ast.Attribute) \
                                and norm(s.value.func.value) == (init.params[:1] or [''])[0]:
                            g = owner.find_method(s.value.func.attr)
                            if g is not None and any(
                                    isinstance(t, ast.Attribute) and t.attr == e.attr and norm(t.value) == (g.params[:1] or [''])[0]
                                    and how in ('assign', 'ann') and any(st is s2 for s2 in g.node.body)
                                    for t, st, how in stores_to(g.node)):
                                replaced = True
        if not replaced:
            for c in owner.mro():
                v = c.class_assignments().get(e.attr, None)
                if e.attr not in c.class_assignments():
                    continue
                if v is None:
                    break               # annotation only: no object at class level
                if isinstance(v, ast.Call) and call_name(v).split('.')[-1] == 'field':
                    dv = next((k.value for k in v.keywords if k.arg == 'default'), None)
                    if dv is None:
                        break           # default_factory: made per instance
                    v = dv
                note = (f'in the body of class {c.name}' + (', and no constructor of the class gives each instance one of its own'
                                                            if inst else ''))
                out |= self._static(c.module, e.attr, v, 'class', note)
                break
        return out


def rule_fresh(ctx, flows):
    """R8: the maps of the per-flight producers are made per flight."""
    prog = ctx.prog
    mo = _MadeOnce(prog)
    n = 0
    reported = set()
    for rel, entry, flow in flows:
        part = rel.split('/')[-1][:-3]
        sites = []          # (function, expression, what it is)
        for r in walk_no_nested(entry.node):
            if not (isinstance(r, ast.Return) and r.value is not None):
                continue
            v = r.value
            if isinstance(v, ast.Name) and v.id not in entry.params:
                v = single_def_value(entry.node, v.id) or v
            if isinstance(v, ast.Call) and call_name(v).split('[')[0] == 'EmissionsSubset':
                for lab, a in [*[(f'argument {i + 1}', a) for i, a in enumerate(v.args)], *[(k.arg, k.value) for k in v.keywords]]:
                    if isinstance(a, (ast.Name, ast.Attribute, ast.IfExp)):
                        sites.append((entry, a, f'`{norm(a)[:40]}` ({lab} of the EmissionsSubset {entry.name} hands back)'))
            elif isinstance(v, (ast.Name, ast.Attribute)):
                sites.append((entry, v, f'`{norm(v)[:40]}`, which {entry.name} hands back'))
        have = {(f.qualname, norm(a)) for f, a, _w in sites}
        for key in flow.order:
            fi, name, _ways = flow.maps[key]
            if (fi.qualname, name) in have:
                continue
            try:
                e = ast.parse(name, mode='eval').body
            except SyntaxError:
                continue
            first = next((x for x in walk_no_nested(fi.node) if isinstance(x, type(e)) and norm(x) == name), None)
            if first is not None:
                sites.append((fi, first, f'`{name}` of {fi.name}, whose entries get into the {part} indices'))
        for fi, e, what in sites:
            n += 1
            tags = mo.origins(fi, e)
            new = sorted(t for t in tags if t[:4] not in reported)
            if tags and not new:
                continue            # the same object, already reported at the map it was reached from first
            reported |= {t[:4] for t in new}
            t = new[0] if new else None
            ctx.ob('C11-R8', fi, f'{what}: made in the course of the call', not tags,
                   'every object that can reach it is built by a call or a display evaluated per flight' if not tags else
                   (f'it can be the object made once at {t[2].split("/")[-1]}:{t[3]} - `{t[1]}`, '
                    f'{t[4] or "at module level, when the module is imported"} - so every flight of the process stores into, and hands '
                    f'back, the same map: what an earlier flight stored for a species is still in it when a later configuration '
                    f'switches that species off (a switched-off species contributes to the {part} part of the inventory'
                    + ('; with another number of points the stale array does not broadcast - an internal error that names no method)'
                       if part == 'trajectory' else ')')),
                   line=getattr(e, 'lineno', 0) or fi.node.lineno)
    ctx.floor('C11-R8', n, 4, 'species maps of the trajectory and LTO producers')


# ---------------------------------------------------------------- R4 -----
def rule_elements(ctx):
    prog = ctx.prog
    tm = prog.cls('performance/types.py', 'ThrustMode')
    enum_only = set(tm.methods) - {'__str__', '_missing_'}
    ctx.floor('C11-R4/attrs', len(enum_only), 1, 'ThrustMode-only attributes')

    def array_params(fn):
        a = fn.args
        return {arg.arg for arg in a.posonlyargs + a.args + a.kwonlyargs
                if arg.annotation is not None and 'ThrustModeArray' in norm(arg.annotation)}

    def uses(fn, arr_params):
        """(ok, text, why, line) for every use of a ThrustMode-only attribute on an element of an iteration over a
        ThrustModeArray parameter of function fn"""
        out = []
        for x in ast.walk(fn):
            tgt = it = None
            if isinstance(x, ast.For):
                tgt, it = x.target, x.iter
            elif isinstance(x, ast.comprehension):
                tgt, it = x.target, x.iter
            if it is None or not isinstance(tgt, ast.Name):
                continue
            raw = isinstance(it, ast.Name) and it.id in arr_params or \
                (isinstance(it, ast.Attribute) and it.attr == 'data' and norm(it.value) in arr_params)
            if not raw and isinstance(it, ast.Call) and isinstance(it.func, ast.Attribute) \
                    and norm(it.func.value) in arr_params:
                # a method of the array class: np.vectorize(<str-mixin enum>) without otypes=[object] lets numpy
                # infer a string dtype, so the elements are numpy strings again, not enum members
                meth = prog.cls('performance/types.py', 'ThrustModeArray').methods.get(it.func.attr)
                if meth is not None:
                    rets = [r.value for r in walk_no_nested(meth.node) if isinstance(r, ast.Return) and r.value is not None]
                    for rv in rets:
                        if isinstance(rv, ast.Call) and isinstance(rv.func, ast.Call) and call_name(rv.func) in ('np.vectorize', 'numpy.vectorize') \
                                and rv.func.args and norm(rv.func.args[0]) == 'ThrustMode' \
                                and not any(k.arg == 'otypes' for k in rv.func.keywords) \
                                and any(b in ('str', 'StrEnum', 'enum.StrEnum') for k in tm.mro() for b in k.base_exprs):
                            raw = True
            if not raw:
                continue
            scope = x if isinstance(x, ast.For) else getattr(x, '_parent', x)
            for u in ast.walk(scope):
                if isinstance(u, ast.Attribute) and isinstance(u.value, ast.Name) and u.value.id == tgt.id \
                        and u.attr in enum_only:
                    out.append((False, f'{tgt.id}.{u.attr} on raw element of {norm(it)}',
                                f'iterating a ThrustModeArray yields raw values (numpy str), which have no '
                                f'`{u.attr}`: AttributeError for every configuration reaching this line', u.lineno))
                if isinstance(u, ast.Attribute) and u.attr in enum_only and isinstance(u.value, ast.Call) \
                        and call_name(u.value) == 'ThrustMode' and u.value.args \
                        and norm(u.value.args[0]) == tgt.id:
                    out.append((True, f'ThrustMode({tgt.id}).{u.attr}', 'raw element converted to the enum before use', u.lineno))
        return out

    n = n_fn = 0
    mods = [prog.module(r) for r in ('emissions/trajectory.py', 'emissions/lto.py', 'emissions/utils.py')]
    if ctx.tier == 'thorough':
        mods = [m for m in prog.src_modules() if '/emissions/' in m.relpath]
    for m in mods:
        for fi in m.functions.values():
            arr_params = array_params(fi.node)
            if not arr_params:
                continue
            n_fn += 1
            for ok, text, why, line in uses(fi.node, arr_params):
                n += 1
                ctx.ob('C11-R4', fi, text, ok, why, line=line)
    # the rule forbids something, so a tree without any such use passes; what must not vanish is what it looks at
    # (functions that receive a ThrustModeArray), and that it sees the two forms is shown on an embedded function
    ctx.floor('C11-R4', n_fn, 1, 'functions of the emissions modules that receive a ThrustModeArray')
    ctx.stats['C11-R4/uses'] = n
    attr = sorted(enum_only)[0] if enum_only else 'x'
    ctl = ast.parse(f'def f(modes: ThrustModeArray, other):\n a = [c.{attr} for c in modes]\n b = [ThrustMode(c).{attr} for c in modes]\n'
                    f' for d in modes.data:\n  e = d.{attr}\n g = [h.{attr} for h in other]\n return a, b, e, g')
    for a_ in ast.walk(ctl):
        for ch in ast.iter_child_nodes(a_):
            if not isinstance(ch, (ast.expr_context, ast.operator, ast.unaryop, ast.cmpop, ast.boolop)):
                ch._parent = a_
    got = sorted((ln, ok) for ok, _t, _w, ln in uses(ctl.body[0], array_params(ctl.body[0])))
    ctx.control('C11-R4', got == [(2, False), (3, True), (5, False)],
                'embedded function: an enum-only attribute on a raw element (comprehension, loop over .data) is seen, on '
                'ThrustMode(element) it is accepted, an iteration over something else is left alone')


# ---------------------------------------------------------------- R5 -----
class _CondList:
    """a list whose elements are there under conditions: [(guards, value)] - a comprehension over a constant table
    with a condition on the configuration"""

    def __init__(self, items):
        self.items = items


class _ReadsOf:
    """Under which conditions does a function read an element of the map it receives as parameter `comp`?  Found by
    running the function symbolically over what is concretely known - module-level tables of records (NamedTuple /
    dataclass rows, also of the module a moved function came from), dict displays, literal loops and comprehensions
    unrolled row by row, methods of a row evaluated on that row (`src.enabled()` with `getattr(config.emissions,
    self.flag)` read as the attribute the row names) - while parameters and everything else stay symbolic.  A
    condition that stays symbolic becomes a path condition of what it governs: the elements a comprehension keeps,
    the branch of an `if`, the rest of a block after a guard clause.  Every `x[…]` whose x is the parameter itself at
    that point is a read, reported with its path conditions.  Anything outside this raises _Cannot."""

    _NORET = object()

    def __init__(self, prog, fi, comp):
        self.prog, self.fi, self.comp = prog, fi, comp
        self.I = _SpeciesSetInterp(fi.node, fi.module)
        self.I.result = '<no result set>'
        self.sites: list[tuple[list, ast.AST]] = []
        self.steps = 0
        self._home: dict[int, object] = {}      # id(record) -> module its class lives in
        self._consts: dict[str, object] = {}

    def run(self):
        env = {p_: _Sym(p_) for p_ in self.fi.params}
        self.block(self.fi.node.body, env, [], in_loop=False)
        return self.sites

    # ---- values
    def _const(self, name):
        if name not in self._consts:
            r = self.prog.resolve_name(self.fi.module, name)
            v = None
            if isinstance(r, tuple) and r[0] == 'const':
                home = r[1]
                sub = _SpeciesSetInterp(self.fi.node, home)
                v = sub.ev(home.constants[r[2]], {})
                todo = [v]
                while todo:
                    x = todo.pop()
                    if isinstance(x, _Record):
                        self._home[id(x)] = home
                        todo += list(x.values)
                    elif isinstance(x, (tuple, list)) and not self.I._is_sp(x):
                        todo += list(x)
                    elif isinstance(x, dict):
                        todo += list(x.values())
            self._consts[name] = v
        return self._consts[name]

    def ev(self, e, env):
        if isinstance(e, ast.Name):
            if e.id in env:
                return env[e.id]
            v = self._const(e.id)
            if v is not None:
                return v
        if isinstance(e, (ast.ListComp, ast.GeneratorExp, ast.SetComp)) and len(e.generators) == 1:
            g = e.generators[0]
            items = self._items(self.ev(g.iter, env))
            if items is not None:
                out = []
                for gs, item in items:
                    e2 = dict(env)
                    self.I.bind(g.target, item, e2)
                    conds, keep = list(gs), True
                    for c in g.ifs:
                        r = self.test(c, e2)
                        if r is False:
                            keep = False
                            break
                        if r is not True:
                            conds += r
                    if keep:
                        out.append((conds, self.ev(e.elt, e2)))
                return _CondList(out)
        if isinstance(e, ast.Call) and isinstance(e.func, ast.Attribute) and not e.args and not e.keywords:
            recv = self.ev(e.func.value, env)
            if isinstance(recv, _Record):
                return self.method(recv, e.func.attr)
        if isinstance(e, (ast.Tuple, ast.List)) and not any(isinstance(x, ast.Starred) for x in e.elts):
            return tuple(self.ev(x, env) for x in e.elts)
        if isinstance(e, ast.Subscript) and not isinstance(e.slice, ast.Slice):
            b, i = self.ev(e.value, env), self.ev(e.slice, env)
            if isinstance(b, dict) and not isinstance(i, (_Sym, _CondList, _Record)) and i in b:
                return b[i]
            if isinstance(b, (tuple, list)) and not self.I._is_sp(b) and isinstance(i, int) and not isinstance(i, bool) and -len(b) <= i < len(b):
                return b[i]
            return _Sym(self.I.subst(e, env))
        if isinstance(e, ast.Attribute):
            b = self.ev(e.value, env)
            if isinstance(b, _Record):
                if e.attr in b.fields:
                    return b.fields[e.attr]
                raise _Cannot(f'`{norm(e)}` of a table row')
            return _Sym(self.I.subst(e, env))
        local = {k: v for k, v in env.items() if not isinstance(v, _CondList)}
        if any(isinstance(x, ast.Name) and isinstance(env.get(x.id), _CondList) for x in ast.walk(e)):
            return _Sym(norm(e))
        return self.I.ev(e, local)

    def _items(self, seq):
        if isinstance(seq, _CondList):
            return list(seq.items)
        if isinstance(seq, dict):
            return [([], k) for k in seq]
        if isinstance(seq, (tuple, list)) and not self.I._is_sp(seq):
            return [([], x) for x in seq]
        return None

    def test(self, c, env):
        """True / False when the test is concretely known, else its conjuncts as path conditions [(text, polarity)]"""
        out = []
        for t, pol in conjuncts(c, True):
            while isinstance(t, ast.UnaryOp) and isinstance(t.op, ast.Not):
                t, pol = t.operand, not pol
            v = self.ev(t, env)
            if isinstance(v, _Sym):
                out.append((v.text, pol))
            elif isinstance(v, _CondList):
                raise _Cannot('truth of a conditional list')
            elif (isinstance(v, _Record) or bool(v)) != pol:
                return False
        return out or True

    def simplify(self, e, env):
        """expression e with what is concretely known filled in: fields of a row, `getattr(x, 'name')` -> x.name,
        bool(x) -> x"""
        import copy
        me = self

        class T(ast.NodeTransformer):
            def generic_visit(self, n):
                n = super().generic_visit(n)
                if isinstance(n, (ast.Attribute, ast.Name, ast.Subscript)) and isinstance(getattr(n, 'ctx', None), ast.Load):
                    try:
                        v = me.ev(n, env)
                    except _Cannot:
                        return n
                    if v is None or isinstance(v, (str, int, float, bool)):
                        return ast.Constant(value=v)
                if isinstance(n, ast.Call) and isinstance(n.func, ast.Name) and not n.keywords:
                    if n.func.id == 'getattr' and len(n.args) == 2 and isinstance(n.args[1], ast.Constant) \
                            and isinstance(n.args[1].value, str) and n.args[1].value.isidentifier():
                        return ast.Attribute(value=n.args[0], attr=n.args[1].value, ctx=ast.Load())
                    if n.func.id == 'bool' and len(n.args) == 1:
                        return n.args[0]
                return n
        return ast.fix_missing_locations(T().visit(ast.parse(ast.unparse(e), mode='eval').body))

    def method(self, rec, name):
        home = self._home.get(id(rec)) or self.fi.module
        ci = home.classes.get(rec.cls)
        fm = ci.methods.get(name) if ci is not None else None
        if fm is None:
            raise _Cannot(f'method {name} of a table row')
        a = fm.node.args
        if len(a.posonlyargs + a.args) != 1 or a.vararg or a.kwarg or a.kwonlyargs or fm.node.decorator_list:
            raise _Cannot(f'method {name} takes arguments')
        r = self._ret(fm.node.body, {a.args[0].arg if a.args else a.posonlyargs[0].arg: rec})
        if r is self._NORET:
            return None
        return r

    def _ret(self, stmts, env):
        for st in stmts:
            if isinstance(st, ast.Expr) and isinstance(st.value, ast.Constant):
                continue
            if isinstance(st, ast.Return):
                if st.value is None:
                    return None
                v = self.ev(st.value, env)
                if isinstance(v, _Sym):
                    return _Sym(norm(self.simplify(st.value, env)))
                return v
            if isinstance(st, ast.If):
                t = self.test(st.test, env)
                if t is True or t is False:
                    r = self._ret(st.body if t else st.orelse, env)
                    if r is not self._NORET:
                        return r
                    continue
            raise _Cannot(f'statement `{norm(st)[:40]}` in a method of a table row')
        return self._NORET

    # ---- reads
    def scan(self, e, env, guards):
        if e is None:
            return
        for x in ast.walk(e):
            if isinstance(x, (ast.ListComp, ast.SetComp, ast.DictComp, ast.GeneratorExp, ast.Lambda)) and x is not e:
                bound = {n.id for g in getattr(x, 'generators', []) for n in ast.walk(g.target) if isinstance(n, ast.Name)}
                if isinstance(x, ast.Lambda):
                    bound = {a_.arg for a_ in x.args.args}
                for y in ast.walk(x):
                    if isinstance(y, ast.Subscript) and isinstance(y.value, ast.Name) and y.value.id in bound:
                        y._c11_skip = True
        for x in ast.walk(e):
            if isinstance(x, ast.Subscript) and isinstance(x.ctx, ast.Load) and not getattr(x, '_c11_skip', False):
                try:
                    b = self.ev(x.value, env)
                except _Cannot:
                    continue
                if isinstance(b, _Sym) and b.text == self.comp:
                    self.sites.append((list(guards), x))

    # ---- statements
    def block(self, stmts, env, guards, in_loop):
        """runs the statements; True when every path through them leaves (return / continue / break / raise)"""
        guards = list(guards)
        for st in stmts:
            self.steps += 1
            if self.steps > 4000:
                raise _Cannot('too long')
            if isinstance(st, (ast.Pass, ast.Import, ast.ImportFrom, ast.Global, ast.Nonlocal, ast.Assert)):
                continue
            if isinstance(st, ast.Expr):
                self.scan(st.value, env, guards)
            elif isinstance(st, (ast.Return, ast.Raise)):
                self.scan(getattr(st, 'value', None) or getattr(st, 'exc', None), env, guards)
                if isinstance(st, ast.Return) and in_loop:
                    raise _Cannot('return inside a loop')
                return True
            elif isinstance(st, (ast.Continue, ast.Break)):
                if isinstance(st, ast.Break):
                    raise _Cannot('break')
                return True
            elif isinstance(st, (ast.Assign, ast.AnnAssign)):
                if st.value is None:
                    continue
                self.scan(st.value, env, guards)
                tg = st.targets if isinstance(st, ast.Assign) else [st.target]
                v = self.ev(st.value, env)
                for t in tg:
                    if isinstance(t, ast.Name):
                        env[t.id] = v
                    elif isinstance(t, (ast.Tuple, ast.List)):
                        try:
                            self.I.bind(t, v, env)
                        except _Cannot:
                            for n in ast.walk(t):
                                if isinstance(n, ast.Name):
                                    env[n.id] = _Sym(n.id)
                    elif isinstance(t, ast.Subscript) and isinstance(t.value, ast.Name) and isinstance(env.get(t.value.id), (dict, tuple, list, _CondList)):
                        raise _Cannot('a table is changed in place')
            elif isinstance(st, ast.AugAssign):
                self.scan(st.value, env, guards)
                if isinstance(st.target, ast.Name):
                    if isinstance(env.get(st.target.id), (dict, tuple, list, _CondList)):
                        raise _Cannot('a table is changed in place')
                    env[st.target.id] = _Sym(st.target.id)
            elif isinstance(st, ast.For) and not st.orelse:
                self.scan(st.iter, env, guards)
                items = self._items(self.ev(st.iter, env))
                if items is None:
                    items = [([], None)]
                for gs, item in items:
                    if item is None:
                        for n in ast.walk(st.target):
                            if isinstance(n, ast.Name):
                                env[n.id] = _Sym(n.id)
                    else:
                        self.I.bind(st.target, item, env)
                    self.block(st.body, env, guards + gs, in_loop=True)
                for n in {n.id for t, _s, _h in stores_to(st) for n in ast.walk(t) if isinstance(n, ast.Name)}:
                    if not isinstance(env.get(n), (dict, _CondList)):
                        env[n] = _Sym(n)
            elif isinstance(st, ast.If):
                self.scan(st.test, env, guards)
                t = self.test(st.test, env)
                if t is True or t is False:
                    if self.block(st.body if t else st.orelse, env, guards, in_loop):
                        return True
                    continue
                g_true = list(t)
                g_false = [(x, not pol) for x, pol in t] if len(t) == 1 else []
                e1, e2 = dict(env), dict(env)
                r1 = self.block(st.body, e1, guards + g_true, in_loop)
                r2 = self.block(st.orelse, e2, guards + g_false, in_loop)
                if r1 and r2:
                    return True
                merged = e2 if r1 else e1 if r2 else \
                    {k: (e1[k] if k in e1 and k in e2 and e1[k] is e2[k] else _Sym(k)) for k in set(e1) | set(e2)}
                env.clear()
                env.update(merged)
                if r1:
                    guards += g_false
                elif r2:
                    guards += g_true
            elif isinstance(st, ast.FunctionDef):
                env[st.name] = _Sym(st.name)
            else:
                raise _Cannot(f'statement `{norm(st)[:50]}`')
        return False


def _guard_premises(table, guards):
    """path conditions of a symbolic run as premises over the option fields; a condition that looks like one on the
    configuration but cannot be read as one is not dropped (that would change the predicate): _Cannot"""
    out = []
    for text, pol in guards:
        try:
            e = ast.parse(text, mode='eval').body
        except SyntaxError:
            raise _Cannot(f'condition `{text[:40]}`')
        p_ = table.premises(None, [(e, pol)])
        if not p_ and ('config' in text or 'enabled' in text or 'getattr' in text):
            raise _Cannot(f'condition `{text[:40]}` is not a predicate over the option fields')
        out += p_
    return out


def _entry_sites(prog, table, fi, name, bind=None, outer=(), depth=0):
    """where the elements of the map `name` of function fi are read - `name[…]` in fi, or in a resolved helper the map
    is handed to (its parameters bound to the arguments of the call): [(premises on the configuration under which the
    read happens - the facts at the read, and at the calls that lead to it -, the read)]"""
    out = []
    for x in walk_no_nested(fi.node):
        if isinstance(x, ast.Subscript) and isinstance(x.ctx, ast.Load) and isinstance(x.value, ast.Name) and x.value.id == name:
            here = table.premises(fi, facts_at(fi.node, x)) if bind is None else _bound_premises(table, fi, facts_at(fi.node, x), bind)
            out.append((list(outer) + here, x))
    if depth < 3:
        for c in calls_in(fi.node):
            if not any(isinstance(a_, ast.Name) and a_.id == name for a_ in [*c.args, *[k.value for k in c.keywords]]):
                continue
            callee = resolve_call(prog, fi, c)
            if callee is None or callee.node is fi.node or callee.node.decorator_list:
                continue
            b = _call_binding(callee, c, fi, bind if bind is not None else {})
            if b is None:
                continue
            here = table.premises(fi, facts_at(fi.node, c)) if bind is None else _bound_premises(table, fi, facts_at(fi.node, c), bind)
            for pname in callee.params:
                a_ = _bound_arg(callee, c, pname)
                if isinstance(a_, ast.Name) and a_.id == name:
                    out += _entry_sites(prog, table, callee, pname, b, list(outer) + here, depth + 1)
    if not out and depth == 0 and bind is None and name in fi.params:
        # the map is not read under its own name: it travels through tables (a dict of the sources, rows that say under
        # which switch each is used); run the function over what is concretely known
        try:
            out = [(_guard_premises(table, gs), x) for gs, x in _ReadsOf(prog, fi, name).run()]
        except (_Cannot, RecursionError, AttributeError, KeyError, TypeError, ValueError, SyntaxError):
            out = []
    return out


def rule_switches(ctx, table):
    """R5: a component is added to the totals under exactly the configurations under which it is computed - the two
    conditions are compared as predicates over the option fields (so `a and b`, nested ifs, a guard clause, a hoisted
    flag, `is not False` … are all the same), and they are the component's own switch."""
    prog = ctx.prog
    m = prog.module('emissions/emission.py')
    ce = m.func('compute_emissions')
    st = m.func('sum_total_emissions')
    for comp in ('apu', 'gse'):
        comp_calls = [c for c in calls_in(ce.node) if call_name(c).lower() == f'get_{comp}_emissions']
        if not comp_calls:
            ctx.undecided('C11-R5', ce, comp, 'component computation not found')
        C = table.premises(ce, facts_at(ce.node, comp_calls[0]))
        adds = _entry_sites(prog, table, st, comp)
        if not adds:
            ctx.undecided('C11-R5', st, comp, 'the place where the component enters the totals was not found')
        want = table.premises(None, [(ast.parse(f'config.emissions.{comp}_enabled', mode='eval').body, True)])
        for S, x in adds:
            d1 = table.differ(C, S)
            d2 = table.differ(C, want) if d1 is None else None
            ok = d1 is None and d2 is None and bool(C)
            shown = f'{comp}: computed under {[p[3] for p in C]}, summed under {[p[3] for p in S]}'
            # what the computing site is guarded by, as written: when the guards give no condition on the configuration
            # (a disjunction with something that is not an option, a negated conjunction) the message says which
            raw = '; '.join(f'`{norm(t_)[:70]}` is {"true" if pol_ else "false"}' for t_, pol_ in facts_at(ce.node, comp_calls[0])
                            if not (isinstance(t_, ast.Compare) and isinstance(t_.comparators[0], ast.pattern)))
            at = (f' (get_{comp.upper()}_emissions is called at {ce.name} line {int(-(-comp_calls[0].lineno // 1))} '
                  + (f'where {raw}' if raw else 'under no test at all')
                  + ('; that does not imply a value of any option, so the part is computed whatever the switch says' if not C else '') + ')')
            ctx.ob('C11-R5', st, shown, ok, 'same switch' if ok else
                   (f'the {comp.upper()} part is computed under one switch and added to the totals under another'
                    + (f' (they differ for {", ".join(f"{k}={v!r}" for k, v in sorted((d1 or d2).items()))})' if (d1 or d2) else '')
                    + ': with exactly one of them on, totals no longer equal the sum of the parts' + at), line=x.lineno)


def rule_lifecycle(ctx, table):
    """R5b: the life-cycle CO2 adjustment that is *reported* and the one that is
    *added to the CO2 total* are produced under the same configurations (compared as predicates over the option fields)."""
    prog = ctx.prog
    m = prog.module('emissions/emission.py')
    ce = m.func('compute_emissions')

    def effective(site, val):
        atoms = list(facts_at(ce.node, site))
        if isinstance(val, ast.Name):
            defs = [st for t, st, how in stores_to(ce.node) if isinstance(t, ast.Name) and t.id == val.id
                    and not (isinstance(getattr(st, 'value', None), ast.Constant) and st.value.value in (None, 0, 0.0))]
            if len(defs) == 1:
                atoms += facts_at(ce.node, defs[0])
        return table.premises(ce, atoms)

    add_site = rep_site = None
    for x in walk_no_nested(ce.node):
        if isinstance(x, ast.AugAssign) and norm(x.target).endswith('total_emissions[Species.CO2]'):
            add_site = (x, x.value)
        if isinstance(x, ast.Assign) and isinstance(x.targets[0], ast.Attribute) and x.targets[0].attr == 'lifecycle_co2':
            rep_site = (x, x.value)
        if isinstance(x, ast.Call) and call_name(x) == 'Emissions':
            for k in x.keywords:
                if k.arg == 'lifecycle_co2':
                    rep_site = (x, k.value)
    if add_site is None or rep_site is None:
        ctx.undecided('C11-R5', ce, 'life-cycle adjustment', 'add / report sites not found')
    ga, gr = effective(*add_site), effective(*rep_site)
    d = table.differ(ga, gr)
    ok = d is None and bool(ga)
    ctx.ob('C11-R5', ce, f'life-cycle CO2: added under {sorted({p[3] for p in ga})}, reported under {sorted({p[3] for p in gr})}', ok,
           'one condition for both' if ok else
           ('the reported life-cycle adjustment and the one added to the CO2 total are governed by different switches'
            + (f' (they differ for {", ".join(f"{k}={v!r}" for k, v in sorted(d.items()))})' if d else '')
            + ': for the combination where they differ the CO2 total no longer equals the sum of its parts plus the reported adjustment'),
           line=add_site[0].lineno)


# ---------------------------------------------------------------- R7 -----
_VIEW_FUNCS = {'asarray', 'asanyarray', 'atleast_1d', 'atleast_2d', 'squeeze', 'expand_dims', 'transpose', 'swapaxes',
               'reshape', 'moveaxis', 'broadcast_to'}
_VIEW_METHODS = {'view', 'reshape', 'transpose', 'swapaxes', 'squeeze'}
_INPLACE_METHODS = {'fill', 'sort', 'put', 'itemset', 'resize', 'partition', 'setfield'}
_INPLACE_FUNCS = {'put', 'place', 'putmask', 'copyto', 'put_along_axis', 'fill_diagonal'}
_IMMUTABLE_BYTES = {'bytes', 'tobytes', 'encode', 'read', 'pack', 'getvalue', 'read_bytes'}


class _Writability:
    """May the object an expression evaluates to refuse an in-place store?  A small def-use analysis: origins are
    followed backwards through reaching definitions of locals (on the CFG), through elements of local mappings (a
    re-store of the same element that every path passes kills the older ones), through loops over mappings and
    literal collections, view-preserving numpy operations, and the returns of resolved repository functions.  An origin
    is reported only when it is a constructor known to hand out something that cannot be stored into:
      np.broadcast_to, sliding_window_view (read-only views); as_strided(writeable=False); np.frombuffer over immutable
      bytes; an array after `.flags.writeable = False` / `.setflags(write=False)`; MappingProxyType; and an object of a
      repository class whose constructor takes `mutable` (default False) built without mutable=True, or after
      `.freeze()` - `.copy(mutable=True)` makes a fresh writable one, `.copy()` keeps what it had.
    Tags: (kind, what, file, line) with kind 'np' (numpy refuses: ValueError) or 'frozen' (the class refuses:
    TypeError); ('param', name) stands for "whatever the caller passed"."""

    def __init__(self, prog):
        self.prog = prog
        self._cfg = {}
        self._defs = {}
        self._busy = set()
        self._memo = {}

    # ---- per-function tables
    def cfg(self, fi):
        from ..cfg import CFG
        k = id(fi.node)
        if k not in self._cfg:
            try:
                self._cfg[k] = CFG(fi.node)
            except Exception:
                self._cfg[k] = None
        return self._cfg[k]

    def nodes(self, fi, stmt):
        g = self.cfg(fi)
        if g is None or stmt is None:
            return []
        return [n for n in g.nodes_of(stmt) if g.nodes[n].kind != 'join']

    def defs(self, fi):
        """name -> [(statement, kind, payload)]: kind 'value' (expr), 'tuple' (expr, index), 'iter' (target, iter),
        'taint' (tag kind, what), 'unknown'"""
        k = id(fi.node)
        if k in self._defs:
            return self._defs[k]
        out = {}
        fn = fi.node

        def add(name, st, kind, *payload):
            out.setdefault(name, []).append((st, kind, payload))

        for x in walk_no_nested(fn):
            if isinstance(x, ast.Assign):
                for tgt in x.targets:
                    if isinstance(tgt, ast.Name):
                        add(tgt.id, x, 'value', x.value)
                    elif isinstance(tgt, (ast.Tuple, ast.List)):
                        for i, el in enumerate(tgt.elts):
                            if isinstance(el, ast.Name):
                                add(el.id, x, 'tuple', x.value, i)
                            else:
                                for nn in ast.walk(el):
                                    if isinstance(nn, ast.Name) and isinstance(nn.ctx, ast.Store):
                                        add(nn.id, x, 'unknown')
                    elif isinstance(tgt, ast.Attribute) and norm(tgt).endswith('.flags.writeable') and isinstance(tgt.value.value, ast.Name) \
                            and isinstance(x.value, ast.Constant) and x.value.value is False:
                        add(tgt.value.value.id, x, 'taint', 'np', '`.flags.writeable = False`')
            elif isinstance(x, ast.AnnAssign) and isinstance(x.target, ast.Name) and x.value is not None:
                add(x.target.id, x, 'value', x.value)
            elif isinstance(x, (ast.For, ast.AsyncFor)):
                for nn in ast.walk(x.target):
                    if isinstance(nn, ast.Name):
                        add(nn.id, x, 'iter', x.target, x.iter)
            elif isinstance(x, (ast.With, ast.AsyncWith)):
                for it in x.items:
                    if it.optional_vars is not None:
                        for nn in ast.walk(it.optional_vars):
                            if isinstance(nn, ast.Name):
                                add(nn.id, x, 'unknown')
            elif isinstance(x, ast.NamedExpr):
                add(x.target.id, stmt_of(x), 'value', x.value)
            elif isinstance(x, ast.ExceptHandler) and x.name:
                add(x.name, x, 'unknown')
            elif isinstance(x, ast.Expr) and isinstance(x.value, ast.Call) and isinstance(x.value.func, ast.Attribute) \
                    and isinstance(x.value.func.value, ast.Name):
                c = x.value
                if c.func.attr == 'setflags' and any(k.arg == 'write' and isinstance(k.value, ast.Constant) and not k.value.value
                                                     for k in c.keywords):
                    add(c.func.value.id, x, 'taint', 'np', '`.setflags(write=False)`')
                elif c.func.attr == 'freeze' and not c.args:
                    add(c.func.value.id, x, 'taint', 'frozen', '`.freeze()`')
        self._defs[k] = out
        return out

    def _avoiding(self, g, blocked, start_free=None):
        def ok(a, b, lab):
            if a == start_free:
                return lab != 'e'
            return a not in blocked
        return ok

    def reaching(self, fi, name, at):
        """(definitions of local `name` that reach statement `at`, whether the value at function entry also does)"""
        ds = self.defs(fi).get(name, [])
        g = self.cfg(fi)
        use = self.nodes(fi, at)
        if not ds:
            return [], True
        if g is None or not use:
            return ds, True
        dn = {id(d[0]): self.nodes(fi, d[0]) for d in ds}
        alln = {n for v in dn.values() for n in v}
        out = []
        for d in ds:
            mine = dn[id(d[0])]
            if not mine:
                out.append(d)
                continue
            if any(g.reaches(a, u, self._avoiding(g, alln - {a}, a)) for a in mine for u in use):
                out.append(d)
        entry = any(g.reaches(g.entry, u, self._avoiding(g, alln)) for u in use)
        return out, entry

    # ---- origins
    def origin(self, fi, e, at, depth=0):
        key = (id(fi.node), id(e), id(at), 'o')
        if key in self._memo:
            return self._memo[key]
        if key in self._busy or depth > 12 or e is None:
            return set()
        self._busy.add(key)
        try:
            r = self._origin(fi, e, at, depth)
        finally:
            self._busy.discard(key)
        self._memo[key] = r
        return r

    def _tag(self, fi, kind, what, node):
        return (kind, what, fi.file, getattr(node, 'lineno', 0))

    def _mutable_default(self, callee):
        """False when `callee` is the constructor of a repository class that takes `mutable` defaulting to False"""
        if callee is None or callee.cls is None or callee.name != '__init__':
            return None
        a = callee.node.args
        names = [p.arg for p in a.posonlyargs + a.args]
        dflt = dict(zip(names[len(names) - len(a.defaults):], a.defaults))
        dflt.update({p.arg: d for p, d in zip(a.kwonlyargs, a.kw_defaults) if d is not None})
        d = dflt.get('mutable')
        if isinstance(d, ast.Constant) and d.value is False:
            return False
        return None

    def _origin(self, fi, e, at, depth):
        np_only = lambda tags: {t for t in tags if t[0] in ('np', 'param')}     # noqa: E731
        if isinstance(e, ast.IfExp):
            return self.origin(fi, e.body, at, depth + 1) | self.origin(fi, e.orelse, at, depth + 1)
        if isinstance(e, ast.BoolOp):
            return set().union(*(self.origin(fi, v, at, depth + 1) for v in e.values))
        if isinstance(e, (ast.NamedExpr, ast.Starred)):
            return self.origin(fi, e.value, at, depth + 1)
        if isinstance(e, ast.Name):
            return self._name(fi, e, at, depth)
        if isinstance(e, ast.Attribute):
            if e.attr in ('T', 'real', 'imag'):
                return np_only(self.origin(fi, e.value, at, depth + 1))
            return set()
        if isinstance(e, ast.Subscript):
            sl = e.slice
            parts = sl.elts if isinstance(sl, ast.Tuple) else [sl]
            if any(isinstance(p_, ast.Slice) for p_ in parts) or (isinstance(sl, ast.Constant) and sl.value is Ellipsis):
                return np_only(self.origin(fi, e.value, at, depth + 1))      # basic slicing: a view of the same memory
            return self.element(fi, e.value, sl, at, depth + 1)
        if isinstance(e, ast.Call):
            return self._call(fi, e, at, depth)
        return set()

    def _name(self, fi, e, at, depth):
        ds, entry = self.reaching(fi, e.id, at)
        out = set()
        if entry and e.id in fi.params:
            out.add(('param', e.id))
        elif entry and not self.defs(fi).get(e.id):
            r = self.prog.resolve_name(fi.module, e.id)
            if isinstance(r, tuple) and r[0] == 'const':
                out |= self._static(r[1], r[1].constants[r[2]])
        for st, kind, payload in ds:
            if kind == 'value':
                out |= self.origin(fi, payload[0], st, depth + 1)
            elif kind == 'taint':
                out.add(self._tag(fi, payload[0], payload[1], st))
            elif kind == 'tuple':
                v, i = payload
                if isinstance(v, (ast.Tuple, ast.List)) and i < len(v.elts) and not any(isinstance(x, ast.Starred) for x in v.elts):
                    out |= self.origin(fi, v.elts[i], st, depth + 1)
                elif isinstance(v, ast.Call):
                    callee = resolve_call(self.prog, fi, v)
                    if callee is not None and callee.cls is None and not callee.node.decorator_list:
                        for r in walk_no_nested(callee.node):
                            if isinstance(r, ast.Return) and isinstance(r.value, ast.Tuple) and i < len(r.value.elts):
                                out |= self._from_callee(fi, v, at, callee, self.origin(callee, r.value.elts[i], r, depth + 1), depth)
            elif kind == 'iter':
                tgt, it = payload
                mi = map_iteration(tgt, it)
                if mi is not None and mi[2] == e.id:
                    out |= self.elements(fi, iterated_mapping(it)[0], st, depth + 1)
                elif isinstance(tgt, ast.Name):
                    seq = it
                    if isinstance(seq, ast.Name):
                        seq = single_def_value(fi.node, seq.id) or seq
                    if isinstance(seq, ast.Call) and call_name(seq) in ('chain', 'itertools.chain'):
                        seq = ast.Tuple(elts=[ast.Starred(value=a) for a in seq.args])
                    if isinstance(seq, (ast.Tuple, ast.List, ast.Set)):
                        for x in seq.elts:
                            if isinstance(x, ast.Starred):
                                im = iterated_mapping(x.value)
                                if im is not None and im[1] == 'values':
                                    out |= self.elements(fi, im[0], st, depth + 1)
                            else:
                                out |= self.origin(fi, x, st, depth + 1)
        return out

    def _static(self, mod, e):
        """origin of a module-level constant's value (constructor calls only)"""
        if isinstance(e, ast.Call):
            class _M:
                module, qualname, cls, file, params = mod, '<module>', None, mod.relpath, []
                node = mod.tree
            short = call_name(e).split('.')[-1]
            if short == 'MappingProxyType':
                return {('frozen', 'types.MappingProxyType(…)', mod.relpath, e.lineno)}
            r = self.prog.resolve_name(mod, call_name(e)) if isinstance(e.func, ast.Name) else None
            if isinstance(r, ClassInfo):
                init = r.find_method('__init__')
                if self._mutable_default(init) is False:
                    mk = next((k.value for k in e.keywords if k.arg == 'mutable'), None)
                    if not (isinstance(mk, ast.Constant) and mk.value is True):
                        return {('frozen', f'{r.name}(…) without mutable=True', mod.relpath, e.lineno)}
        return set()

    def _from_callee(self, fi, call, at, callee, tags, depth):
        """translate ('param', p) of the callee into what the caller passes for p"""
        out = set()
        for t in tags:
            if t[0] != 'param':
                out.add(t)
                continue
            a = _bound_arg(callee, call, t[1])
            if a is not None:
                out |= self.origin(fi, a, at, depth + 1)
        return out

    def _call(self, fi, c, at, depth):
        name = call_name(c)
        short = name.split('.')[-1]
        np_only = lambda tags: {t for t in tags if t[0] in ('np', 'param')}     # noqa: E731
        kw = {k.arg: k.value for k in c.keywords if k.arg}

        def const(x, v):
            return isinstance(x, ast.Constant) and x.value is v
        if short == 'broadcast_to':
            return {self._tag(fi, 'np', 'np.broadcast_to(…) returns a read-only view', c)}
        if short == 'sliding_window_view' and not const(kw.get('writeable'), True):
            return {self._tag(fi, 'np', 'sliding_window_view(…) returns a read-only view', c)}
        if short == 'as_strided':
            if const(kw.get('writeable'), False):
                return {self._tag(fi, 'np', 'as_strided(…, writeable=False) returns a read-only view', c)}
            return np_only(self.origin(fi, c.args[0], at, depth + 1)) if c.args else set()
        if short == 'frombuffer' and c.args:
            b = c.args[0]
            if (isinstance(b, ast.Constant) and isinstance(b.value, bytes)) or (
                    isinstance(b, ast.Call) and call_name(b).split('.')[-1] in _IMMUTABLE_BYTES):
                return {self._tag(fi, 'np', 'np.frombuffer over immutable bytes is read-only', c)}
            return set()
        if short == 'MappingProxyType':
            return {self._tag(fi, 'frozen', 'types.MappingProxyType(…) cannot be stored into', c)}
        if isinstance(c.func, ast.Attribute) and c.func.attr == 'copy':
            mk = kw.get('mutable') or (c.args[0] if c.args else None)
            if mk is not None:
                if const(mk, True):
                    return set()
                if const(mk, False):
                    return {self._tag(fi, 'frozen', '.copy(mutable=False)', c)}
            return {t for t in self.origin(fi, c.func.value, at, depth + 1) if t[0] in ('frozen', 'param')}
        if isinstance(c.func, ast.Attribute) and c.func.attr in _VIEW_METHODS:
            return np_only(self.origin(fi, c.func.value, at, depth + 1))
        if short in _VIEW_FUNCS and name.split('.')[0] in ('np', 'numpy') and c.args:
            if short in ('asarray', 'asanyarray') and (len(c.args) > 1 or 'dtype' in kw or const(kw.get('copy'), True)):
                return set()        # a dtype conversion may copy: cannot say
            return np_only(self.origin(fi, c.args[0], at, depth + 1))
        callee = resolve_call(self.prog, fi, c)
        if callee is None:
            return set()
        md = self._mutable_default(callee)
        if md is False:
            mk = kw.get('mutable')
            if mk is None or const(mk, False):
                return {self._tag(fi, 'frozen', f'{callee.cls.name}(…) built without mutable=True refuses item assignment', c)}
            return set()
        if callee.cls is not None and callee.name in ('__init__', '__post_init__'):
            return set()
        if callee.node.decorator_list or depth > 8:
            return set()
        out = set()
        for r in walk_no_nested(callee.node):
            if isinstance(r, ast.Return) and r.value is not None:
                out |= self._from_callee(fi, c, at, callee, self.origin(callee, r.value, r, depth + 1), depth)
        return out

    # ---- elements of mappings
    def elements(self, fi, m, at, depth=0):
        """origins of any element the container expression m may hold at `at` (flow-insensitive)"""
        key = (id(fi.node), id(m), id(at), 'e')
        if key in self._memo:
            return self._memo[key]
        if key in self._busy or depth > 12:
            return set()
        self._busy.add(key)
        out = set()
        try:
            if isinstance(m, ast.Name):
                again = self._restored_everywhere(fi, m.id, at)
                if again is not None:
                    # a completed loop over the map's own keys put a new value at every key, and nothing else has
                    # written into the map since: the elements are what that loop stored
                    out |= self.origin(fi, again.value, again, depth + 1)
                else:
                    for t, st, how in stores_to(fi.node):
                        if isinstance(t, ast.Subscript) and isinstance(t.value, ast.Name) and t.value.id == m.id and how in ('assign', 'ann'):
                            out |= self.origin(fi, _stored_value(t, st), st, depth + 1)
                    out |= self._fillers(fi, m, depth)
            elif isinstance(m, ast.Dict):
                for v in m.values:
                    out |= self.origin(fi, v, at, depth + 1)
            elif isinstance(m, ast.DictComp):
                out |= self.origin(fi, m.value, at, depth + 1)
            elif isinstance(m, (ast.List, ast.Tuple, ast.Set)):
                for v in m.elts:
                    out |= self.origin(fi, v, at, depth + 1)
            elif isinstance(m, (ast.ListComp, ast.GeneratorExp, ast.SetComp)):
                out |= self.origin(fi, m.elt, at, depth + 1)
            elif isinstance(m, ast.IfExp):
                out |= self.elements(fi, m.body, at, depth + 1) | self.elements(fi, m.orelse, at, depth + 1)
            elif isinstance(m, ast.Call):
                callee = resolve_call(self.prog, fi, m)
                if isinstance(m.func, ast.Attribute) and m.func.attr == 'copy' and not m.args:
                    out |= self.elements(fi, m.func.value, at, depth + 1)
                elif callee is not None and callee.cls is None and not callee.node.decorator_list and depth <= 8:
                    for r in walk_no_nested(callee.node):
                        if isinstance(r, ast.Return) and r.value is not None:
                            out |= self._from_callee(fi, m, at, callee, {t for t in self.elements(callee, r.value, r, depth + 1)
                                                                         if t[0] != 'param'}, depth)
                elif callee is None or (callee.cls is not None and callee.name in ('__init__', '__post_init__')):
                    # dict(x) / SpeciesValues(x) / list(x): the elements of the argument
                    for a in m.args:
                        out |= self.elements(fi, a, at, depth + 1)
        finally:
            self._busy.discard(key)
        self._memo[key] = out
        return out

    def _restored_everywhere(self, fi, mname, at):
        """the store `m[k] = V` of a loop `for k in m / m.keys() / for k, v in m.items()` (no break / continue / else,
        k not rebound) that has run to completion whenever `at` is reached - it is an earlier statement of a block that
        holds `at` - with no other write into m (element store, del, update / setdefault / pop / clear, `|=`, rebinding,
        m handed to a call) in the loop or in the statements of that block after it; None when there is none"""
        if at is None:
            return None
        fn = fi.node

        def under(x, roots):
            while x is not None and x is not fn:
                if any(x is r for r in roots):
                    return True
                x = getattr(x, '_parent', None)
            return False
        for lp in walk_no_nested(fn):
            if not isinstance(lp, ast.For) or lp.orelse:
                continue
            im = iterated_mapping(lp.iter)
            if im is None or norm(im[0]) != mname or im[1] not in ('keys', 'items'):
                continue
            kv = lp.target if im[1] == 'keys' else (lp.target.elts[0] if isinstance(lp.target, ast.Tuple) and len(lp.target.elts) == 2
                                                     else None)
            if not isinstance(kv, ast.Name):
                continue
            inner = [x for s in lp.body for x in ast.walk(s)]
            if any(isinstance(x, (ast.Break, ast.Continue)) for x in inner) \
                    or any(isinstance(x, ast.Name) and x.id == kv.id and isinstance(x.ctx, ast.Store) for x in inner):
                continue
            puts = [s for s in lp.body if isinstance(s, ast.Assign) and len(s.targets) == 1 and isinstance(s.targets[0], ast.Subscript)
                    and norm(s.targets[0].value) == mname and isinstance(s.targets[0].slice, ast.Name) and s.targets[0].slice.id == kv.id]
            if len(puts) != 1:
                continue
            par = getattr(lp, '_parent', None)
            block = next((bl for bl in (getattr(par, f, None) for f in ('body', 'orelse', 'finalbody', 'handlers'))
                          if isinstance(bl, list) and any(lp is s for s in bl)), None)
            if block is None:
                continue
            later = block[[s is lp for s in block].index(True) + 1:]
            if not under(at, later):
                continue
            zone = [lp, *later]
            clean = True
            for t, st, how in stores_to(fn):
                b = t.value if isinstance(t, ast.Subscript) else t
                if isinstance(b, ast.Name) and b.id == mname and st is not puts[0] and under(st, zone):
                    clean = False
            for c in calls_in(fn):
                if not under(c, zone):
                    continue
                if isinstance(c.func, ast.Attribute) and isinstance(c.func.value, ast.Name) and c.func.value.id == mname \
                        and c.func.attr in ('update', 'setdefault', 'pop', 'clear', 'popitem', '__setitem__'):
                    clean = False
                if any(isinstance(a_, ast.Name) and a_.id == mname for a_ in [*c.args, *[k.value for k in c.keywords]]) \
                        and getattr(resolve_call(self.prog, fi, c), 'name', '__init__') not in ('__init__', '__post_init__'):
                    clean = False
            if clean:
                return puts[0]
        return None

    def _fillers(self, fi, m, depth):
        """origins of what gets into the local mapping m other than by `m[k] = V`: update / setdefault / `|=` / the
        value m itself is bound to"""
        out = set()
        for t, st, how in stores_to(fi.node):
            if isinstance(t, ast.Name) and t.id == m.id and how == 'aug' and isinstance(st.op, ast.BitOr):
                out |= self.elements(fi, st.value, st, depth + 1)
        for c in calls_in(fi.node):
            if isinstance(c.func, ast.Attribute) and isinstance(c.func.value, ast.Name) and c.func.value.id == m.id:
                if c.func.attr == 'update':
                    for a in c.args:
                        out |= self.elements(fi, a, stmt_of(c), depth + 1)
                    for k in c.keywords:
                        out |= self.origin(fi, k.value, stmt_of(c), depth + 1)
                elif c.func.attr == 'setdefault' and len(c.args) == 2:
                    out |= self.origin(fi, c.args[1], stmt_of(c), depth + 1)
        for st, kind, payload in self.defs(fi).get(m.id, []):
            if kind == 'value':
                out |= self.elements(fi, payload[0], st, depth + 1)
        return out

    def element(self, fi, m, key, at, depth=0):
        """origins of m[key] at statement `at`.  For a local mapping: the stores `m[key] = V` under the same key
        text, when every path from the function entry, from a rebinding of a name the key mentions, and from any other
        write into m passes such a store before reaching `at`; otherwise whatever was ever put into m."""
        if not isinstance(m, ast.Name) or m.id in fi.params or not self.defs(fi).get(m.id):
            if isinstance(m, ast.Call):
                return self.elements(fi, m, at, depth)
            return set()
        fn = fi.node
        ktxt = norm(key)
        stores = [(t, st) for t, st, how in stores_to(fn) if isinstance(t, ast.Subscript) and isinstance(t.value, ast.Name)
                  and t.value.id == m.id and how in ('assign', 'ann')]
        same = [(t, st) for t, st in stores if norm(t.slice) == ktxt]
        g = self.cfg(fi)
        use = self.nodes(fi, at)
        if same and g is not None and use:
            same_n = {n for _t, st in same for n in self.nodes(fi, st)}
            weak = set()
            for nm in {x.id for x in ast.walk(key) if isinstance(x, ast.Name)} | {m.id}:
                for st, kind, payload in self.defs(fi).get(nm, []):
                    weak |= set(self.nodes(fi, st))
            for c in calls_in(fn):
                if isinstance(c.func, ast.Attribute) and isinstance(c.func.value, ast.Name) and c.func.value.id == m.id \
                        and c.func.attr in ('update', 'setdefault', 'pop', 'clear', 'popitem'):
                    weak |= set(self.nodes(fi, stmt_of(c)))
            for t, st in stores:
                if norm(t.slice) != ktxt and not (_const_key(t.slice) and _const_key(key)):
                    weak |= set(self.nodes(fi, st))
            weak -= same_n
            blocked = self._avoiding(g, same_n)
            covered = not any(g.reaches(a, u, blocked) for a in weak | {g.entry} for u in use)
            if covered:
                out = set()
                for t, st in same:
                    mine = self.nodes(fi, st)
                    if any(g.reaches(a, u, self._avoiding(g, same_n - {a}, a)) for a in mine for u in use):
                        out |= self.origin(fi, _stored_value(t, st), st, depth + 1)
                return out
        out = set()
        for t, st in stores:
            if _const_key(t.slice) and _const_key(key) and norm(t.slice) != ktxt:
                continue
            out |= self.origin(fi, _stored_value(t, st), st, depth + 1)
        return out | self._fillers(fi, m, depth + 1)


def _const_key(k):
    return isinstance(k, ast.Constant) or (isinstance(k, ast.Attribute) and isinstance(k.value, ast.Name) and k.value.id[:1].isupper())


def _stored_value(t, st):
    """the expression stored by statement st into target t (None when t is one of several unpacked targets of a
    value that is not a display)"""
    v = getattr(st, 'value', None)
    if isinstance(st, ast.Assign):
        for tgt in st.targets:
            if tgt is t:
                return v
            if isinstance(tgt, (ast.Tuple, ast.List)) and any(el is t for el in tgt.elts):
                if isinstance(v, (ast.Tuple, ast.List)) and len(v.elts) == len(tgt.elts):
                    return v.elts[[el is t for el in tgt.elts].index(True)]
                return None
        return None
    return v


def _bound_arg(callee, call, pname):
    """the argument expression of `call` that binds parameter `pname` of callee (None when it cannot be told)"""
    a = callee.node.args
    names = [p.arg for p in a.posonlyargs + a.args]
    if any(isinstance(x, ast.Starred) for x in call.args) or any(k.arg is None for k in call.keywords):
        return None
    for k in call.keywords:
        if k.arg == pname:
            return k.value
    off = 1 if callee.cls is not None and names[:1] in (['self'], ['cls']) and isinstance(call.func, ast.Attribute) else 0
    if callee.cls is not None and callee.name == '__init__':
        off = 1
    if pname in names:
        i = names.index(pname) - off
        if 0 <= i < len(call.args):
            return call.args[i]
        if i == -1 and isinstance(call.func, ast.Attribute):
            return call.func.value
    return None


def rule_writable(ctx):
    """R7: what is stored into must accept the store."""
    prog = ctx.prog
    w = _Writability(prog)
    fns = [fi for m in prog.src_modules() if m.relpath.startswith('src/AEIC/emissions/') for fi in m.functions.values()]
    summary: dict[tuple[str, str], dict[str, tuple]] = {}      # (file, qualname) -> {param: (what, line)}
    sinks = []          # (fi, written object expr, statement, what, kinds)
    for fi in fns:
        for t, st, how in stores_to(fi.node):
            if isinstance(t, ast.Subscript) and how in ('assign', 'aug', 'ann', 'del'):
                sinks.append((fi, t.value, st, f'store `{norm(t)[:50]}`', ('np', 'frozen')))
            elif isinstance(t, ast.Name) and how == 'aug':
                sinks.append((fi, t, st, f'in-place `{norm(st)[:50]}`', ('np',)))
        for c in calls_in(fi.node):
            st = stmt_of(c)
            short = call_name(c).split('.')[-1]
            if isinstance(c.func, ast.Attribute) and c.func.attr in _INPLACE_METHODS and not call_name(c).startswith(('np.', 'numpy.')):
                sinks.append((fi, c.func.value, st, f'in-place `{norm(c)[:50]}`', ('np',)))
            elif short in _INPLACE_FUNCS and call_name(c).split('.')[0] in ('np', 'numpy') and c.args:
                sinks.append((fi, c.args[0], st, f'in-place `{norm(c)[:50]}`', ('np',)))
            for k in c.keywords:
                if k.arg == 'out' and not isinstance(k.value, ast.Constant):
                    sinks.append((fi, k.value, st, f'`out=` of `{norm(c)[:40]}`', ('np',)))
    n = 0
    results = []
    for fi, obj, st, what, kinds in sinks:
        tags = w.origin(fi, obj, st)
        n += 1
        for t in tags:
            if t[0] == 'param':
                summary.setdefault((fi.file, fi.qualname), {}).setdefault(t[1], (what, st.lineno))
        results.append((fi, obj, st, what, {t for t in tags if t[0] in kinds}))
    # what a callee stores into, its callers must be able to hand over (to a fixpoint over the call graph)
    for _round in range(4):
        changed = False
        for fi in fns:
            for c in calls_in(fi.node):
                callee = resolve_call(prog, fi, c)
                if callee is None or (callee.file, callee.qualname) not in summary:
                    continue
                for pname, (cw, cl) in list(summary[(callee.file, callee.qualname)].items()):
                    a = _bound_arg(callee, c, pname)
                    if a is None:
                        continue
                    st = stmt_of(c)
                    tags = w.origin(fi, a, st)
                    for t in tags:
                        if t[0] == 'param' and t[1] not in summary.setdefault((fi.file, fi.qualname), {}):
                            summary[(fi.file, fi.qualname)][t[1]] = (f'{callee.name}(…): {cw}', st.lineno)
                            changed = True
                    hard = {t for t in tags if t[0] in ('np', 'frozen')}
                    key = (id(c), pname)
                    if hard and not any(r[5:] == (key,) for r in results):
                        results.append((fi, a, st, f'`{norm(a)[:30]}` handed to {callee.name}, which does {cw}', hard, key))
        if not changed:
            break
    for r in results:
        fi, obj, st, what, hard = r[:5]
        ok = not hard
        first = sorted(hard)[0] if hard else None
        ctx.ob('C11-R7', fi, f'{what}: the object written accepts the store', ok,
               'nothing that reaches it is a read-only view or a frozen container' if ok else
               (f'`{norm(obj)[:40]}` can be the object made at {first[2].split("/")[-1]}:{first[3]} - {first[1]} - and storing into it raises '
                f'{"ValueError (destination is read-only)" if first[0] == "np" else "TypeError (frozen)"}: every option '
                'combination that reaches this line fails with an internal error instead of an inventory or a refusal by name'),
               line=st.lineno, nontrivial=not ok or bool(w.defs(fi)))
    ctx.floor('C11-R7', n, 12, 'in-place stores in the emissions package')
    # positive control: an embedded producer that blanks a window of broadcast constants
    ctl = ast.parse('def producer(n, v, w):\n idx = {}\n for k in ("a", "b"):\n  idx[k] = np.broadcast_to(v, (n,))\n'
                    ' idx["c"] = np.full(n, v)\n for k in idx:\n  for arr in (idx[k],):\n   arr[:w.start] = 0.0\n'
                    ' fresh = {}\n for k in idx:\n  fresh[k] = idx[k].copy()\n  fresh[k][:w.start] = 0.0\n return idx, fresh')
    for a_ in ast.walk(ctl):
        for ch in ast.iter_child_nodes(a_):
            if not isinstance(ch, (ast.expr_context, ast.operator, ast.unaryop, ast.cmpop, ast.boolop)):
                ch._parent = a_
    f = ctl.body[0]
    cm = prog.module(CFGE)

    class _F:
        node, params, qualname, name, module, cls, file = f, ['n', 'v', 'w'], 'producer', 'producer', cm, None, '<control>'
    got = [bool({t for t in w.origin(_F, t_.value, st_) if t[0] == 'np'}) for t_, st_, how_ in stores_to(f)
           if isinstance(t_, ast.Subscript) and isinstance(st_.value, ast.Constant)]
    ctx.control('C11-R7', got == [True, False], 'embedded producer: a store into a broadcast_to view is seen, a store into its copy is not')


# ---------------------------------------------------------------- R9 -----
def _is_none(e) -> bool:
    return isinstance(e, ast.Constant) and e.value is None


def _needing_uses(prog, fi, name, depth=0, seen=None):
    """the places in fi (and in the resolved repository functions `name` is handed to, parameter by parameter) where
    the value of local / parameter `name` must be an object - an attribute read, a subscript, an iteration, len(), an
    operand of arithmetic: [(chain of (function, node, binding call or None), text)].  A place some fact on whose
    path tests the value itself (`x is not None`, `if x is None: raise`, an assert on x) is left out."""
    seen = seen or set()
    if (fi.file, fi.qualname, name) in seen or depth > 3:
        return []
    seen = seen | {(fi.file, fi.qualname, name)}
    out = []
    asserted = any(isinstance(s, ast.Assert) and name in names_in(s.test) for s in walk_no_nested(fi.node))
    if asserted:
        return []
    for n in walk_no_nested(fi.node):
        if not (isinstance(n, ast.Name) and n.id == name and isinstance(n.ctx, ast.Load)):
            continue
        p = getattr(n, '_parent', None)
        what = None
        if isinstance(p, ast.Attribute) and p.value is n:
            what = f'`{norm(p)[:40]}`'
        elif isinstance(p, ast.Subscript) and p.value is n:
            what = f'`{norm(p)[:40]}`'
        elif isinstance(p, (ast.For, ast.comprehension)) and p.iter is n:
            what = f'iteration over `{name}`'
        elif isinstance(p, ast.BinOp) or isinstance(p, ast.UnaryOp) and not isinstance(p.op, ast.Not):
            what = f'`{norm(p)[:40]}`'
        elif isinstance(p, ast.Call) and n in p.args and call_name(p) == 'len':
            what = f'`{norm(p)[:40]}`'
        elif isinstance(p, ast.Call) and (n in p.args or any(k.value is n for k in p.keywords)):
            callee = resolve_call(prog, fi, p)
            if callee is None or isinstance(callee, ClassInfo) or not hasattr(callee, 'params'):
                continue
            for pname in callee.params:
                if _bound_arg(callee, p, pname) is n:
                    for chain, w in _needing_uses(prog, callee, pname, depth + 1, seen):
                        out.append(([(fi, p, p)] + chain, w))
            continue
        if what is None:
            continue
        st = stmt_of(n)
        if any(name in names_in(t) for t, _pol in facts_at(fi.node, st if st is not None else n)):
            continue
        out.append(([(fi, n, None)], f'{what} at {fi.file.split("/")[-1]}:{n.lineno}'))
    return out


def _chain_premises(table, chain):
    """(premises, every fact readable?) of a chain of sites: the facts at each site, the parameters of its function
    replaced by what the site before hands over"""
    prem, exact, bind = [], True, {}
    for i, (fi, node, call) in enumerate(chain):
        st = stmt_of(node) or node
        atoms = facts_at(fi.node, st)
        try:
            got = _bound_premises(table, fi, atoms, bind)
        except (_Cannot, RecursionError):
            return [], False
        if len(got) != len(atoms):
            exact = False
        prem += got
        if call is not None and i + 1 < len(chain):
            bind = _call_binding(chain[i + 1][0], call, fi, bind)
            if bind is None:
                return prem, False
    return prem, exact


def _absent_value_verdicts(prog, table, w, fi):
    """for every place of fi (or of a function it hands the value to) that needs a local which some path leaves at
    None: (name, what, site, ok, why)"""
    defs: dict[str, list] = {}
    for t, st, how in stores_to(fi.node):
        if isinstance(t, ast.Name) and isinstance(st, (ast.Assign, ast.AnnAssign)) and st.value is not None \
                and any(x is t for x in (st.targets if isinstance(st, ast.Assign) else [st.target])):
            defs.setdefault(t.id, []).append(st)
    for name, sts in defs.items():
        nones = [s for s in sts if _is_none(s.value)]
        others = [s for s in sts if not _is_none(s.value)]
        if not nones or not others or name in fi.params:
            continue
        if len(local_defs_of(fi, name)) != len(sts):
            continue                # bound in some other way too (loop target, with, unpacking): not followed
        for chain, what in _needing_uses(prog, fi, name):
            site = chain[0][1]
            st = stmt_of(site) or site
            try:
                reach, _entry = w.reaching(fi, name, st)
            except Exception:
                continue
            rs = {id(d[0]) for d in reach}
            rn = [s for s in nones if id(s) in rs]
            if not rn:
                yield name, what, site, True, 'no path brings the None to this place'
                continue
            usep, exact = _chain_premises(table, chain)
            if not exact:
                continue            # a fact on the way that is not about the configuration: not guessed
            verdict = None
            for nd in rn:
                na = facts_at(fi.node, nd)
                np_ = table.premises(fi, na)
                if len(np_) != len(na):
                    continue
                dps = [table.premises(fi, facts_at(fi.node, d)) for d in others if id(d) in rs]
                allp = usep + np_ + [q for dp in dps for q in dp]
                fields = set().union(*[p[2] for p in allp]) if allp else set()
                try:
                    for env in table.tab.assignments(fields):
                        def sat(ps):
                            return all(bool(table.tab.ev(e, dict(env), {})) == pol for e, pol, _f, _t in ps)
                        if sat(usep) and sat(np_) and not any(sat(dp) for dp in dps):
                            verdict = (nd, env)
                            break
                except _Cannot:
                    verdict = None
                    continue
                if verdict:
                    break
            if verdict is None:
                yield name, what, site, True, 'every configuration that reaches the use also takes a path that computes the value'
                continue
            nd, env = verdict
            envt = ', '.join(f'{k}={getattr(v, "name", v)}' for k, v in sorted(env.items()))[:160]
            via = ' -> '.join(c[0].name for c in chain)
            made = ' | '.join(' and '.join(p[3] for p in table.premises(fi, facts_at(fi.node, d))) or 'always' for d in others)
            yield name, what, site, False, (
                f'`{name}` is still the None of line {nd.lineno} when {what} needs it (through {via}): the value is computed only '
                f'under [{made[:160]}], but the use is reached under [{(" and ".join(p[3] for p in usep) or "every configuration")[:200]}] '
                f'- e.g. {envt}: a documented option combination ends in an AttributeError / TypeError on None instead of an '
                'inventory or a refusal by name')


def rule_absent_values(ctx, table):
    """R9: a value that is left out under some configurations is not needed under them."""
    prog = ctx.prog
    w = _Writability(prog)
    fns = [fi for m in prog.src_modules() if m.relpath.startswith('src/AEIC/emissions/') for fi in m.functions.values()]
    for fi in fns:
        for name, what, site, ok, why in _absent_value_verdicts(prog, table, w, fi):
            ctx.ob('C11-R9', fi, f'`{name}` (None unless computed) needed by {what}', ok, why, line=site.lineno)
    # positive control: an embedded function that computes a value under one switch and needs it under another / the same
    ctl = ast.parse('def f(a):\n x = None\n if config.emissions.pmvol_enabled:\n  x = a + 1\n'
                    ' if config.emissions.pmnvol_enabled:\n  return x.shape\n if config.emissions.pmvol_enabled:\n  return x.size\n'
                    ' if x is not None:\n  return x.ndim\n return 0')
    for a_ in ast.walk(ctl):
        for ch in ast.iter_child_nodes(a_):
            if not isinstance(ch, (ast.expr_context, ast.operator, ast.unaryop, ast.cmpop, ast.boolop)):
                ch._parent = a_
    f = ctl.body[0]
    cm = prog.module(CFGE)

    class _F:
        node, params, qualname, name, module, cls, file = f, ['a'], 'f', 'f', cm, None, '<control>'
    got = [ok for _n, _w, _s, ok, _y in sorted(_absent_value_verdicts(prog, table, w, _F), key=lambda r: r[2].lineno)]
    ctx.control('C11-R9', got == [False, True], 'embedded function: a value computed under one switch and needed under another is '
                'seen, the same value needed under its own switch or behind `is not None` is not')


def run(ctx):
    groups = implication_table(ctx)        # the table object; .groups is the grouping by switch
    rule_lifecycle(ctx, groups)
    ctx.stats['species_groups'] = {k: sorted(v['species']) + [f'{s}?' for s in v['conditional']] for k, v in groups.groups.items()}
    ctx.stats['species_conditions'] = {k: v for k, v in sorted(groups.text.items())}
    rule_dispatch(ctx)
    rule_reads(ctx, groups)
    flows = rule_stores(ctx, groups)
    rule_fresh(ctx, flows)
    rule_elements(ctx)
    rule_switches(ctx, groups)
    rule_writable(ctx)
    rule_absent_values(ctx, groups)
    ctx.assumptions += ['the numeric balance of each configuration is C01; here only absence of internal errors '
                        'and of switched-off species is decided, per site, for every enum member']
