"""C11 — every documented emissions option combination works or is refused by name.

The option product (~41k combinations) is never enumerated: the defects that
can break it are of four kinds, and each kind is a per-site rule that holds for
every member of the enum at that site.

R1  dispatch exhaustiveness (T-AGREE, finite): every dispatch over a method
    enum handles each member (read from the enum class) by an explicit arm, or
    falls to a default arm that raises NotImplementedError/ValueError whose
    message interpolates the method value.
R2  guarded key reads (T-GUARD): a subscript read m[Species.K] of a species map
    whose keys depend on configuration is dominated by `Species.K in m`, by a
    configuration guard under which the producer inserts K, or (for a map built
    in the same function) by an unconditional store of that key; a read under
    a variable key is safe when the key walks the map's own keys (`for k in m`,
    `.keys()`, `for k, v in m.items()`, also inside list()/sorted(), statement
    or comprehension) or the keys of a mapping for whose every key an earlier
    loop stored into m.
R3  switched-off species stay out: every store m[Species.K] = … into an index
    map handed back by the trajectory / LTO producer or by a function of the
    same module reachable from it (found through the call graph, not by name)
    is control-dependent (in the function or at all its call sites) on a fact
    implying K's switch is on, or stores a literal zero.  A store under a variable key needs `key in enabled_species`,
    or a key that is already in the map (the value reads the map at that key,
    or the key walks the map's own keys), or a key that walks the result of a
    helper which itself inserts every species only under its switch.
    The implication table (species -> `<label>_enabled` switch, plus further
    conditions) is computed by evaluating EmissionsConfig.enabled_species over
    a concrete domain of Species members / strings / literal collections with
    configuration reads kept symbolic: literal loops unrolled, local closures
    entered with their arguments bound, early return / continue turned into
    path conditions - so it does not depend on how the groups are spelt
    (repeated calls, a table and a loop, plain ifs, add / update / |=).
R4  element type of thrust-mode arrays: iterating a ThrustModeArray yields raw
    values; attributes that exist only on ThrustMode may be used only on
    ThrustMode(x) / as_enum() elements.
R5  source switches: a component is summed into the totals under the same
    configuration switch that decides whether it is computed.
R6  switches: every `<label>_enabled` the table reads exists on EmissionsConfig,
    and a species that has a switch of its own is enabled by that switch.
"""

from __future__ import annotations

import ast

from ..astutil import first_stmt, last_stmt  # noqa: F401
from ..astutil import (ancestors, call_name, calls_in, conjuncts, enclosing_iterations, guards_of, iterated_mapping, map_iteration,
                       names_in, norm, single_def_value, stmt_of, stores_to, walk_no_nested)
from ..loader import ClassInfo, FunctionInfo
from ..resolve import callers_of, closure, expr_class, resolve_call

CFGE = 'config/emissions.py'
# entry points of the two per-flight producers; the functions that build (parts of) their index maps are found
# through the call graph, not by name (a helper may be split off, merged back or renamed)
PRODUCER_ENTRIES = {
    'emissions/trajectory.py': 'get_trajectory_emissions',
    'emissions/lto.py': 'get_LTO_emissions',
}


def _index_maps(fi) -> set[str]:
    """names of the local species maps fi hands back: `return m`, or the index argument of the EmissionsSubset it returns"""
    out = set()
    for r in walk_no_nested(fi.node):
        if isinstance(r, ast.Return) and r.value is not None:
            v = r.value
            if isinstance(v, ast.Name):
                out.add(v.id)
            elif isinstance(v, ast.Call) and call_name(v).split('[')[0] == 'EmissionsSubset':
                a = next((k.value for k in v.keywords if k.arg == 'indices'), v.args[0] if v.args else None)
                if isinstance(a, ast.Name):
                    out.add(a.id)
    return out - set(fi.params)


def _producers(prog, rel):
    """the entry producer of module rel and every function of the same module reachable from it that writes
    `m[Species.K] = …` into a species map it returns: [(function, names of its index maps)]"""
    m = prog.module(rel)
    entry = m.func(PRODUCER_ENTRIES[rel])
    out = [(entry, _index_maps(entry))]
    for g in sorted(closure(prog, [entry]), key=lambda f: f.node.lineno):
        if g is entry or g.module is not m:
            continue
        maps = _index_maps(g)
        if any(isinstance(t, ast.Subscript) and norm(t.value) in maps and isinstance(t.slice, ast.Attribute)
               and norm(t.slice.value) == 'Species' for t, _, _ in stores_to(g.node)):
            out.append((g, maps))
    return out
READ_SCOPE = ['emissions/emission.py', 'emissions/trajectory.py', 'emissions/lto.py', 'emissions/apu.py', 'emissions/gse.py']


# ---------------------------------------------------------------- facts ---
def early_exit_facts(fn: ast.AST, node: ast.AST):
    """Facts established by preceding `if C: return/raise` in enclosing blocks."""
    out = []
    child = node
    for a in ancestors(node):
        body_lists = [getattr(a, f, None) for f in ('body', 'orelse', 'finalbody')]
        for bl in body_lists:
            if isinstance(bl, list) and any(child is s for s in bl):
                for s in bl:
                    if s is child:
                        break
                    if isinstance(s, ast.If) and isinstance(last_stmt(s.body), (ast.Return, ast.Raise, ast.Continue)) \
                            and not s.orelse:
                        out.append((s.test, False))
        if a is fn:
            break
        child = a
    return out


def facts_at(fn: ast.AST, node: ast.AST):
    fs = [(t, pol) for t, pol, _ in guards_of(node)] + early_exit_facts(fn, node)
    # match arms: `match subject: case Enum.M:` gives subject == Enum.M
    for a in ancestors(node):
        if isinstance(a, ast.match_case):
            m = getattr(a, '_parent', None)
            if isinstance(m, ast.Match):
                fs.append((ast.Compare(left=m.subject, ops=[ast.In()], comparators=[a.pattern]), True))
    atoms = []
    for t, pol in fs:
        if isinstance(t, ast.Compare) and isinstance(t.ops[0], ast.In) and isinstance(t.comparators[0], ast.pattern):
            atoms.append((t, pol))
        else:
            atoms.extend(conjuncts(t, pol))
    return atoms


class _Cannot(Exception):
    pass


class _Sym:
    """a value the table interpreter does not know concretely (a configuration read, …)"""

    def __init__(self, text):
        self.text = text


class _SpeciesSetInterp:
    """Evaluates the body of `enabled_species` over a small concrete domain - Species members, strings, None,
    tuples / lists / dicts of those - keeping every test on configuration state symbolic.  Literal loops are
    unrolled, local closures are entered with their arguments bound (positional, *rest, keyword, defaults),
    early returns turn into path conditions.  The outcome is, for each species put into the returned set
    (`.add`, `.update`, `|=`, set displays), the list of symbolic conditions on its path.  Whatever falls outside
    (a loop over something not literal, an unknown statement) raises _Cannot - the rule is then undecided."""

    def __init__(self, fn: ast.AST):
        self.fn = fn
        self.out: list[tuple[str, tuple[tuple[str, bool], ...]]] = []
        rets = [r.value for r in walk_no_nested(fn) if isinstance(r, ast.Return) and r.value is not None]
        if not rets or not all(isinstance(r, ast.Name) for r in rets) or len({r.id for r in rets}) != 1:
            raise _Cannot('the property does not return one named set')
        self.result = rets[0].id

    # ---- expressions
    def ev(self, e, env):
        if isinstance(e, ast.Constant):
            return e.value
        if isinstance(e, ast.Attribute) and isinstance(e.value, ast.Name) and e.value.id == 'Species':
            return ('sp', e.attr)
        if isinstance(e, ast.Name):
            return env[e.id] if e.id in env else _Sym(e.id)
        if isinstance(e, (ast.Tuple, ast.List, ast.Set)):
            out = []
            for x in e.elts:
                if isinstance(x, ast.Starred):
                    v = self.ev(x.value, env)
                    if not isinstance(v, (tuple, list)):
                        raise _Cannot(f'cannot unpack `{norm(x)}`')
                    out.extend(v)
                else:
                    out.append(self.ev(x, env))
            return tuple(out)
        if isinstance(e, ast.Dict):
            if any(k is None for k in e.keys):
                raise _Cannot('dict unpacking')
            return {self._hashable(self.ev(k, env)): self.ev(v, env) for k, v in zip(e.keys, e.values)}
        if isinstance(e, ast.Subscript):
            b, i = self.ev(e.value, env), self.ev(e.slice, env) if not isinstance(e.slice, ast.Slice) else None
            if isinstance(b, (tuple, list)) and isinstance(i, int) and -len(b) <= i < len(b):
                return b[i]
            if isinstance(b, dict) and not isinstance(i, _Sym) and i in b:
                return b[i]
            return _Sym(norm(e))
        if isinstance(e, ast.Attribute):
            b = self.ev(e.value, env)
            if isinstance(b, tuple) and len(b) == 2 and b[0] == 'sp' and e.attr == 'name':
                return b[1]
            return _Sym(norm(e))
        if isinstance(e, ast.JoinedStr):
            parts = []
            for x in e.values:
                v = self.ev(x.value, env) if isinstance(x, ast.FormattedValue) else x.value
                if not isinstance(v, str) or (isinstance(x, ast.FormattedValue) and (x.conversion != -1 or x.format_spec)):
                    return _Sym(norm(e))
                parts.append(v)
            return ''.join(parts)
        if isinstance(e, ast.Call):
            f = e.func
            if isinstance(f, ast.Attribute) and not e.args and not e.keywords and f.attr in ('lower', 'upper', 'items', 'keys', 'values'):
                b = self.ev(f.value, env)
                if isinstance(b, str) and f.attr in ('lower', 'upper'):
                    return getattr(b, f.attr)()
                if isinstance(b, dict) and f.attr in ('items', 'keys', 'values'):
                    return tuple(getattr(b, f.attr)()) if f.attr != 'items' else tuple((k, v) for k, v in b.items())
                return _Sym(norm(e))
            if isinstance(f, ast.Name) and f.id == 'getattr' and len(e.args) == 2 and norm(e.args[0]) == 'self':
                a = self.ev(e.args[1], env)
                return _Sym(f'self.{a}') if isinstance(a, str) else _Sym(norm(e))
            if isinstance(f, ast.Name) and f.id in ('tuple', 'list', 'set', 'frozenset', 'sorted') and len(e.args) <= 1 and not e.keywords:
                if not e.args:
                    return ()
                v = self.ev(e.args[0], env)
                return tuple(v) if isinstance(v, (tuple, list)) else _Sym(norm(e))
            return _Sym(norm(e))
        if isinstance(e, ast.Compare) and len(e.ops) == 1 and isinstance(e.ops[0], (ast.Is, ast.IsNot, ast.Eq, ast.NotEq)):
            l, r = self.ev(e.left, env), self.ev(e.comparators[0], env)
            if not isinstance(l, _Sym) and not isinstance(r, _Sym):
                eq = l == r
                return eq if isinstance(e.ops[0], (ast.Is, ast.Eq)) else not eq
            return _Sym(norm(e))
        if isinstance(e, ast.UnaryOp) and isinstance(e.op, ast.Not):
            v = self.ev(e.operand, env)
            return _Sym(norm(e)) if isinstance(v, _Sym) else (not v)
        if isinstance(e, ast.UnaryOp) and isinstance(e.op, ast.USub):
            v = self.ev(e.operand, env)
            return -v if isinstance(v, int) and not isinstance(v, bool) else _Sym(norm(e))
        return _Sym(norm(e))

    @staticmethod
    def _hashable(v):
        if isinstance(v, _Sym):
            raise _Cannot('symbolic dict key')
        return v

    def _test_text(self, test, env):
        """text of a symbolic test with what is concretely known substituted (getattr(self, f'{label}_enabled')
        -> self.co2_enabled); a leading `not` is peeled into the polarity"""
        pol = True
        while isinstance(test, ast.UnaryOp) and isinstance(test.op, ast.Not):
            test, pol = test.operand, not pol
        v = self.ev(test, env)
        return (v.text if isinstance(v, _Sym) else norm(test)), pol

    # ---- statements
    def record(self, v, guards):
        if isinstance(v, tuple) and len(v) == 2 and v[0] == 'sp' and isinstance(v[1], str):
            self.out.append((v[1], tuple(guards)))
        else:
            raise _Cannot('something that is not a Species member is put into the set')

    def record_all(self, v, guards):
        if isinstance(v, tuple) and len(v) == 2 and v[0] == 'sp' and isinstance(v[1], str):
            raise _Cannot('a single member where a collection is expected')
        if not isinstance(v, (tuple, list)):
            raise _Cannot('the collection added to the set is not known')
        for x in v:
            self.record(x, guards)

    def call(self, c: ast.Call, env, guards):
        f = c.func
        if isinstance(f, ast.Attribute) and norm(f.value) == self.result:
            if f.attr == 'add' and len(c.args) == 1:
                return self.record(self.ev(c.args[0], env), guards)
            if f.attr == 'update':
                for a in c.args:
                    self.record_all(self.ev(a, env), guards)
                return
            raise _Cannot(f'`{norm(c)[:50]}` on the result set')
        if isinstance(f, ast.Name) and isinstance(env.get(f.id), ast.FunctionDef):
            d = env[f.id]
            a = d.args
            pos = []
            for x in c.args:
                if isinstance(x, ast.Starred):
                    v = self.ev(x.value, env)
                    if not isinstance(v, (tuple, list)):
                        raise _Cannot(f'cannot unpack `{norm(x)}`')
                    pos.extend(v)
                else:
                    pos.append(self.ev(x, env))
            new = dict(env)
            names = [p.arg for p in a.posonlyargs + a.args]
            defaults = dict(zip(names[len(names) - len(a.defaults):], a.defaults))
            for i, nme in enumerate(names):
                if i < len(pos):
                    new[nme] = pos[i]
                elif nme in defaults:
                    new[nme] = self.ev(defaults[nme], env)
            rest = pos[len(names):]
            if a.vararg is not None:
                new[a.vararg.arg] = tuple(rest)
            elif rest:
                raise _Cannot('too many arguments')
            for p, dflt in zip(a.kwonlyargs, a.kw_defaults):
                if dflt is not None:
                    new[p.arg] = self.ev(dflt, env)
            for k in c.keywords:
                if k.arg is None:
                    raise _Cannot('**kwargs')
                new[k.arg] = self.ev(k.value, env)
            self.block(d.body, new, list(guards))
            return
        if any(isinstance(x, ast.Name) and x.id == self.result for x in ast.walk(c)):
            raise _Cannot(f'the result set escapes into `{norm(c)[:50]}`')
        # any other call cannot change the set

    def block(self, stmts, env, guards):
        """runs stmts; 'return' / 'continue' when every path through them left that way, None when some path falls
        through (the paths that left are then excluded by the path condition)"""
        for i, st in enumerate(stmts):
            if isinstance(st, (ast.Pass, ast.Global, ast.Nonlocal, ast.Import, ast.ImportFrom)):
                continue
            if isinstance(st, ast.FunctionDef):
                env[st.name] = st
            elif isinstance(st, ast.Return):
                return 'return'
            elif isinstance(st, ast.Continue):
                return 'continue'
            elif isinstance(st, ast.Expr):
                if isinstance(st.value, ast.Call):
                    self.call(st.value, env, guards)
                elif not isinstance(st.value, ast.Constant):
                    raise _Cannot(f'statement `{norm(st)[:50]}`')
            elif isinstance(st, (ast.Assign, ast.AnnAssign)):
                tg = st.targets if isinstance(st, ast.Assign) else [st.target]
                if st.value is None:
                    continue
                if len(tg) != 1 or not isinstance(tg[0], ast.Name):
                    raise _Cannot(f'assignment `{norm(st)[:50]}`')
                if tg[0].id == self.result:
                    v = st.value
                    if isinstance(v, ast.Call) and call_name(v) in ('set', 'frozenset') and not v.args:
                        continue
                    if isinstance(v, ast.Set) or (isinstance(v, ast.Call) and call_name(v) == 'set' and len(v.args) == 1):
                        self.record_all(self.ev(v if isinstance(v, ast.Set) else v.args[0], env), guards)
                        continue
                    raise _Cannot(f'the result set is rebound: `{norm(st)[:50]}`')
                env[tg[0].id] = self.ev(st.value, env)
            elif isinstance(st, ast.AugAssign):
                if isinstance(st.target, ast.Name) and st.target.id == self.result and isinstance(st.op, ast.BitOr):
                    self.record_all(self.ev(st.value, env), guards)
                elif isinstance(st.target, ast.Name):
                    env[st.target.id] = _Sym(st.target.id)
                else:
                    raise _Cannot(f'statement `{norm(st)[:50]}`')
            elif isinstance(st, ast.For):
                seq = self.ev(st.iter, env)
                if isinstance(seq, dict):
                    seq = tuple(seq)
                if not isinstance(seq, (tuple, list)) or st.orelse:
                    raise _Cannot(f'loop over `{norm(st.iter)[:50]}`, which is not a literal collection')
                for item in seq:
                    if isinstance(st.target, ast.Name):
                        env[st.target.id] = item
                    elif isinstance(st.target, (ast.Tuple, ast.List)) and isinstance(item, (tuple, list)) \
                            and len(item) == len(st.target.elts) and all(isinstance(x, ast.Name) for x in st.target.elts):
                        for x, v in zip(st.target.elts, item):
                            env[x.id] = v
                    else:
                        raise _Cannot(f'loop target `{norm(st.target)}`')
                    if any(isinstance(x, ast.Break) for x in walk_no_nested(st)):
                        raise _Cannot('break in a loop')
                    if self.block(st.body, env, guards) == 'return':
                        return 'return'
            elif isinstance(st, ast.If):
                v = self.ev(st.test, env)
                if not isinstance(v, _Sym):
                    r = self.block(st.body if v else st.orelse, env, guards)
                    if r:
                        return r
                    continue
                g_true = [self._test_text(ast.UnaryOp(ast.Not(), t) if not p else t, env) for t, p in conjuncts(st.test, True)]
                g_false = [self._test_text(ast.UnaryOp(ast.Not(), t) if not p else t, env) for t, p in conjuncts(st.test, False)]
                e1, e2 = dict(env), dict(env)
                r1 = self.block(st.body, e1, guards + g_true)
                r2 = self.block(st.orelse, e2, guards + g_false)
                if r1 and r2:
                    if r1 != r2:
                        raise _Cannot('one branch returns and the other continues')
                    return r1
                if r1 or r2:
                    merged = e2 if r1 else e1          # only the branch that falls through goes on
                else:
                    merged = {k: (e1[k] if k in e1 and k in e2 and e1[k] is e2[k] else _Sym(k)) for k in set(e1) | set(e2)}
                env.clear()
                env.update(merged)
                if r1:
                    guards = guards + g_false
                elif r2:
                    guards = guards + g_true
            else:
                raise _Cannot(f'statement `{norm(st)[:50]}`')
        return None


def implication_table(ctx):
    """group label -> species, from EmissionsConfig.enabled_species: which `<label>_enabled` switch (and which
    further condition) each species needs to get into the set - computed from what the property *does*, not from
    how its calls are spelt."""
    m = ctx.prog.module(CFGE)
    fi = m.func('EmissionsConfig.enabled_species')
    groups = {}
    try:
        it = _SpeciesSetInterp(fi.node)
        it.block(fi.node.body, {}, [])
    except _Cannot as e:
        ctx.undecided('C11-R3/table', fi, 'enabled_species', f'cannot evaluate which species each switch enables: {e}')
    by_sp: dict[str, list] = {}
    for sp, guards in it.out:
        by_sp.setdefault(sp, []).append(guards)
    for sp, paths in by_sp.items():
        if len(paths) != 1:
            ctx.undecided('C11-R3/table', fi, f'Species.{sp}', f'added on {len(paths)} different paths')
        sw = [(t, pol) for t, pol in paths[0] if t.startswith('self.') and t.endswith('_enabled')
              and t[len('self.'):].isidentifier()]
        extra = [('' if pol else 'not ') + t for t, pol in paths[0] if (t, pol) not in sw]
        if len(sw) != 1 or not sw[0][1]:
            ctx.undecided('C11-R3/table', fi, f'Species.{sp}',
                          f'enabled under {[("" if p else "not ") + t for t, p in paths[0]]}: not exactly one `<label>_enabled` switch')
        label = sw[0][0][len('self.'):-len('_enabled')]
        groups.setdefault(label, {'species': set(), 'conditional': {}})
        if extra:
            groups[label]['conditional'][sp] = extra
        else:
            groups[label]['species'].add(sp)
    # R6: a species that has a switch of its own must be enabled by that switch
    ec = m.cls('EmissionsConfig')
    own = set(ec.all_fields()) | set(ec.methods)
    for label in sorted(groups):
        if f'{label}_enabled' not in own:
            ctx.ob('C11-R6', fi, f'switch `{label}_enabled` exists', False,
                   f'enabled_species reads `self.{label}_enabled`, which EmissionsConfig does not have: every use of '
                   f'enabled_species fails with AttributeError', line=fi.node.lineno)
    for label, g in sorted(groups.items()):
        for sp in sorted(g['species'] | set(g['conditional'])):
            mine = f'{sp.lower()}_enabled'
            if mine in own and sp.lower() != label:
                ctx.ob('C11-R6', fi, f'Species.{sp} enabled by `{label}_enabled`', False,
                       f'EmissionsConfig has `{mine}` (from {sp.lower()}_method), but enabled_species puts Species.{sp} in the '
                       f'`{label}` group: switching {sp} off has no effect and it keeps being computed (and switching '
                       f'{label.upper()} off removes it)', line=fi.node.lineno)
            else:
                ctx.ob('C11-R6', fi, f'Species.{sp} enabled by `{label}_enabled`', True,
                       'own switch' if sp.lower() == label else 'member of a multi-species group without a switch of its own',
                       line=fi.node.lineno, nontrivial=False)
    ctx.floor('C11-R3/table', len(groups), 7, 'species groups in enabled_species')
    return groups


def species_enabled_by(atoms, K: str, groups, keyvar: str | None = None) -> str | None:
    """Does some fact imply species K is switched on?  Returns the fact text."""
    label = next((l for l, g in groups.items() if K in g['species'] or K in g['conditional']), None)
    for t, pol in atoms:
        txt = norm(t) if not (isinstance(t, ast.Compare) and isinstance(t.comparators[0], ast.pattern)) else None
        if txt is not None and pol:
            # Species.J in config.emissions.enabled_species
            if isinstance(t, ast.Compare) and isinstance(t.ops[0], ast.In) and 'enabled_species' in norm(t.comparators[0]):
                j = t.left.attr if isinstance(t.left, ast.Attribute) else None
                if j == K:
                    return txt
                if j and label and j in groups[label]['species'] and K in groups[label]['species']:
                    return txt
                if keyvar and norm(t.left) == keyvar:
                    return txt
            if label and txt == f'config.emissions.{label}_enabled' and K in groups[label]['species']:
                return txt
        if txt is not None and not pol and label and K in groups[label]['species']:
            # not (not enabled or method is NONE)  -> handled through conjuncts with pol False
            if txt in (f'not config.emissions.{label}_enabled',):
                return 'not (' + txt + ')'
            if txt == f'config.emissions.{label}_method is {_enum_of(label)}.NONE' or \
                    txt == f'config.emissions.{label}_method == {_enum_of(label)}.NONE':
                return 'not (' + txt + ')'
        if txt is None and pol and label and K in groups[label]['species']:
            # inside a match arm on config.emissions.<label>_method with a non-NONE member
            subj = norm(t.left)
            if subj == f'config.emissions.{label}_method':
                pats = _pattern_members(t.comparators[0])
                if pats and 'NONE' not in pats:
                    return f'case {"|".join(sorted(pats))} of {subj}'
    return None


def _enum_of(label):
    return {'nox': 'EINOxMethod', 'hc': 'EINOxMethod', 'co': 'EINOxMethod', 'pmvol': 'PMvolMethod',
            'pmnvol': 'PMnvolMethod'}.get(label, '?')


def _pattern_members(p) -> set[str] | None:
    if isinstance(p, ast.MatchValue) and isinstance(p.value, ast.Attribute):
        return {p.value.attr}
    if isinstance(p, ast.MatchOr):
        out = set()
        for q in p.patterns:
            r = _pattern_members(q)
            if r is None:
                return None
            out |= r
        return out
    return None


def is_literal_zero(v: ast.AST) -> bool:
    if isinstance(v, ast.Constant) and v.value in (0, 0.0):
        return True
    if isinstance(v, ast.Call):
        cn = call_name(v)
        if cn in ('np.zeros', 'np.zeros_like', 'numpy.zeros'):
            return True
        if cn == 'ThrustModeValues' and (not v.args or (len(v.args) == 1 and isinstance(v.args[0], ast.Constant)
                                                         and v.args[0].value in (0, 0.0))):
            return True
    return False


# ---------------------------------------------------------------- R1 -----
def rule_dispatch(ctx):
    prog = ctx.prog
    cm = prog.module(CFGE)
    ec = cm.cls('EmissionsConfig')
    fields = ec.annotated_fields()
    sites = 0
    for rel in ('emissions/trajectory.py', 'emissions/lto.py', 'emissions/apu.py', 'emissions/emission.py', 'emissions/utils.py'):
        m = prog.module(rel)
        for fi in m.functions.values():
            # match statements
            for x in walk_no_nested(fi.node):
                if isinstance(x, ast.Match) and norm(x.subject).startswith('config.emissions.') \
                        and norm(x.subject).endswith('_method'):
                    attr = norm(x.subject).split('.')[-1]
                    enum = prog.resolve_class_expr(cm, fields[attr]) if attr in fields else None
                    if enum is None:
                        ctx.undecided('C11-R1', fi, norm(x.subject), 'cannot resolve the method enum')
                    members = [k for k, v in enum.class_assignments().items() if isinstance(v, ast.Constant)]
                    handled = set()
                    default = None
                    for c in x.cases:
                        pm = _pattern_members(c.pattern)
                        if pm is None:
                            default = c
                        else:
                            handled |= pm
                    sites += 1
                    _dispatch_verdict(ctx, fi, x, attr, members, handled, default.body if default else None)
            # if / elif chains on `config.emissions.X_method is Enum.M`
            for x in walk_no_nested(fi.node):
                if isinstance(x, ast.If) and not (isinstance(getattr(x, '_parent', None), ast.If)
                                                  and x in getattr(x._parent, 'orelse', [])):
                    chain, cur, attr = [], x, None
                    while isinstance(cur, ast.If):
                        t = cur.test
                        mem = None
                        if isinstance(t, ast.Compare) and len(t.ops) == 1 and isinstance(t.ops[0], (ast.Is, ast.Eq)) \
                                and norm(t.left).startswith('config.emissions.') and norm(t.left).endswith('_method') \
                                and isinstance(t.comparators[0], ast.Attribute):
                            mem = t.comparators[0].attr
                            attr = norm(t.left).split('.')[-1]
                        if mem is None:
                            break
                        chain.append(mem)
                        nxt = cur.orelse
                        if len(nxt) == 1 and isinstance(nxt[0], ast.If):
                            cur = nxt[0]
                        else:
                            cur = nxt
                    if len(chain) >= 2 and attr in fields:
                        enum = prog.resolve_class_expr(cm, fields[attr])
                        members = [k for k, v in enum.class_assignments().items() if isinstance(v, ast.Constant)]
                        handled = set(chain)
                        # an early `if … method is NONE: return` before the chain also handles NONE
                        for t, pol in early_exit_facts(fi.node, x):
                            for tt, pp in conjuncts(t, pol):
                                if not pp and isinstance(tt, ast.Compare) and attr in norm(tt.left) \
                                        and isinstance(tt.comparators[0], ast.Attribute):
                                    handled.add(tt.comparators[0].attr)
                        sites += 1
                        _dispatch_verdict(ctx, fi, x, attr, members, handled, cur if isinstance(cur, list) else None)
    ctx.floor('C11-R1', sites, 5, 'method dispatch sites')


def _dispatch_verdict(ctx, fi, node, attr, members, handled, default_body):
    missing = [m for m in members if m not in handled]
    raises = None
    if default_body:
        for s in default_body:
            if isinstance(s, ast.Raise) and s.exc is not None:
                raises = s
    named = raises is not None and isinstance(raises.exc, ast.Call) \
        and call_name(raises.exc) in ('NotImplementedError', 'ValueError') \
        and f'config.emissions.{attr}' in norm(raises.exc)
    for mem in members:
        if mem in handled:
            ctx.ob('C11-R1', fi, f'{attr}: member {mem} has an explicit arm', True, 'explicit arm', line=node.lineno,
                   nontrivial=False)
        else:
            ctx.ob('C11-R1', fi, f'{attr}: member {mem} falls to the default arm', bool(named),
                   'default arm raises NotImplementedError/ValueError naming the method value' if named else
                   (f'{mem} is neither handled nor refused by name: the call continues with unset locals / '
                    'returns nothing (an internal error or a silently wrong inventory)'), line=node.lineno)
    if not missing:
        ctx.ob('C11-R1', fi, f'{attr}: dispatch covers {sorted(handled)}', True, 'all members handled explicitly',
               line=node.lineno)


def _governing(node, keyvar: str):
    """the iteration that binds `keyvar` around node: (owner, map_iteration result or None, iter expr).  The
    key variable may be the loop target itself (`for k in …`) or the key half of `for k, v in m.items()`."""
    for owner, tgt, it in enclosing_iterations(node):
        mi = map_iteration(tgt, it)
        if mi is not None and mi[1] == keyvar:
            return owner, mi, it
        if mi is None and isinstance(tgt, ast.Name) and tgt.id == keyvar:
            return owner, None, it
    return None


# ---------------------------------------------------------------- R2 -----
def rule_reads(ctx, groups):
    prog = ctx.prog
    n = 0
    for rel in READ_SCOPE:
        m = prog.module(rel)
        for fi in m.functions.values():
            for x in walk_no_nested(fi.node):
                if not (isinstance(x, ast.Subscript) and isinstance(x.ctx, ast.Load)):
                    continue
                key = x.slice
                is_species_key = isinstance(key, ast.Attribute) and norm(key.value) == 'Species'
                is_var_key = isinstance(key, ast.Name) and key.id in ('species', 'sp')
                if not (is_species_key or is_var_key):
                    continue
                base = x.value
                btxt = norm(base)
                # only maps of species: parameter annotated SpeciesValues, local SpeciesValues(), attr chains *emissions/*indices
                cls = expr_class(prog, fi, base) if isinstance(base, ast.Name) else None
                if isinstance(base, ast.Name):
                    if not (cls is not None and cls.name == 'SpeciesValues') and base.id not in (
                            'indices', 'emissions', 'gse', 'lto_indices', 'lto_emissions', 'trajectory', 'lto', 'apu',
                            'nominal', 'result'):
                        continue
                elif not any(s in btxt for s in ('emissions', 'indices')):
                    continue
                n += 1
                K = key.attr if is_species_key else None
                ktxt = norm(key)
                atoms = facts_at(fi.node, x)
                ok = False
                why = ''
                for t, pol in atoms:
                    if isinstance(t, ast.Compare) and isinstance(t.comparators[0], ast.pattern):
                        continue
                    if pol and isinstance(t, ast.Compare) and isinstance(t.ops[0], ast.In) \
                            and norm(t.left) == ktxt and norm(t.comparators[0]) == btxt:
                        ok, why = True, f'guarded by `{norm(t)}`'
                if not ok and K:
                    g = species_enabled_by(atoms, K, groups)
                    if g and isinstance(base, ast.Attribute):
                        ok, why = True, f'configuration guard `{g}` (totals contain every species)'
                if not ok and isinstance(base, ast.Name) and base.id not in fi.params:
                    # local map: an unconditional earlier store of the same key in this function
                    for t, st, how in stores_to(fi.node):
                        if isinstance(t, ast.Subscript) and norm(t.value) == btxt and norm(t.slice) == ktxt \
                                and st.lineno < x.lineno and st in fi.node.body:
                            ok, why = True, f'key stored unconditionally at line {st.lineno}'
                    # an earlier top-level loop stored the key: over a literal list containing it,
                    # or over the same mapping this read's loop walks
                    mine = _governing(x, ktxt)
                    my_loop = mine[0] if mine else None
                    for s0 in fi.node.body:
                        if isinstance(s0, ast.For) and s0.lineno < x.lineno and s0 is not my_loop:
                            mi0 = map_iteration(s0.target, s0.iter)
                            lv = mi0[1] if mi0 else (s0.target.id if isinstance(s0.target, ast.Name) else None)
                            stores_lv = lv is not None and any(
                                isinstance(b, ast.Assign) and isinstance(b.targets[0], ast.Subscript)
                                and norm(b.targets[0].value) == btxt and norm(b.targets[0].slice) == lv for b in s0.body)
                            if not stores_lv:
                                continue
                            if isinstance(s0.iter, (ast.List, ast.Tuple)) and ktxt in [norm(e) for e in s0.iter.elts]:
                                ok, why = True, f'key stored by the literal-list loop at line {s0.lineno}'
                            if mine is not None and mine[1] is not None and mi0 is not None and mi0[0] == mine[1][0]:
                                ok, why = True, f'stored for every key of {mi0[0]} by the loop at line {s0.lineno}'
                            elif mine is not None and mine[1] is None and mi0 is None and norm(s0.iter) == norm(mine[2]):
                                ok, why = True, f'stored for every element of {norm(s0.iter)[:40]} by the loop at line {s0.lineno}'
                    # loop over the map's own keys
                    if mine is not None and mine[1] is not None and mine[1][0] == btxt:
                        ok, why = True, f'iterating the map\'s own keys ({norm(mine[2])})'
                    if mine is not None and mine[1] is None and isinstance(mine[2], (ast.List, ast.Tuple)):
                        ok, why = True, 'iterating a literal key list stored by the producer just above'
                if not ok and isinstance(base, ast.Name) and base.id in fi.params:
                    mine = _governing(x, ktxt)
                    if mine is not None and mine[1] is not None and mine[1][0] == btxt:
                        ok, why = True, f'iterating the map\'s own keys ({norm(mine[2])})'
                if not ok and isinstance(base, ast.Name):
                    # a map returned by a helper that stores the key on every path (gse nominal profile)
                    d = single_def_value(fi.node, base.id)
                    if d is None:
                        from ..astutil import tuple_def_component
                        td = tuple_def_component(fi.node, base.id)
                        d = td[0] if td else None
                    if isinstance(d, ast.Call):
                        callee = resolve_call(prog, fi, d)
                        if callee is not None:
                            rets = [r for r in walk_no_nested(callee.node) if isinstance(r, ast.Return)]
                            if rets and all(ktxt in norm(r.value) or any(
                                    ktxt in norm(e) for e in ast.walk(r.value) if isinstance(e, ast.Dict)) for r in rets):
                                ok, why = True, f'every return of {callee.name} builds the map with this key'
                            for a in ancestors(x):
                                if isinstance(a, ast.For) and norm(a.target) == ktxt and isinstance(a.iter, ast.List) and rets \
                                        and all(all(norm(e) in norm(r.value) for e in a.iter.elts) for r in rets):
                                    ok, why = True, f'every return of {callee.name} contains all keys of the loop'
                ctx.ob('C11-R2', fi, f'read {btxt}[{ktxt}]', ok, why if ok else
                       (f'`{btxt}` only contains {ktxt} under some configurations (e.g. with the species switched '
                        f'off); this read is unguarded and raises KeyError for the others'), line=x.lineno)
    ctx.floor('C11-R2', n, 20, 'species-map key reads')


def _only_enabled_keys(prog, fi, it: ast.AST, groups) -> str | None:
    """The iterable `it` walks a mapping produced by a repository function (directly, `f(x).items()`, or through a
    single-definition local) that puts a species into the mapping it returns only under a fact implying that
    species' switch: then every key it yields is enabled.  Returns the reason, or None when that cannot be shown."""
    im = iterated_mapping(it)
    if im is None:
        return None
    m = im[0]
    if isinstance(m, ast.Name):
        m = single_def_value(fi.node, m.id)
    if not isinstance(m, ast.Call):
        return None
    callee = resolve_call(prog, fi, m)
    if callee is None or callee.node.decorator_list:
        return None     # a decorated (e.g. memoised) helper answers for the configuration of an earlier call
    rets = [r.value for r in walk_no_nested(callee.node) if isinstance(r, ast.Return)]
    if not rets or not all(isinstance(r, ast.Name) for r in rets) or len({r.id for r in rets}) != 1:
        return None
    rname = rets[0].id
    if rname in callee.params:
        return None
    n = 0
    for x in walk_no_nested(callee.node):
        # anything that fills the map other than a store under a Species.K key cannot be judged here
        if isinstance(x, ast.Call) and isinstance(x.func, ast.Attribute) and norm(x.func.value) == rname \
                and x.func.attr in ('update', 'setdefault', '__setitem__'):
            return None
    for t, st, how in stores_to(callee.node):
        if isinstance(t, ast.Name) and t.id == rname:
            v = getattr(st, 'value', None)
            if not (isinstance(v, ast.Call) and not v.args and not v.keywords):
                return None     # must start empty: `R = SpeciesValues[...]()` / `{}`-like constructor without content
        if isinstance(t, ast.Subscript) and norm(t.value) == rname:
            if not (isinstance(t.slice, ast.Attribute) and norm(t.slice.value) == 'Species'):
                return None
            if species_enabled_by(facts_at(callee.node, st), t.slice.attr, groups) is None:
                return None
            n += 1
    if not n:
        return None
    return f'the key walks the result of {callee.name}, which inserts each of its {n} species only when it is enabled'


# ---------------------------------------------------------------- R3 -----
def rule_stores(ctx, groups):
    prog = ctx.prog
    n = 0
    n_fn = 0
    for rel in PRODUCER_ENTRIES:
        for fi, maps in _producers(prog, rel):
            n_fn += 1
            name = fi.name
            call_facts = None
            cs = callers_of(prog, fi)
            if cs and name != PRODUCER_ENTRIES[rel]:
                sets = []
                for caller, call in cs:
                    if caller.file.startswith('src/AEIC/emissions'):
                        sets.append(facts_at(caller.node, call))
                call_facts = sets
            for t, st, how in stores_to(fi.node):
                targets = [t]
                if not (isinstance(t, ast.Subscript) and norm(t.value) in maps):
                    continue
                key = t.slice
                if isinstance(key, ast.Attribute) and norm(key.value) == 'Species':
                    K, keyvar = key.attr, None
                elif isinstance(key, ast.Name):
                    K, keyvar = None, key.id
                else:
                    continue
                n += 1
                val = getattr(st, 'value', None)
                if val is not None and is_literal_zero(val):
                    ctx.ob('C11-R3', fi, f'{norm(t)} = {norm(val)[:30]}', True, 'literal zero contributes nothing',
                           line=st.lineno, nontrivial=False)
                    continue
                atoms = facts_at(fi.node, st)
                if K is None:
                    # variable key: needs `key in enabled_species`, or the value is a re-store of the same key
                    g = None
                    for tt, pol in atoms:
                        if pol and isinstance(tt, ast.Compare) and not isinstance(tt.comparators[0], ast.pattern) \
                                and isinstance(tt.ops[0], ast.In) and norm(tt.left) == keyvar \
                                and 'enabled_species' in norm(tt.comparators[0]):
                            g = norm(tt)
                    # the key is already in the map - nothing that was off can get in - when the value reads the
                    # map at that key, or when the key variable walks the map's own keys (`for k in m`, `m.keys()`,
                    # `for k, v in m.items()`, possibly through list()/sorted())
                    restore = val is not None and f'{norm(t.value)}[{keyvar}]' in norm(val)
                    gov = _governing(st, keyvar)
                    own_keys = gov is not None and gov[1] is not None and gov[1][0] == norm(t.value)
                    filtered = None
                    if g is None and not restore and not own_keys and gov is not None and gov[1] is not None:
                        filtered = _only_enabled_keys(prog, fi, gov[2], groups)
                    ok = g is not None or restore or own_keys or filtered is not None
                    ctx.ob('C11-R3', fi, f'{norm(t)} = {norm(val)[:40] if val is not None else ""}', ok,
                           (f'guarded by `{g}`' if g else 'rewrites a key the map already contains' if restore else
                            f'the key walks the map\'s own keys ({norm(gov[2])[:40]}): it is already present' if own_keys else
                            filtered) if ok else
                           'a species taken from a variable is stored without testing that it is enabled', line=st.lineno)
                    continue
                g = species_enabled_by(atoms, K, groups)
                where = 'in the producer'
                if g is None and call_facts:
                    gs = [species_enabled_by(a, K, groups) for a in call_facts]
                    if gs and all(gs):
                        g, where = gs[0], 'at every call site'
                ctx.ob('C11-R3', fi, f'{norm(t)} = {norm(val)[:40] if val is not None else ""}', g is not None,
                       f'implied on: `{g}` ({where})' if g else
                       (f'Species.{K} is written into the {rel.split("/")[-1][:-3]} indices without any guard implying '
                        f'its switch is on: a switched-off species shows up in the inventory'), line=st.lineno)
    ctx.floor('C11-R3/producers', n_fn, 2, 'functions that build the trajectory and LTO index maps')
    ctx.floor('C11-R3', n, 18, 'species stores in trajectory and LTO producers')


# ---------------------------------------------------------------- R4 -----
def rule_elements(ctx):
    prog = ctx.prog
    tm = prog.cls('performance/types.py', 'ThrustMode')
    enum_only = set(tm.methods) - {'__str__', '_missing_'}
    ctx.floor('C11-R4/attrs', len(enum_only), 1, 'ThrustMode-only attributes')
    n = 0
    mods = [prog.module(r) for r in ('emissions/trajectory.py', 'emissions/lto.py', 'emissions/utils.py')]
    if ctx.tier == 'thorough':
        mods = [m for m in prog.src_modules() if '/emissions/' in m.relpath]
    for m in mods:
        for fi in m.functions.values():
            arr_params = set()
            a = fi.node.args
            for arg in a.posonlyargs + a.args + a.kwonlyargs:
                if arg.annotation is not None and 'ThrustModeArray' in norm(arg.annotation):
                    arr_params.add(arg.arg)
            if not arr_params:
                continue
            for x in ast.walk(fi.node):
                tgt = it = None
                if isinstance(x, ast.For):
                    tgt, it = x.target, x.iter
                elif isinstance(x, ast.comprehension):
                    tgt, it = x.target, x.iter
                if it is None or not isinstance(tgt, ast.Name):
                    continue
                raw = isinstance(it, ast.Name) and it.id in arr_params or \
                    (isinstance(it, ast.Attribute) and it.attr == 'data' and norm(it.value) in arr_params)
                if not raw and isinstance(it, ast.Call) and isinstance(it.func, ast.Attribute) \
                        and norm(it.func.value) in arr_params:
                    # a method of the array class: np.vectorize(<str-mixin enum>) without otypes=[object] lets numpy
                    # infer a string dtype, so the elements are numpy strings again, not enum members
                    meth = prog.cls('performance/types.py', 'ThrustModeArray').methods.get(it.func.attr)
                    if meth is not None:
                        rets = [r.value for r in walk_no_nested(meth.node) if isinstance(r, ast.Return) and r.value is not None]
                        for rv in rets:
                            if isinstance(rv, ast.Call) and isinstance(rv.func, ast.Call) and call_name(rv.func) in ('np.vectorize', 'numpy.vectorize') \
                                    and rv.func.args and norm(rv.func.args[0]) == 'ThrustMode' \
                                    and not any(k.arg == 'otypes' for k in rv.func.keywords) \
                                    and any(b in ('str', 'StrEnum', 'enum.StrEnum') for k in tm.mro() for b in k.base_exprs):
                                raw = True
                if not raw:
                    continue
                scope = x if isinstance(x, ast.For) else getattr(x, '_parent', x)
                for u in ast.walk(scope):
                    if isinstance(u, ast.Attribute) and isinstance(u.value, ast.Name) and u.value.id == tgt.id \
                            and u.attr in enum_only:
                        n += 1
                        ctx.ob('C11-R4', fi, f'{tgt.id}.{u.attr} on raw element of {norm(it)}', False,
                               f'iterating a ThrustModeArray yields raw values (numpy str), which have no '
                               f'`{u.attr}`: AttributeError for every configuration reaching this line',
                               line=u.lineno)
                    if isinstance(u, ast.Attribute) and u.attr in enum_only and isinstance(u.value, ast.Call) \
                            and call_name(u.value) == 'ThrustMode' and u.value.args \
                            and norm(u.value.args[0]) == tgt.id:
                        n += 1
                        ctx.ob('C11-R4', fi, f'ThrustMode({tgt.id}).{u.attr}', True,
                               'raw element converted to the enum before use', line=u.lineno)
    ctx.floor('C11-R4', n, 1, 'uses of ThrustMode-only attributes on array elements')


# ---------------------------------------------------------------- R5 -----
def rule_switches(ctx):
    prog = ctx.prog
    m = prog.module('emissions/emission.py')
    ce = m.func('compute_emissions')
    st = m.func('sum_total_emissions')
    for comp in ('apu', 'gse'):
        comp_calls = [c for c in calls_in(ce.node) if call_name(c).lower() == f'get_{comp}_emissions']
        if not comp_calls:
            ctx.undecided('C11-R5', ce, comp, 'component computation not found')
        cg = {norm(t) for t, pol in facts_at(ce.node, comp_calls[0]) if pol and 'config.emissions' in norm(t)}
        sg = set()
        for x in walk_no_nested(st.node):
            if isinstance(x, ast.AugAssign) and f'{comp}[' in norm(x.value):
                sg = {norm(t) for t, pol in facts_at(st.node, x) if pol and 'config.emissions' in norm(t)}
        ok = cg == sg and len(cg) == 1 and f'{comp}_enabled' in next(iter(cg))
        ctx.ob('C11-R5', st, f'{comp}: computed under {sorted(cg)}, summed under {sorted(sg)}', ok,
               'same switch' if ok else
               f'the {comp.upper()} part is computed under one switch and added to the totals under another: '
               'with exactly one of them on, totals no longer equal the sum of the parts')


def rule_lifecycle(ctx):
    """R5b: the life-cycle CO2 adjustment that is *reported* and the one that is
    *added to the CO2 total* are produced under the same configuration switches."""
    prog = ctx.prog
    m = prog.module('emissions/emission.py')
    ce = m.func('compute_emissions')

    def cfg_atoms(node):
        out = set()
        for t, pol in facts_at(ce.node, node):
            if isinstance(t, ast.Compare) and isinstance(t.comparators[0], ast.pattern):
                continue
            txt = norm(t)
            if 'config.emissions' in txt:
                out.add(('' if pol else 'not ') + txt)
        return out

    def effective(site, val):
        g = cfg_atoms(site)
        if isinstance(val, ast.Name):
            defs = [st for t, st, how in stores_to(ce.node) if isinstance(t, ast.Name) and t.id == val.id
                    and not (isinstance(getattr(st, 'value', None), ast.Constant) and st.value.value in (None, 0, 0.0))]
            if len(defs) == 1:
                g |= cfg_atoms(defs[0])
        return g

    add_site = rep_site = None
    for x in walk_no_nested(ce.node):
        if isinstance(x, ast.AugAssign) and norm(x.target).endswith('total_emissions[Species.CO2]'):
            add_site = (x, x.value)
        if isinstance(x, ast.Assign) and isinstance(x.targets[0], ast.Attribute) and x.targets[0].attr == 'lifecycle_co2':
            rep_site = (x, x.value)
        if isinstance(x, ast.Call) and call_name(x) == 'Emissions':
            for k in x.keywords:
                if k.arg == 'lifecycle_co2':
                    rep_site = (x, k.value)
    if add_site is None or rep_site is None:
        ctx.undecided('C11-R5', ce, 'life-cycle adjustment', 'add / report sites not found')
    ga, gr = effective(*add_site), effective(*rep_site)
    ok = ga == gr and bool(ga)
    ctx.ob('C11-R5', ce, f'life-cycle CO2: added under {sorted(ga)}, reported under {sorted(gr)}', ok,
           'one condition for both' if ok else
           'the reported life-cycle adjustment and the one added to the CO2 total are governed by different switches: '
           'for the combination where they differ the CO2 total no longer equals the sum of its parts plus the reported adjustment',
           line=add_site[0].lineno)


def run(ctx):
    rule_lifecycle(ctx)
    groups = implication_table(ctx)
    ctx.stats['species_groups'] = {k: sorted(v['species']) + [f'{s}?' for s in v['conditional']] for k, v in groups.items()}
    rule_dispatch(ctx)
    rule_reads(ctx, groups)
    rule_stores(ctx, groups)
    rule_elements(ctx)
    rule_switches(ctx)
    ctx.assumptions += ['the numeric balance of each configuration is C01; here only absence of internal errors '
                        'and of switched-off species is decided, per site, for every enum member']
