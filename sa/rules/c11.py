"""C11 — every documented emissions option combination works or is refused by name.

The option product (~41k combinations) is never enumerated: the defects that
can break it are of a few kinds, and each kind is a per-site rule that holds for
every member of the enum at that site.

R1  dispatch exhaustiveness (T-AGREE, finite): every dispatch over a method
    enum handles each member (read from the enum class) by an explicit arm, or
    falls to a default arm that raises NotImplementedError/ValueError whose
    message interpolates the method value.
R2  guarded key reads (T-GUARD): a subscript read m[Species.K] of a species map
    whose keys depend on configuration is dominated by `Species.K in m`, by a
    configuration guard under which the producer inserts K, or (for a map built
    in the same function) by an unconditional store of that key; a read under
    a variable key is safe when the key walks the map's own keys (`for k in m`,
    `.keys()`, `for k, v in m.items()`, also inside list()/sorted(), statement
    or comprehension) or the keys of a mapping for whose every key an earlier
    loop stored into m.
R3  switched-off species stay out: every store m[Species.K] = … into an index
    map handed back by the trajectory / LTO producer or by a function of the
    same module reachable from it (found through the call graph, not by name)
    is control-dependent (in the function or at all its call sites) on a fact
    implying K's switch is on, or stores a literal zero.  A store under a variable key needs `key in enabled_species`,
    or a key that is already in the map (the value reads the map at that key,
    or the key walks the map's own keys), or a key that walks the result of a
    helper which itself inserts every species only under its switch; a key
    that walks a constant collection of Species members (tuple of members,
    table of (member, value) rows, dict display) is decided member by member
    like a store under that constant key.
    The implication table (species -> `<label>_enabled` switch, plus further
    conditions) is computed by evaluating EmissionsConfig.enabled_species over
    a concrete domain of Species members / strings / literal collections with
    configuration reads kept symbolic: literal loops unrolled, local closures
    entered with their arguments bound, early return / continue turned into
    path conditions - so it does not depend on how the groups are spelt
    (repeated calls, a table and a loop, plain ifs, add / update / |=).
R4  element type of thrust-mode arrays: iterating a ThrustModeArray yields raw
    values; attributes that exist only on ThrustMode may be used only on
    ThrustMode(x) / as_enum() elements.
R5  source switches: a component is summed into the totals under the same
    configuration switch that decides whether it is computed.
R6  switches: every `<label>_enabled` the table reads exists on EmissionsConfig,
    and a species that has a switch of its own is enabled by that switch.
    Decided as a finite truth table: every option field with a finite domain
    (bool, or an enum of the configuration module) is enumerated; each derived
    switch `<label>_enabled` is evaluated from its own body (through other
    properties) over the fields it reads, and each species' path condition(s)
    in enabled_species likewise; with the group's own option off
    (`<label>_enabled = False`, or `<label>_method = NONE`) the switch must be
    false and the species must not be in the set - whatever the other options
    are.  A switch that also listens to another option turns a switched-off
    species back on.
R7  "works or is refused by name" - no internal error from a store: an object
    that some path stores into (element / slice store, `del x[k]`, in-place
    operator on an array, .fill/.sort/np.put/np.copyto/`out=`, or handing it
    to a repository function that does one of these to its parameter) must
    not be one that refuses the store.  Decided by def-use over the emissions
    package: origins are followed back through reaching definitions on the
    CFG, through elements of local mappings (a re-store of the same element
    that every path passes kills the older ones; `.update(f())`, loops over
    .items()/.values() and over literal collections are followed), through
    view-preserving numpy operations, module constants and the returns of
    resolved repository functions.  Refusing origins: np.broadcast_to and
    sliding_window_view (read-only views), as_strided(writeable=False),
    np.frombuffer over immutable bytes, an array after `.flags.writeable =
    False` / `.setflags(write=False)`, MappingProxyType, and a repository
    container whose constructor takes `mutable=False` by default
    (ThrustModeValues) built without mutable=True or after `.freeze()`;
    `.copy(mutable=True)`, `.copy()` of an array, np.array / np.full /
    arithmetic make fresh writable objects.  (A memoised function's result is
    T-MEMO M2.)  Positive control: an embedded producer.
"""

from __future__ import annotations

import ast

from ..astutil import first_stmt, last_stmt  # noqa: F401
from ..astutil import (ancestors, call_name, calls_in, conjuncts, enclosing_iterations, guards_of, iterated_mapping, map_iteration,
                       names_in, norm, single_def_value, stmt_of, stores_to, walk_no_nested)
from ..loader import ClassInfo, FunctionInfo
from ..resolve import callers_of, closure, expr_class, resolve_call

CFGE = 'config/emissions.py'
# entry points of the two per-flight producers; the functions that build (parts of) their index maps are found
# through the call graph, not by name (a helper may be split off, merged back or renamed)
PRODUCER_ENTRIES = {
    'emissions/trajectory.py': 'get_trajectory_emissions',
    'emissions/lto.py': 'get_LTO_emissions',
}


def _index_maps(fi) -> set[str]:
    """names of the local species maps fi hands back: `return m`, or the index argument of the EmissionsSubset it returns"""
    out = set()
    for r in walk_no_nested(fi.node):
        if isinstance(r, ast.Return) and r.value is not None:
            v = r.value
            if isinstance(v, ast.Name):
                out.add(v.id)
            elif isinstance(v, ast.Call) and call_name(v).split('[')[0] == 'EmissionsSubset':
                a = next((k.value for k in v.keywords if k.arg == 'indices'), v.args[0] if v.args else None)
                if isinstance(a, ast.Name):
                    out.add(a.id)
    return out - set(fi.params)


def _producers(prog, rel):
    """the entry producer of module rel and every function of the same module reachable from it that writes
    `m[Species.K] = …` into a species map it returns: [(function, names of its index maps)]"""
    m = prog.module(rel)
    entry = m.func(PRODUCER_ENTRIES[rel])
    out = [(entry, _index_maps(entry))]
    for g in sorted(closure(prog, [entry]), key=lambda f: f.node.lineno):
        if g is entry or g.module is not m:
            continue
        maps = _index_maps(g)
        if any(isinstance(t, ast.Subscript) and norm(t.value) in maps and isinstance(t.slice, ast.Attribute)
               and norm(t.slice.value) == 'Species' for t, _, _ in stores_to(g.node)):
            out.append((g, maps))
    return out
READ_SCOPE = ['emissions/emission.py', 'emissions/trajectory.py', 'emissions/lto.py', 'emissions/apu.py', 'emissions/gse.py']


# ---------------------------------------------------------------- facts ---
def early_exit_facts(fn: ast.AST, node: ast.AST):
    """Facts established by preceding `if C: return/raise` in enclosing blocks."""
    out = []
    child = node
    for a in ancestors(node):
        body_lists = [getattr(a, f, None) for f in ('body', 'orelse', 'finalbody')]
        for bl in body_lists:
            if isinstance(bl, list) and any(child is s for s in bl):
                for s in bl:
                    if s is child:
                        break
                    if isinstance(s, ast.If) and isinstance(last_stmt(s.body), (ast.Return, ast.Raise, ast.Continue)) \
                            and not s.orelse:
                        out.append((s.test, False))
        if a is fn:
            break
        child = a
    return out


def facts_at(fn: ast.AST, node: ast.AST):
    fs = [(t, pol) for t, pol, _ in guards_of(node)] + early_exit_facts(fn, node)
    # match arms: `match subject: case Enum.M:` gives subject == Enum.M
    for a in ancestors(node):
        if isinstance(a, ast.match_case):
            m = getattr(a, '_parent', None)
            if isinstance(m, ast.Match):
                fs.append((ast.Compare(left=m.subject, ops=[ast.In()], comparators=[a.pattern]), True))
    atoms = []
    for t, pol in fs:
        if isinstance(t, ast.Compare) and isinstance(t.ops[0], ast.In) and isinstance(t.comparators[0], ast.pattern):
            atoms.append((t, pol))
        else:
            atoms.extend(conjuncts(t, pol))
    return atoms


class _Cannot(Exception):
    pass


class _Sym:
    """a value the table interpreter does not know concretely (a configuration read, …)"""

    def __init__(self, text):
        self.text = text


class _SpeciesSetInterp:
    """Evaluates the body of `enabled_species` over a small concrete domain - Species members, strings, None,
    tuples / lists / dicts of those - keeping every test on configuration state symbolic.  Literal loops are
    unrolled, local closures are entered with their arguments bound (positional, *rest, keyword, defaults),
    early returns turn into path conditions.  The outcome is, for each species put into the returned set
    (`.add`, `.update`, `|=`, set displays), the list of symbolic conditions on its path.  Whatever falls outside
    (a loop over something not literal, an unknown statement) raises _Cannot - the rule is then undecided."""

    def __init__(self, fn: ast.AST):
        self.fn = fn
        self.out: list[tuple[str, tuple[tuple[str, bool], ...]]] = []
        rets = [r.value for r in walk_no_nested(fn) if isinstance(r, ast.Return) and r.value is not None]
        if not rets or not all(isinstance(r, ast.Name) for r in rets) or len({r.id for r in rets}) != 1:
            raise _Cannot('the property does not return one named set')
        self.result = rets[0].id

    # ---- expressions
    def ev(self, e, env):
        if isinstance(e, ast.Constant):
            return e.value
        if isinstance(e, ast.Attribute) and isinstance(e.value, ast.Name) and e.value.id == 'Species':
            return ('sp', e.attr)
        if isinstance(e, ast.Name):
            return env[e.id] if e.id in env else _Sym(e.id)
        if isinstance(e, (ast.Tuple, ast.List, ast.Set)):
            out = []
            for x in e.elts:
                if isinstance(x, ast.Starred):
                    v = self.ev(x.value, env)
                    if not isinstance(v, (tuple, list)):
                        raise _Cannot(f'cannot unpack `{norm(x)}`')
                    out.extend(v)
                else:
                    out.append(self.ev(x, env))
            return tuple(out)
        if isinstance(e, ast.Dict):
            if any(k is None for k in e.keys):
                raise _Cannot('dict unpacking')
            return {self._hashable(self.ev(k, env)): self.ev(v, env) for k, v in zip(e.keys, e.values)}
        if isinstance(e, ast.Subscript):
            b, i = self.ev(e.value, env), self.ev(e.slice, env) if not isinstance(e.slice, ast.Slice) else None
            if isinstance(b, (tuple, list)) and isinstance(i, int) and -len(b) <= i < len(b):
                return b[i]
            if isinstance(b, dict) and not isinstance(i, _Sym) and i in b:
                return b[i]
            return _Sym(norm(e))
        if isinstance(e, ast.Attribute):
            b = self.ev(e.value, env)
            if isinstance(b, tuple) and len(b) == 2 and b[0] == 'sp' and e.attr == 'name':
                return b[1]
            return _Sym(norm(e))
        if isinstance(e, ast.JoinedStr):
            parts = []
            for x in e.values:
                v = self.ev(x.value, env) if isinstance(x, ast.FormattedValue) else x.value
                if not isinstance(v, str) or (isinstance(x, ast.FormattedValue) and (x.conversion != -1 or x.format_spec)):
                    return _Sym(norm(e))
                parts.append(v)
            return ''.join(parts)
        if isinstance(e, ast.Call):
            f = e.func
            if isinstance(f, ast.Attribute) and not e.args and not e.keywords and f.attr in ('lower', 'upper', 'items', 'keys', 'values'):
                b = self.ev(f.value, env)
                if isinstance(b, str) and f.attr in ('lower', 'upper'):
                    return getattr(b, f.attr)()
                if isinstance(b, dict) and f.attr in ('items', 'keys', 'values'):
                    return tuple(getattr(b, f.attr)()) if f.attr != 'items' else tuple((k, v) for k, v in b.items())
                return _Sym(norm(e))
            if isinstance(f, ast.Name) and f.id == 'getattr' and len(e.args) == 2 and norm(e.args[0]) == 'self':
                a = self.ev(e.args[1], env)
                return _Sym(f'self.{a}') if isinstance(a, str) else _Sym(norm(e))
            if isinstance(f, ast.Name) and f.id in ('tuple', 'list', 'set', 'frozenset', 'sorted') and len(e.args) <= 1 and not e.keywords:
                if not e.args:
                    return ()
                v = self.ev(e.args[0], env)
                return tuple(v) if isinstance(v, (tuple, list)) else _Sym(norm(e))
            return _Sym(norm(e))
        if isinstance(e, ast.Compare) and len(e.ops) == 1 and isinstance(e.ops[0], (ast.Is, ast.IsNot, ast.Eq, ast.NotEq)):
            l, r = self.ev(e.left, env), self.ev(e.comparators[0], env)
            if not isinstance(l, _Sym) and not isinstance(r, _Sym):
                eq = l == r
                return eq if isinstance(e.ops[0], (ast.Is, ast.Eq)) else not eq
            return _Sym(norm(e))
        if isinstance(e, ast.UnaryOp) and isinstance(e.op, ast.Not):
            v = self.ev(e.operand, env)
            return _Sym(f'not ({v.text})') if isinstance(v, _Sym) else (not v)
        if isinstance(e, ast.BoolOp):
            # concrete operands decide or drop out; what stays symbolic keeps its substituted text
            is_or = isinstance(e.op, ast.Or)
            parts, last = [], None
            for x in e.values:
                v = self.ev(x, env)
                last = v
                if isinstance(v, _Sym):
                    parts.append(v.text)
                elif bool(v) == is_or and not parts:
                    return v            # or: first true operand / and: first false operand, nothing symbolic before it
                elif bool(v) == is_or:
                    parts.append(repr(bool(v)))
                    break
            if not parts:
                return last
            return _Sym((' or ' if is_or else ' and ').join(f'({t})' for t in parts)) if len(parts) > 1 else _Sym(parts[0])
        if isinstance(e, ast.UnaryOp) and isinstance(e.op, ast.USub):
            v = self.ev(e.operand, env)
            return -v if isinstance(v, int) and not isinstance(v, bool) else _Sym(norm(e))
        return _Sym(norm(e))

    @staticmethod
    def _hashable(v):
        if isinstance(v, _Sym):
            raise _Cannot('symbolic dict key')
        return v

    def _test_text(self, test, env):
        """text of a symbolic test with what is concretely known substituted (getattr(self, f'{label}_enabled')
        -> self.co2_enabled); a leading `not` is peeled into the polarity"""
        pol = True
        while isinstance(test, ast.UnaryOp) and isinstance(test.op, ast.Not):
            test, pol = test.operand, not pol
        v = self.ev(test, env)
        return (v.text if isinstance(v, _Sym) else norm(test)), pol

    # ---- statements
    def record(self, v, guards):
        if isinstance(v, tuple) and len(v) == 2 and v[0] == 'sp' and isinstance(v[1], str):
            self.out.append((v[1], tuple(guards)))
        else:
            raise _Cannot('something that is not a Species member is put into the set')

    def record_all(self, v, guards):
        if isinstance(v, tuple) and len(v) == 2 and v[0] == 'sp' and isinstance(v[1], str):
            raise _Cannot('a single member where a collection is expected')
        if not isinstance(v, (tuple, list)):
            raise _Cannot('the collection added to the set is not known')
        for x in v:
            self.record(x, guards)

    def call(self, c: ast.Call, env, guards):
        f = c.func
        if isinstance(f, ast.Attribute) and norm(f.value) == self.result:
            if f.attr == 'add' and len(c.args) == 1:
                return self.record(self.ev(c.args[0], env), guards)
            if f.attr == 'update':
                for a in c.args:
                    self.record_all(self.ev(a, env), guards)
                return
            raise _Cannot(f'`{norm(c)[:50]}` on the result set')
        if isinstance(f, ast.Name) and isinstance(env.get(f.id), ast.FunctionDef):
            d = env[f.id]
            a = d.args
            pos = []
            for x in c.args:
                if isinstance(x, ast.Starred):
                    v = self.ev(x.value, env)
                    if not isinstance(v, (tuple, list)):
                        raise _Cannot(f'cannot unpack `{norm(x)}`')
                    pos.extend(v)
                else:
                    pos.append(self.ev(x, env))
            new = dict(env)
            names = [p.arg for p in a.posonlyargs + a.args]
            defaults = dict(zip(names[len(names) - len(a.defaults):], a.defaults))
            for i, nme in enumerate(names):
                if i < len(pos):
                    new[nme] = pos[i]
                elif nme in defaults:
                    new[nme] = self.ev(defaults[nme], env)
            rest = pos[len(names):]
            if a.vararg is not None:
                new[a.vararg.arg] = tuple(rest)
            elif rest:
                raise _Cannot('too many arguments')
            for p, dflt in zip(a.kwonlyargs, a.kw_defaults):
                if dflt is not None:
                    new[p.arg] = self.ev(dflt, env)
            for k in c.keywords:
                if k.arg is None:
                    raise _Cannot('**kwargs')
                new[k.arg] = self.ev(k.value, env)
            self.block(d.body, new, list(guards))
            return
        if any(isinstance(x, ast.Name) and x.id == self.result for x in ast.walk(c)):
            raise _Cannot(f'the result set escapes into `{norm(c)[:50]}`')
        # any other call cannot change the set

    def block(self, stmts, env, guards):
        """runs stmts; 'return' / 'continue' when every path through them left that way, None when some path falls
        through (the paths that left are then excluded by the path condition)"""
        for i, st in enumerate(stmts):
            if isinstance(st, (ast.Pass, ast.Global, ast.Nonlocal, ast.Import, ast.ImportFrom)):
                continue
            if isinstance(st, ast.FunctionDef):
                env[st.name] = st
            elif isinstance(st, ast.Return):
                return 'return'
            elif isinstance(st, ast.Continue):
                return 'continue'
            elif isinstance(st, ast.Expr):
                if isinstance(st.value, ast.Call):
                    self.call(st.value, env, guards)
                elif not isinstance(st.value, ast.Constant):
                    raise _Cannot(f'statement `{norm(st)[:50]}`')
            elif isinstance(st, (ast.Assign, ast.AnnAssign)):
                tg = st.targets if isinstance(st, ast.Assign) else [st.target]
                if st.value is None:
                    continue
                if len(tg) != 1 or not isinstance(tg[0], ast.Name):
                    raise _Cannot(f'assignment `{norm(st)[:50]}`')
                if tg[0].id == self.result:
                    v = st.value
                    if isinstance(v, ast.Call) and call_name(v) in ('set', 'frozenset') and not v.args:
                        continue
                    if isinstance(v, ast.Set) or (isinstance(v, ast.Call) and call_name(v) == 'set' and len(v.args) == 1):
                        self.record_all(self.ev(v if isinstance(v, ast.Set) else v.args[0], env), guards)
                        continue
                    raise _Cannot(f'the result set is rebound: `{norm(st)[:50]}`')
                env[tg[0].id] = self.ev(st.value, env)
            elif isinstance(st, ast.AugAssign):
                if isinstance(st.target, ast.Name) and st.target.id == self.result and isinstance(st.op, ast.BitOr):
                    self.record_all(self.ev(st.value, env), guards)
                elif isinstance(st.target, ast.Name):
                    env[st.target.id] = _Sym(st.target.id)
                else:
                    raise _Cannot(f'statement `{norm(st)[:50]}`')
            elif isinstance(st, ast.For):
                seq = self.ev(st.iter, env)
                if isinstance(seq, dict):
                    seq = tuple(seq)
                if not isinstance(seq, (tuple, list)) or st.orelse:
                    raise _Cannot(f'loop over `{norm(st.iter)[:50]}`, which is not a literal collection')
                for item in seq:
                    if isinstance(st.target, ast.Name):
                        env[st.target.id] = item
                    elif isinstance(st.target, (ast.Tuple, ast.List)) and isinstance(item, (tuple, list)) \
                            and len(item) == len(st.target.elts) and all(isinstance(x, ast.Name) for x in st.target.elts):
                        for x, v in zip(st.target.elts, item):
                            env[x.id] = v
                    else:
                        raise _Cannot(f'loop target `{norm(st.target)}`')
                    if any(isinstance(x, ast.Break) for x in walk_no_nested(st)):
                        raise _Cannot('break in a loop')
                    if self.block(st.body, env, guards) == 'return':
                        return 'return'
            elif isinstance(st, ast.If):
                v = self.ev(st.test, env)
                if not isinstance(v, _Sym):
                    r = self.block(st.body if v else st.orelse, env, guards)
                    if r:
                        return r
                    continue
                g_true = [self._test_text(ast.UnaryOp(ast.Not(), t) if not p else t, env) for t, p in conjuncts(st.test, True)]
                g_false = [self._test_text(ast.UnaryOp(ast.Not(), t) if not p else t, env) for t, p in conjuncts(st.test, False)]
                e1, e2 = dict(env), dict(env)
                r1 = self.block(st.body, e1, guards + g_true)
                r2 = self.block(st.orelse, e2, guards + g_false)
                if r1 and r2:
                    if r1 != r2:
                        raise _Cannot('one branch returns and the other continues')
                    return r1
                if r1 or r2:
                    merged = e2 if r1 else e1          # only the branch that falls through goes on
                else:
                    merged = {k: (e1[k] if k in e1 and k in e2 and e1[k] is e2[k] else _Sym(k)) for k in set(e1) | set(e2)}
                env.clear()
                env.update(merged)
                if r1:
                    guards = guards + g_false
                elif r2:
                    guards = guards + g_true
            else:
                raise _Cannot(f'statement `{norm(st)[:50]}`')
        return None


class _Member:
    """a member of a configuration enum during truth-table evaluation (one object per member, so `is` works; a
    string-mixin enum also equals its value)"""
    _all: dict = {}

    def __new__(cls, enum, name, value, strmix):
        k = (enum, name)
        if k not in cls._all:
            o = object.__new__(cls)
            o.enum, o.name, o.value, o.strmix = enum, name, value, strmix
            cls._all[k] = o
        return cls._all[k]

    def __eq__(self, other):
        if isinstance(other, _Member):
            return self is other or (self.strmix and other.strmix and self.value == other.value)
        return self.strmix and isinstance(other, str) and other == self.value

    def __ne__(self, other):
        return not self.__eq__(other)

    def __hash__(self):
        return hash((self.enum, self.name))

    def __repr__(self):
        return f'{self.enum}.{self.name}'


class _ConfigTable:
    """Finite evaluation of EmissionsConfig's derived switches: every option field with a finite domain (bool, or an
    enum declared in the configuration module) is enumerated, properties are evaluated from their own bodies
    (if / return / local assignments; comparisons, boolean operators, membership tests, conditional expressions).
    Nothing is imported or run."""

    def __init__(self, prog, cm, ec):
        self.prog, self.cm, self.ec = prog, cm, ec
        self.enums = {}
        for name, ci in cm.classes.items():
            mem = {k: v.value for k, v in ci.class_assignments().items() if isinstance(v, ast.Constant)}
            if mem and any('Enum' in b for k_ in ci.mro() for b in k_.base_exprs):
                strmix = any(b in ('str', 'StrEnum', 'enum.StrEnum') for k_ in ci.mro() for b in k_.base_exprs)
                self.enums[name] = [_Member(name, k, v, strmix) for k, v in mem.items()]
        self.domains = {}
        for f, ann in ec.all_fields().items():
            a = norm(ann)
            if a == 'bool':
                self.domains[f] = [True, False]
            elif a in self.enums:
                self.domains[f] = list(self.enums[a])
        self.props = {n: fi for n, fi in ec.methods.items()
                      if any(d.split('.')[-1] in ('property', 'cached_property') for d in fi.decorators())}

    def reads(self, node, seen=None):
        """option fields a piece of code reads through self (through other properties too)"""
        seen = set() if seen is None else seen
        out = set()
        for x in ast.walk(node):
            nm = None
            if isinstance(x, ast.Attribute) and isinstance(x.value, ast.Name) and x.value.id == 'self':
                nm = x.attr
            elif isinstance(x, ast.Call) and call_name(x) == 'getattr' and len(x.args) >= 2 and norm(x.args[0]) == 'self' \
                    and isinstance(x.args[1], ast.Constant):
                nm = x.args[1].value
            if nm in self.domains:
                out.add(nm)
            elif nm in self.props and nm not in seen:
                seen.add(nm)
                out |= self.reads(self.props[nm].node, seen)
        return out

    def ev(self, e, env, loc):
        if isinstance(e, ast.Constant):
            return e.value
        if isinstance(e, ast.Name):
            if e.id in loc:
                return loc[e.id]
            raise _Cannot(f'name `{e.id}`')
        if isinstance(e, ast.Attribute):
            if isinstance(e.value, ast.Name) and e.value.id == 'self':
                return self.attr(e.attr, env)
            if isinstance(e.value, ast.Name) and e.value.id in self.enums:
                m = next((x for x in self.enums[e.value.id] if x.name == e.attr), None)
                if m is None:
                    raise _Cannot(f'`{norm(e)}` is not a member')
                return m
            b = self.ev(e.value, env, loc)
            if isinstance(b, _Member) and e.attr in ('value', 'name'):
                return getattr(b, e.attr)
            raise _Cannot(f'attribute `{norm(e)}`')
        if isinstance(e, ast.BoolOp):
            v = None
            for x in e.values:
                v = self.ev(x, env, loc)
                if bool(v) == isinstance(e.op, ast.Or):
                    return v
            return v
        if isinstance(e, ast.UnaryOp) and isinstance(e.op, ast.Not):
            return not self.ev(e.operand, env, loc)
        if isinstance(e, ast.IfExp):
            return self.ev(e.body if self.ev(e.test, env, loc) else e.orelse, env, loc)
        if isinstance(e, (ast.Tuple, ast.List, ast.Set)):
            return tuple(self.ev(x, env, loc) for x in e.elts)
        if isinstance(e, ast.Compare):
            left = self.ev(e.left, env, loc)
            for op, c in zip(e.ops, e.comparators):
                right = self.ev(c, env, loc)
                if isinstance(op, (ast.Eq, ast.NotEq)):
                    r = (left == right) == isinstance(op, ast.Eq)
                elif isinstance(op, (ast.Is, ast.IsNot)):
                    r = (left is right) == isinstance(op, ast.Is)
                elif isinstance(op, (ast.In, ast.NotIn)) and isinstance(right, tuple):
                    r = any(left == x for x in right) == isinstance(op, ast.In)
                else:
                    raise _Cannot(f'comparison `{norm(e)}`')
                if not r:
                    return False
                left = right
            return True
        if isinstance(e, ast.Call):
            cn = call_name(e)
            if cn == 'bool' and len(e.args) == 1:
                return bool(self.ev(e.args[0], env, loc))
            if cn == 'getattr' and len(e.args) >= 2 and norm(e.args[0]) == 'self':
                a = self.ev(e.args[1], env, loc)
                if isinstance(a, str):
                    return self.attr(a, env)
            if cn in ('any', 'all') and len(e.args) == 1 and isinstance(e.args[0], (ast.Tuple, ast.List)):
                vals = [bool(self.ev(x, env, loc)) for x in e.args[0].elts]
                return any(vals) if cn == 'any' else all(vals)
            raise _Cannot(f'call `{norm(e)[:40]}`')
        raise _Cannot(f'`{norm(e)[:40]}`')

    def attr(self, name, env):
        if name in env:
            return env[name]
        if name in self.props:
            key = ('prop', name)
            if key in env:
                raise _Cannot(f'`{name}` depends on itself')
            env2 = dict(env)
            env2[key] = True
            r = self.run(self.props[name].node.body, env2, {})
            if r is None:
                raise _Cannot(f'`{name}` can end without a return')
            return r[0]
        ca = self.ec.class_assignments().get(name)
        if ca is not None and name not in self.domains:
            return self.ev(ca, env, {})
        raise _Cannot(f'`self.{name}` has no finite domain')

    def run(self, stmts, env, loc):
        """(value,) when the block returns, None when it falls through"""
        for st in stmts:
            if isinstance(st, ast.Expr) and isinstance(st.value, ast.Constant):
                continue
            if isinstance(st, (ast.Pass, ast.Import, ast.ImportFrom)):
                continue
            if isinstance(st, ast.Return):
                return (self.ev(st.value, env, loc) if st.value is not None else None,)
            if isinstance(st, ast.If):
                r = self.run(st.body if self.ev(st.test, env, loc) else st.orelse, env, loc)
                if r is not None:
                    return r
            elif isinstance(st, (ast.Assign, ast.AnnAssign)) and st.value is not None:
                tg = st.targets if isinstance(st, ast.Assign) else [st.target]
                if len(tg) != 1 or not isinstance(tg[0], ast.Name):
                    raise _Cannot(f'statement `{norm(st)[:40]}`')
                loc[tg[0].id] = self.ev(st.value, env, loc)
            elif isinstance(st, ast.Match):
                subj = self.ev(st.subject, env, loc)
                for c in st.cases:
                    if c.guard is not None:
                        raise _Cannot('guarded case')
                    pats = c.pattern.patterns if isinstance(c.pattern, ast.MatchOr) else [c.pattern]
                    hit = False
                    for p_ in pats:
                        if isinstance(p_, ast.MatchAs) and p_.pattern is None:
                            hit = True
                        elif isinstance(p_, ast.MatchValue):
                            hit = hit or subj == self.ev(p_.value, env, loc)
                        else:
                            raise _Cannot('pattern')
                    if hit:
                        r = self.run(c.body, env, loc)
                        if r is not None:
                            return r
                        break
            else:
                raise _Cannot(f'statement `{norm(st)[:40]}`')
        return None

    def assignments(self, fields):
        import itertools
        fields = sorted(fields)
        for combo in itertools.product(*(self.domains[f] for f in fields)):
            yield dict(zip(fields, combo))

    def own_switch(self, label):
        """(field, predicate 'is off') of the option that the documentation gives species group `label`: the bool field
        `<label>_enabled`, or the enum field `<label>_method` whose member NONE disables it"""
        f = f'{label}_enabled'
        if self.domains.get(f) == [True, False]:
            return f, (lambda v: v is False), f'{f} = False'
        f = f'{label}_method'
        if f in self.domains and any(isinstance(v, _Member) and v.name == 'NONE' for v in self.domains[f]):
            return f, (lambda v: isinstance(v, _Member) and v.name == 'NONE'), f'{f} = NONE'
        return None


def rule_own_switch(ctx, paths_by_species):
    """R6 (truth table): a species group that is switched off is not enabled, whatever the other options say."""
    prog = ctx.prog
    cm = prog.module(CFGE)
    ec = cm.cls('EmissionsConfig')
    tab = _ConfigTable(prog, cm, ec)
    ctx.floor('C11-R6/domains', len(tab.domains), 10, 'option fields with a finite domain')
    n = 0
    # (a) every derived switch `<label>_enabled` on its own
    for name, fi in sorted(tab.props.items()):
        if not name.endswith('_enabled'):
            continue
        label = name[:-len('_enabled')]
        sw = tab.own_switch(label)
        if sw is None or sw[0] == name:
            continue
        fields = tab.reads(fi.node) | {sw[0]}
        bad, total = None, 0
        try:
            for env in tab.assignments(fields):
                if sw[1](env[sw[0]]):
                    total += 1
                    if tab.attr(name, dict(env)) and bad is None:
                        bad = env
        except _Cannot as e:
            ctx.undecided('C11-R6', fi, name, f'cannot evaluate the switch over its option fields: {e}')
        n += 1
        others = sorted(fields - {sw[0]})
        ctx.ob('C11-R6', fi, f'`{name}` is off whenever {sw[2]}', bad is None,
               (f'false for all {total} assignments of {sorted(fields)} with {sw[2]}' if bad is None else
                f'`{name}` is true for {", ".join(f"{k}={v!r}" for k, v in sorted(bad.items()))}: the species is switched off '
                f'({sw[2]}) but counts as enabled because of {others}, so enabled_species contains it and the trajectory and '
                'LTO parts report it non-zero'), line=fi.node.lineno)
    ctx.floor('C11-R6/switches', n, 5, 'derived `<label>_enabled` switches evaluated')
    # (b) every species of enabled_species, through the conditions on its path(s)
    fi = cm.func('EmissionsConfig.enabled_species')
    for sp, paths in sorted(paths_by_species.items()):
        labels = {t[len('self.'):-len('_enabled')] for g in paths for t, pol in g
                  if pol and t.startswith('self.') and t.endswith('_enabled') and t[len('self.'):].isidentifier()}
        label = sp.lower() if tab.own_switch(sp.lower()) else (next(iter(labels)) if len(labels) == 1 else None)
        sw = tab.own_switch(label) if label else None
        if sw is None:
            continue
        try:
            conds = [[(ast.parse(t, mode='eval').body, pol) for t, pol in g] for g in paths]
        except SyntaxError:
            continue
        fields = {sw[0]}
        for g in conds:
            for c, _pol in g:
                fields |= tab.reads(c)
        bad = None
        try:
            for env in tab.assignments(fields):
                if sw[1](env[sw[0]]) and any(all(bool(tab.ev(c, dict(env), {})) == pol for c, pol in g) for g in conds):
                    bad = env
                    break
        except _Cannot:
            continue        # a condition outside the option fields: the symbolic table rule decides (or is undecided)
        ctx.ob('C11-R6', fi, f'Species.{sp} is not enabled when {sw[2]}', bad is None,
               f'for every assignment of {sorted(fields)}' if bad is None else
               f'Species.{sp} is put into enabled_species for {", ".join(f"{k}={v!r}" for k, v in sorted(bad.items()))}: '
               f'switched off ({sw[2]}), yet enabled', line=fi.node.lineno)


def implication_table(ctx):
    """group label -> species, from EmissionsConfig.enabled_species: which `<label>_enabled` switch (and which
    further condition) each species needs to get into the set - computed from what the property *does*, not from
    how its calls are spelt."""
    m = ctx.prog.module(CFGE)
    fi = m.func('EmissionsConfig.enabled_species')
    groups = {}
    try:
        it = _SpeciesSetInterp(fi.node)
        it.block(fi.node.body, {}, [])
    except _Cannot as e:
        ctx.undecided('C11-R3/table', fi, 'enabled_species', f'cannot evaluate which species each switch enables: {e}')
    by_sp: dict[str, list] = {}
    for sp, guards in it.out:
        by_sp.setdefault(sp, []).append(guards)
    rule_own_switch(ctx, by_sp)
    for sp, paths in by_sp.items():
        if len(paths) != 1:
            ctx.undecided('C11-R3/table', fi, f'Species.{sp}', f'added on {len(paths)} different paths')
        sw = [(t, pol) for t, pol in paths[0] if t.startswith('self.') and t.endswith('_enabled')
              and t[len('self.'):].isidentifier()]
        extra = [('' if pol else 'not ') + t for t, pol in paths[0] if (t, pol) not in sw]
        if len(sw) != 1 or not sw[0][1]:
            ctx.undecided('C11-R3/table', fi, f'Species.{sp}',
                          f'enabled under {[("" if p else "not ") + t for t, p in paths[0]]}: not exactly one `<label>_enabled` switch')
        label = sw[0][0][len('self.'):-len('_enabled')]
        groups.setdefault(label, {'species': set(), 'conditional': {}})
        if extra:
            groups[label]['conditional'][sp] = extra
        else:
            groups[label]['species'].add(sp)
    # R6: a species that has a switch of its own must be enabled by that switch
    ec = m.cls('EmissionsConfig')
    own = set(ec.all_fields()) | set(ec.methods)
    for label in sorted(groups):
        if f'{label}_enabled' not in own:
            ctx.ob('C11-R6', fi, f'switch `{label}_enabled` exists', False,
                   f'enabled_species reads `self.{label}_enabled`, which EmissionsConfig does not have: every use of '
                   f'enabled_species fails with AttributeError', line=fi.node.lineno)
    for label, g in sorted(groups.items()):
        for sp in sorted(g['species'] | set(g['conditional'])):
            mine = f'{sp.lower()}_enabled'
            if mine in own and sp.lower() != label:
                ctx.ob('C11-R6', fi, f'Species.{sp} enabled by `{label}_enabled`', False,
                       f'EmissionsConfig has `{mine}` (from {sp.lower()}_method), but enabled_species puts Species.{sp} in the '
                       f'`{label}` group: switching {sp} off has no effect and it keeps being computed (and switching '
                       f'{label.upper()} off removes it)', line=fi.node.lineno)
            else:
                ctx.ob('C11-R6', fi, f'Species.{sp} enabled by `{label}_enabled`', True,
                       'own switch' if sp.lower() == label else 'member of a multi-species group without a switch of its own',
                       line=fi.node.lineno, nontrivial=False)
    ctx.floor('C11-R3/table', len(groups), 7, 'species groups in enabled_species')
    return groups


def species_enabled_by(atoms, K: str, groups, keyvar: str | None = None) -> str | None:
    """Does some fact imply species K is switched on?  Returns the fact text."""
    label = next((l for l, g in groups.items() if K in g['species'] or K in g['conditional']), None)
    for t, pol in atoms:
        txt = norm(t) if not (isinstance(t, ast.Compare) and isinstance(t.comparators[0], ast.pattern)) else None
        if txt is not None and pol:
            # Species.J in config.emissions.enabled_species
            if isinstance(t, ast.Compare) and isinstance(t.ops[0], ast.In) and 'enabled_species' in norm(t.comparators[0]):
                j = t.left.attr if isinstance(t.left, ast.Attribute) else None
                if j == K:
                    return txt
                if j and label and j in groups[label]['species'] and K in groups[label]['species']:
                    return txt
                if keyvar and norm(t.left) == keyvar:
                    return txt
            if label and txt == f'config.emissions.{label}_enabled' and K in groups[label]['species']:
                return txt
        if txt is not None and not pol and label and K in groups[label]['species']:
            # not (not enabled or method is NONE)  -> handled through conjuncts with pol False
            if txt in (f'not config.emissions.{label}_enabled',):
                return 'not (' + txt + ')'
            if txt == f'config.emissions.{label}_method is {_enum_of(label)}.NONE' or \
                    txt == f'config.emissions.{label}_method == {_enum_of(label)}.NONE':
                return 'not (' + txt + ')'
        if txt is None and pol and label and K in groups[label]['species']:
            # inside a match arm on config.emissions.<label>_method with a non-NONE member
            subj = norm(t.left)
            if subj == f'config.emissions.{label}_method':
                pats = _pattern_members(t.comparators[0])
                if pats and 'NONE' not in pats:
                    return f'case {"|".join(sorted(pats))} of {subj}'
    return None


def _enum_of(label):
    return {'nox': 'EINOxMethod', 'hc': 'EINOxMethod', 'co': 'EINOxMethod', 'pmvol': 'PMvolMethod',
            'pmnvol': 'PMnvolMethod'}.get(label, '?')


def _pattern_members(p) -> set[str] | None:
    if isinstance(p, ast.MatchValue) and isinstance(p.value, ast.Attribute):
        return {p.value.attr}
    if isinstance(p, ast.MatchOr):
        out = set()
        for q in p.patterns:
            r = _pattern_members(q)
            if r is None:
                return None
            out |= r
        return out
    return None


def is_literal_zero(v: ast.AST) -> bool:
    if isinstance(v, ast.Constant) and v.value in (0, 0.0):
        return True
    if isinstance(v, ast.Call):
        cn = call_name(v)
        if cn in ('np.zeros', 'np.zeros_like', 'numpy.zeros'):
            return True
        if cn == 'ThrustModeValues' and (not v.args or (len(v.args) == 1 and isinstance(v.args[0], ast.Constant)
                                                         and v.args[0].value in (0, 0.0))):
            return True
    return False


# ---------------------------------------------------------------- R1 -----
def rule_dispatch(ctx):
    prog = ctx.prog
    cm = prog.module(CFGE)
    ec = cm.cls('EmissionsConfig')
    fields = ec.annotated_fields()
    sites = 0
    for rel in ('emissions/trajectory.py', 'emissions/lto.py', 'emissions/apu.py', 'emissions/emission.py', 'emissions/utils.py'):
        m = prog.module(rel)
        for fi in m.functions.values():
            # match statements
            for x in walk_no_nested(fi.node):
                if isinstance(x, ast.Match) and norm(x.subject).startswith('config.emissions.') \
                        and norm(x.subject).endswith('_method'):
                    attr = norm(x.subject).split('.')[-1]
                    enum = prog.resolve_class_expr(cm, fields[attr]) if attr in fields else None
                    if enum is None:
                        ctx.undecided('C11-R1', fi, norm(x.subject), 'cannot resolve the method enum')
                    members = [k for k, v in enum.class_assignments().items() if isinstance(v, ast.Constant)]
                    handled = set()
                    default = None
                    for c in x.cases:
                        pm = _pattern_members(c.pattern)
                        if pm is None:
                            default = c
                        else:
                            handled |= pm
                    sites += 1
                    _dispatch_verdict(ctx, fi, x, attr, members, handled, default.body if default else None)
            # if / elif chains on `config.emissions.X_method is Enum.M`
            for x in walk_no_nested(fi.node):
                if isinstance(x, ast.If) and not (isinstance(getattr(x, '_parent', None), ast.If)
                                                  and x in getattr(x._parent, 'orelse', [])):
                    chain, cur, attr = [], x, None
                    while isinstance(cur, ast.If):
                        t = cur.test
                        mem = None
                        if isinstance(t, ast.Compare) and len(t.ops) == 1 and isinstance(t.ops[0], (ast.Is, ast.Eq)) \
                                and norm(t.left).startswith('config.emissions.') and norm(t.left).endswith('_method') \
                                and isinstance(t.comparators[0], ast.Attribute):
                            mem = t.comparators[0].attr
                            attr = norm(t.left).split('.')[-1]
                        if mem is None:
                            break
                        chain.append(mem)
                        nxt = cur.orelse
                        if len(nxt) == 1 and isinstance(nxt[0], ast.If):
                            cur = nxt[0]
                        else:
                            cur = nxt
                    if len(chain) >= 2 and attr in fields:
                        enum = prog.resolve_class_expr(cm, fields[attr])
                        members = [k for k, v in enum.class_assignments().items() if isinstance(v, ast.Constant)]
                        handled = set(chain)
                        # an early `if … method is NONE: return` before the chain also handles NONE
                        for t, pol in early_exit_facts(fi.node, x):
                            for tt, pp in conjuncts(t, pol):
                                if not pp and isinstance(tt, ast.Compare) and attr in norm(tt.left) \
                                        and isinstance(tt.comparators[0], ast.Attribute):
                                    handled.add(tt.comparators[0].attr)
                        sites += 1
                        _dispatch_verdict(ctx, fi, x, attr, members, handled, cur if isinstance(cur, list) else None)
    ctx.floor('C11-R1', sites, 5, 'method dispatch sites')


def _dispatch_verdict(ctx, fi, node, attr, members, handled, default_body):
    missing = [m for m in members if m not in handled]
    raises = None
    if default_body:
        for s in default_body:
            if isinstance(s, ast.Raise) and s.exc is not None:
                raises = s
    named = raises is not None and isinstance(raises.exc, ast.Call) \
        and call_name(raises.exc) in ('NotImplementedError', 'ValueError') \
        and f'config.emissions.{attr}' in norm(raises.exc)
    for mem in members:
        if mem in handled:
            ctx.ob('C11-R1', fi, f'{attr}: member {mem} has an explicit arm', True, 'explicit arm', line=node.lineno,
                   nontrivial=False)
        else:
            ctx.ob('C11-R1', fi, f'{attr}: member {mem} falls to the default arm', bool(named),
                   'default arm raises NotImplementedError/ValueError naming the method value' if named else
                   (f'{mem} is neither handled nor refused by name: the call continues with unset locals / '
                    'returns nothing (an internal error or a silently wrong inventory)'), line=node.lineno)
    if not missing:
        ctx.ob('C11-R1', fi, f'{attr}: dispatch covers {sorted(handled)}', True, 'all members handled explicitly',
               line=node.lineno)


def _governing(node, keyvar: str):
    """the iteration that binds `keyvar` around node: (owner, map_iteration result or None, iter expr).  The
    key variable may be the loop target itself (`for k in …`) or the key half of `for k, v in m.items()`."""
    for owner, tgt, it in enclosing_iterations(node):
        mi = map_iteration(tgt, it)
        if mi is not None and mi[1] == keyvar:
            return owner, mi, it
        if mi is None and isinstance(tgt, ast.Name) and tgt.id == keyvar:
            return owner, None, it
    return None


# ---------------------------------------------------------------- R2 -----
def rule_reads(ctx, groups):
    prog = ctx.prog
    n = 0
    for rel in READ_SCOPE:
        m = prog.module(rel)
        for fi in m.functions.values():
            for x in walk_no_nested(fi.node):
                if not (isinstance(x, ast.Subscript) and isinstance(x.ctx, ast.Load)):
                    continue
                key = x.slice
                is_species_key = isinstance(key, ast.Attribute) and norm(key.value) == 'Species'
                is_var_key = isinstance(key, ast.Name) and key.id in ('species', 'sp')
                if not (is_species_key or is_var_key):
                    continue
                base = x.value
                btxt = norm(base)
                # only maps of species: parameter annotated SpeciesValues, local SpeciesValues(), attr chains *emissions/*indices
                cls = expr_class(prog, fi, base) if isinstance(base, ast.Name) else None
                if isinstance(base, ast.Name):
                    if not (cls is not None and cls.name == 'SpeciesValues') and base.id not in (
                            'indices', 'emissions', 'gse', 'lto_indices', 'lto_emissions', 'trajectory', 'lto', 'apu',
                            'nominal', 'result'):
                        continue
                elif not any(s in btxt for s in ('emissions', 'indices')):
                    continue
                n += 1
                K = key.attr if is_species_key else None
                ktxt = norm(key)
                atoms = facts_at(fi.node, x)
                ok = False
                why = ''
                for t, pol in atoms:
                    if isinstance(t, ast.Compare) and isinstance(t.comparators[0], ast.pattern):
                        continue
                    if pol and isinstance(t, ast.Compare) and isinstance(t.ops[0], ast.In) \
                            and norm(t.left) == ktxt and norm(t.comparators[0]) == btxt:
                        ok, why = True, f'guarded by `{norm(t)}`'
                if not ok and K:
                    g = species_enabled_by(atoms, K, groups)
                    if g and isinstance(base, ast.Attribute):
                        ok, why = True, f'configuration guard `{g}` (totals contain every species)'
                if not ok and isinstance(base, ast.Name) and base.id not in fi.params:
                    # local map: an unconditional earlier store of the same key in this function
                    for t, st, how in stores_to(fi.node):
                        if isinstance(t, ast.Subscript) and norm(t.value) == btxt and norm(t.slice) == ktxt \
                                and st.lineno < x.lineno and st in fi.node.body:
                            ok, why = True, f'key stored unconditionally at line {st.lineno}'
                    # an earlier top-level loop stored the key: over a literal list containing it,
                    # or over the same mapping this read's loop walks
                    mine = _governing(x, ktxt)
                    my_loop = mine[0] if mine else None
                    for s0 in fi.node.body:
                        if isinstance(s0, ast.For) and s0.lineno < x.lineno and s0 is not my_loop:
                            mi0 = map_iteration(s0.target, s0.iter)
                            lv = mi0[1] if mi0 else (s0.target.id if isinstance(s0.target, ast.Name) else None)
                            stores_lv = lv is not None and any(
                                isinstance(b, ast.Assign) and isinstance(b.targets[0], ast.Subscript)
                                and norm(b.targets[0].value) == btxt and norm(b.targets[0].slice) == lv for b in s0.body)
                            if not stores_lv:
                                continue
                            if isinstance(s0.iter, (ast.List, ast.Tuple)) and ktxt in [norm(e) for e in s0.iter.elts]:
                                ok, why = True, f'key stored by the literal-list loop at line {s0.lineno}'
                            if mine is not None and mine[1] is not None and mi0 is not None and mi0[0] == mine[1][0]:
                                ok, why = True, f'stored for every key of {mi0[0]} by the loop at line {s0.lineno}'
                            elif mine is not None and mine[1] is None and mi0 is None and norm(s0.iter) == norm(mine[2]):
                                ok, why = True, f'stored for every element of {norm(s0.iter)[:40]} by the loop at line {s0.lineno}'
                    # loop over the map's own keys
                    if mine is not None and mine[1] is not None and mine[1][0] == btxt:
                        ok, why = True, f'iterating the map\'s own keys ({norm(mine[2])})'
                    if mine is not None and mine[1] is None and isinstance(mine[2], (ast.List, ast.Tuple)):
                        ok, why = True, 'iterating a literal key list stored by the producer just above'
                if not ok and isinstance(base, ast.Name) and base.id in fi.params:
                    mine = _governing(x, ktxt)
                    if mine is not None and mine[1] is not None and mine[1][0] == btxt:
                        ok, why = True, f'iterating the map\'s own keys ({norm(mine[2])})'
                if not ok and isinstance(base, ast.Name):
                    # a map returned by a helper that stores the key on every path (gse nominal profile)
                    d = single_def_value(fi.node, base.id)
                    if d is None:
                        from ..astutil import tuple_def_component
                        td = tuple_def_component(fi.node, base.id)
                        d = td[0] if td else None
                    if isinstance(d, ast.Call):
                        callee = resolve_call(prog, fi, d)
                        if callee is not None:
                            rets = [r for r in walk_no_nested(callee.node) if isinstance(r, ast.Return)]
                            if rets and all(ktxt in norm(r.value) or any(
                                    ktxt in norm(e) for e in ast.walk(r.value) if isinstance(e, ast.Dict)) for r in rets):
                                ok, why = True, f'every return of {callee.name} builds the map with this key'
                            for a in ancestors(x):
                                if isinstance(a, ast.For) and norm(a.target) == ktxt and isinstance(a.iter, ast.List) and rets \
                                        and all(all(norm(e) in norm(r.value) for e in a.iter.elts) for r in rets):
                                    ok, why = True, f'every return of {callee.name} contains all keys of the loop'
                ctx.ob('C11-R2', fi, f'read {btxt}[{ktxt}]', ok, why if ok else
                       (f'`{btxt}` only contains {ktxt} under some configurations (e.g. with the species switched '
                        f'off); this read is unguarded and raises KeyError for the others'), line=x.lineno)
    ctx.floor('C11-R2', n, 20, 'species-map key reads')


def _only_enabled_keys(prog, fi, it: ast.AST, groups) -> str | None:
    """The iterable `it` walks a mapping produced by a repository function (directly, `f(x).items()`, or through a
    single-definition local) that puts a species into the mapping it returns only under a fact implying that
    species' switch: then every key it yields is enabled.  Returns the reason, or None when that cannot be shown."""
    im = iterated_mapping(it)
    if im is None:
        return None
    m = im[0]
    if isinstance(m, ast.Name):
        m = single_def_value(fi.node, m.id)
    if not isinstance(m, ast.Call):
        return None
    callee = resolve_call(prog, fi, m)
    if callee is None or callee.node.decorator_list:
        return None     # a decorated (e.g. memoised) helper answers for the configuration of an earlier call
    rets = [r.value for r in walk_no_nested(callee.node) if isinstance(r, ast.Return)]
    if not rets or not all(isinstance(r, ast.Name) for r in rets) or len({r.id for r in rets}) != 1:
        return None
    rname = rets[0].id
    if rname in callee.params:
        return None
    n = 0
    for x in walk_no_nested(callee.node):
        # anything that fills the map other than a store under a Species.K key cannot be judged here
        if isinstance(x, ast.Call) and isinstance(x.func, ast.Attribute) and norm(x.func.value) == rname \
                and x.func.attr in ('update', 'setdefault', '__setitem__'):
            return None
    for t, st, how in stores_to(callee.node):
        if isinstance(t, ast.Name) and t.id == rname:
            v = getattr(st, 'value', None)
            if not (isinstance(v, ast.Call) and not v.args and not v.keywords):
                return None     # must start empty: `R = SpeciesValues[...]()` / `{}`-like constructor without content
        if isinstance(t, ast.Subscript) and norm(t.value) == rname:
            if not (isinstance(t.slice, ast.Attribute) and norm(t.slice.value) == 'Species'):
                return None
            if species_enabled_by(facts_at(callee.node, st), t.slice.attr, groups) is None:
                return None
            n += 1
    if not n:
        return None
    return f'the key walks the result of {callee.name}, which inserts each of its {n} species only when it is enabled'


def _literal_species_keys(prog, fi, st, keyvar):
    """the Species members the key variable of statement st walks, when its loop is over a constant collection: a
    tuple / list / set of `Species.K`, a sequence of (Species.K, value) pairs, or a dict display keyed by Species.K
    (`.items()` / keys) - written in place, a single-definition local or a module constant.  None otherwise."""
    def literal(e):
        if isinstance(e, ast.Name):
            v = single_def_value(fi.node, e.id)
            if v is None and not any(isinstance(t, ast.Name) and t.id == e.id for t, _s, _h in stores_to(fi.node)) and e.id not in fi.params:
                r = prog.resolve_name(fi.module, e.id)
                v = r[1].constants[r[2]] if isinstance(r, tuple) and r[0] == 'const' else None
            e = v
        return e

    def member(x):
        return x.attr if isinstance(x, ast.Attribute) and norm(x.value) == 'Species' else None

    for owner, tgt, it in enclosing_iterations(st):
        first = tgt.elts[0] if isinstance(tgt, (ast.Tuple, ast.List)) and tgt.elts else tgt
        if not (isinstance(first, ast.Name) and first.id == keyvar):
            continue
        paired = first is not tgt
        im = iterated_mapping(it)
        src = literal(im[0]) if im is not None and (im[1] == 'items') == paired and im[1] != 'values' else literal(it)
        if isinstance(src, ast.Dict) and (im is not None):
            keys = [member(k) for k in src.keys]
        elif isinstance(src, (ast.Tuple, ast.List, ast.Set)) and not paired:
            keys = [member(x) for x in src.elts]
        elif isinstance(src, (ast.Tuple, ast.List)) and paired:
            keys = [member(x.elts[0]) if isinstance(x, (ast.Tuple, ast.List)) and x.elts else None for x in src.elts]
        else:
            return None
        return keys if keys and all(keys) else None
    return None


# ---------------------------------------------------------------- R3 -----
def rule_stores(ctx, groups):
    prog = ctx.prog
    n = 0
    n_fn = 0
    for rel in PRODUCER_ENTRIES:
        for fi, maps in _producers(prog, rel):
            n_fn += 1
            name = fi.name
            call_facts = None
            cs = callers_of(prog, fi)
            if cs and name != PRODUCER_ENTRIES[rel]:
                sets = []
                for caller, call in cs:
                    if caller.file.startswith('src/AEIC/emissions'):
                        sets.append(facts_at(caller.node, call))
                call_facts = sets
            for t, st, how in stores_to(fi.node):
                targets = [t]
                if not (isinstance(t, ast.Subscript) and norm(t.value) in maps):
                    continue
                key = t.slice
                if isinstance(key, ast.Attribute) and norm(key.value) == 'Species':
                    K, keyvar = key.attr, None
                elif isinstance(key, ast.Name):
                    K, keyvar = None, key.id
                else:
                    continue
                n += 1
                val = getattr(st, 'value', None)
                if val is not None and is_literal_zero(val):
                    ctx.ob('C11-R3', fi, f'{norm(t)} = {norm(val)[:30]}', True, 'literal zero contributes nothing',
                           line=st.lineno, nontrivial=False)
                    continue
                atoms = facts_at(fi.node, st)
                if K is None:
                    # variable key: needs `key in enabled_species`, or the value is a re-store of the same key
                    g = None
                    for tt, pol in atoms:
                        if pol and isinstance(tt, ast.Compare) and not isinstance(tt.comparators[0], ast.pattern) \
                                and isinstance(tt.ops[0], ast.In) and norm(tt.left) == keyvar \
                                and 'enabled_species' in norm(tt.comparators[0]):
                            g = norm(tt)
                    # the key is already in the map - nothing that was off can get in - when the value reads the
                    # map at that key, or when the key variable walks the map's own keys (`for k in m`, `m.keys()`,
                    # `for k, v in m.items()`, possibly through list()/sorted())
                    restore = val is not None and f'{norm(t.value)}[{keyvar}]' in norm(val)
                    gov = _governing(st, keyvar)
                    own_keys = gov is not None and gov[1] is not None and gov[1][0] == norm(t.value)
                    filtered = None
                    if g is None and not restore and not own_keys and gov is not None and gov[1] is not None:
                        filtered = _only_enabled_keys(prog, fi, gov[2], groups)
                    if g is None and not restore and not own_keys and filtered is None:
                        # the key walks a constant collection of Species members: each of them is a store under a
                        # constant key at this place
                        lit = _literal_species_keys(prog, fi, st, keyvar)
                        if lit:
                            for K_ in lit:
                                g_ = species_enabled_by(atoms, K_, groups)
                                where = 'in the producer'
                                if g_ is None and call_facts:
                                    gs = [species_enabled_by(a, K_, groups) for a in call_facts]
                                    if gs and all(gs):
                                        g_, where = gs[0], 'at every call site'
                                ctx.ob('C11-R3', fi, f'{norm(t)} for {keyvar} = Species.{K_}', g_ is not None,
                                       f'implied on: `{g_}` ({where})' if g_ else
                                       (f'Species.{K_} is written into the {rel.split("/")[-1][:-3]} indices without any guard implying '
                                        f'its switch is on: a switched-off species shows up in the inventory'), line=st.lineno)
                            continue
                    ok = g is not None or restore or own_keys or filtered is not None
                    ctx.ob('C11-R3', fi, f'{norm(t)} = {norm(val)[:40] if val is not None else ""}', ok,
                           (f'guarded by `{g}`' if g else 'rewrites a key the map already contains' if restore else
                            f'the key walks the map\'s own keys ({norm(gov[2])[:40]}): it is already present' if own_keys else
                            filtered) if ok else
                           'a species taken from a variable is stored without testing that it is enabled', line=st.lineno)
                    continue
                g = species_enabled_by(atoms, K, groups)
                where = 'in the producer'
                if g is None and call_facts:
                    gs = [species_enabled_by(a, K, groups) for a in call_facts]
                    if gs and all(gs):
                        g, where = gs[0], 'at every call site'
                ctx.ob('C11-R3', fi, f'{norm(t)} = {norm(val)[:40] if val is not None else ""}', g is not None,
                       f'implied on: `{g}` ({where})' if g else
                       (f'Species.{K} is written into the {rel.split("/")[-1][:-3]} indices without any guard implying '
                        f'its switch is on: a switched-off species shows up in the inventory'), line=st.lineno)
    ctx.floor('C11-R3/producers', n_fn, 2, 'functions that build the trajectory and LTO index maps')
    ctx.floor('C11-R3', n, 18, 'species stores in trajectory and LTO producers')


# ---------------------------------------------------------------- R4 -----
def rule_elements(ctx):
    prog = ctx.prog
    tm = prog.cls('performance/types.py', 'ThrustMode')
    enum_only = set(tm.methods) - {'__str__', '_missing_'}
    ctx.floor('C11-R4/attrs', len(enum_only), 1, 'ThrustMode-only attributes')
    n = 0
    mods = [prog.module(r) for r in ('emissions/trajectory.py', 'emissions/lto.py', 'emissions/utils.py')]
    if ctx.tier == 'thorough':
        mods = [m for m in prog.src_modules() if '/emissions/' in m.relpath]
    for m in mods:
        for fi in m.functions.values():
            arr_params = set()
            a = fi.node.args
            for arg in a.posonlyargs + a.args + a.kwonlyargs:
                if arg.annotation is not None and 'ThrustModeArray' in norm(arg.annotation):
                    arr_params.add(arg.arg)
            if not arr_params:
                continue
            for x in ast.walk(fi.node):
                tgt = it = None
                if isinstance(x, ast.For):
                    tgt, it = x.target, x.iter
                elif isinstance(x, ast.comprehension):
                    tgt, it = x.target, x.iter
                if it is None or not isinstance(tgt, ast.Name):
                    continue
                raw = isinstance(it, ast.Name) and it.id in arr_params or \
                    (isinstance(it, ast.Attribute) and it.attr == 'data' and norm(it.value) in arr_params)
                if not raw and isinstance(it, ast.Call) and isinstance(it.func, ast.Attribute) \
                        and norm(it.func.value) in arr_params:
                    # a method of the array class: np.vectorize(<str-mixin enum>) without otypes=[object] lets numpy
                    # infer a string dtype, so the elements are numpy strings again, not enum members
                    meth = prog.cls('performance/types.py', 'ThrustModeArray').methods.get(it.func.attr)
                    if meth is not None:
                        rets = [r.value for r in walk_no_nested(meth.node) if isinstance(r, ast.Return) and r.value is not None]
                        for rv in rets:
                            if isinstance(rv, ast.Call) and isinstance(rv.func, ast.Call) and call_name(rv.func) in ('np.vectorize', 'numpy.vectorize') \
                                    and rv.func.args and norm(rv.func.args[0]) == 'ThrustMode' \
                                    and not any(k.arg == 'otypes' for k in rv.func.keywords) \
                                    and any(b in ('str', 'StrEnum', 'enum.StrEnum') for k in tm.mro() for b in k.base_exprs):
                                raw = True
                if not raw:
                    continue
                scope = x if isinstance(x, ast.For) else getattr(x, '_parent', x)
                for u in ast.walk(scope):
                    if isinstance(u, ast.Attribute) and isinstance(u.value, ast.Name) and u.value.id == tgt.id \
                            and u.attr in enum_only:
                        n += 1
                        ctx.ob('C11-R4', fi, f'{tgt.id}.{u.attr} on raw element of {norm(it)}', False,
                               f'iterating a ThrustModeArray yields raw values (numpy str), which have no '
                               f'`{u.attr}`: AttributeError for every configuration reaching this line',
                               line=u.lineno)
                    if isinstance(u, ast.Attribute) and u.attr in enum_only and isinstance(u.value, ast.Call) \
                            and call_name(u.value) == 'ThrustMode' and u.value.args \
                            and norm(u.value.args[0]) == tgt.id:
                        n += 1
                        ctx.ob('C11-R4', fi, f'ThrustMode({tgt.id}).{u.attr}', True,
                               'raw element converted to the enum before use', line=u.lineno)
    ctx.floor('C11-R4', n, 1, 'uses of ThrustMode-only attributes on array elements')


# ---------------------------------------------------------------- R5 -----
def rule_switches(ctx):
    prog = ctx.prog
    m = prog.module('emissions/emission.py')
    ce = m.func('compute_emissions')
    st = m.func('sum_total_emissions')
    for comp in ('apu', 'gse'):
        comp_calls = [c for c in calls_in(ce.node) if call_name(c).lower() == f'get_{comp}_emissions']
        if not comp_calls:
            ctx.undecided('C11-R5', ce, comp, 'component computation not found')
        cg = {norm(t) for t, pol in facts_at(ce.node, comp_calls[0]) if pol and 'config.emissions' in norm(t)}
        sg = set()
        for x in walk_no_nested(st.node):
            if isinstance(x, ast.AugAssign) and f'{comp}[' in norm(x.value):
                sg = {norm(t) for t, pol in facts_at(st.node, x) if pol and 'config.emissions' in norm(t)}
        ok = cg == sg and len(cg) == 1 and f'{comp}_enabled' in next(iter(cg))
        ctx.ob('C11-R5', st, f'{comp}: computed under {sorted(cg)}, summed under {sorted(sg)}', ok,
               'same switch' if ok else
               f'the {comp.upper()} part is computed under one switch and added to the totals under another: '
               'with exactly one of them on, totals no longer equal the sum of the parts')


def rule_lifecycle(ctx):
    """R5b: the life-cycle CO2 adjustment that is *reported* and the one that is
    *added to the CO2 total* are produced under the same configuration switches."""
    prog = ctx.prog
    m = prog.module('emissions/emission.py')
    ce = m.func('compute_emissions')

    def cfg_atoms(node):
        out = set()
        for t, pol in facts_at(ce.node, node):
            if isinstance(t, ast.Compare) and isinstance(t.comparators[0], ast.pattern):
                continue
            txt = norm(t)
            if 'config.emissions' in txt:
                out.add(('' if pol else 'not ') + txt)
        return out

    def effective(site, val):
        g = cfg_atoms(site)
        if isinstance(val, ast.Name):
            defs = [st for t, st, how in stores_to(ce.node) if isinstance(t, ast.Name) and t.id == val.id
                    and not (isinstance(getattr(st, 'value', None), ast.Constant) and st.value.value in (None, 0, 0.0))]
            if len(defs) == 1:
                g |= cfg_atoms(defs[0])
        return g

    add_site = rep_site = None
    for x in walk_no_nested(ce.node):
        if isinstance(x, ast.AugAssign) and norm(x.target).endswith('total_emissions[Species.CO2]'):
            add_site = (x, x.value)
        if isinstance(x, ast.Assign) and isinstance(x.targets[0], ast.Attribute) and x.targets[0].attr == 'lifecycle_co2':
            rep_site = (x, x.value)
        if isinstance(x, ast.Call) and call_name(x) == 'Emissions':
            for k in x.keywords:
                if k.arg == 'lifecycle_co2':
                    rep_site = (x, k.value)
    if add_site is None or rep_site is None:
        ctx.undecided('C11-R5', ce, 'life-cycle adjustment', 'add / report sites not found')
    ga, gr = effective(*add_site), effective(*rep_site)
    ok = ga == gr and bool(ga)
    ctx.ob('C11-R5', ce, f'life-cycle CO2: added under {sorted(ga)}, reported under {sorted(gr)}', ok,
           'one condition for both' if ok else
           'the reported life-cycle adjustment and the one added to the CO2 total are governed by different switches: '
           'for the combination where they differ the CO2 total no longer equals the sum of its parts plus the reported adjustment',
           line=add_site[0].lineno)


# ---------------------------------------------------------------- R7 -----
_VIEW_FUNCS = {'asarray', 'asanyarray', 'atleast_1d', 'atleast_2d', 'squeeze', 'expand_dims', 'transpose', 'swapaxes',
               'reshape', 'moveaxis', 'broadcast_to'}
_VIEW_METHODS = {'view', 'reshape', 'transpose', 'swapaxes', 'squeeze'}
_INPLACE_METHODS = {'fill', 'sort', 'put', 'itemset', 'resize', 'partition', 'setfield'}
_INPLACE_FUNCS = {'put', 'place', 'putmask', 'copyto', 'put_along_axis', 'fill_diagonal'}
_IMMUTABLE_BYTES = {'bytes', 'tobytes', 'encode', 'read', 'pack', 'getvalue', 'read_bytes'}


class _Writability:
    """May the object an expression evaluates to refuse an in-place store?  A small def-use analysis: origins are
    followed backwards through reaching definitions of locals (on the CFG), through elements of local mappings (a
    re-store of the same element that every path passes kills the older ones), through loops over mappings and
    literal collections, view-preserving numpy operations, and the returns of resolved repository functions.  An origin
    is reported only when it is a constructor known to hand out something that cannot be stored into:
      np.broadcast_to, sliding_window_view (read-only views); as_strided(writeable=False); np.frombuffer over immutable
      bytes; an array after `.flags.writeable = False` / `.setflags(write=False)`; MappingProxyType; and an object of a
      repository class whose constructor takes `mutable` (default False) built without mutable=True, or after
      `.freeze()` - `.copy(mutable=True)` makes a fresh writable one, `.copy()` keeps what it had.
    Tags: (kind, what, file, line) with kind 'np' (numpy refuses: ValueError) or 'frozen' (the class refuses:
    TypeError); ('param', name) stands for "whatever the caller passed"."""

    def __init__(self, prog):
        self.prog = prog
        self._cfg = {}
        self._defs = {}
        self._busy = set()
        self._memo = {}

    # ---- per-function tables
    def cfg(self, fi):
        from ..cfg import CFG
        k = id(fi.node)
        if k not in self._cfg:
            try:
                self._cfg[k] = CFG(fi.node)
            except Exception:
                self._cfg[k] = None
        return self._cfg[k]

    def nodes(self, fi, stmt):
        g = self.cfg(fi)
        if g is None or stmt is None:
            return []
        return [n for n in g.nodes_of(stmt) if g.nodes[n].kind != 'join']

    def defs(self, fi):
        """name -> [(statement, kind, payload)]: kind 'value' (expr), 'tuple' (expr, index), 'iter' (target, iter),
        'taint' (tag kind, what), 'unknown'"""
        k = id(fi.node)
        if k in self._defs:
            return self._defs[k]
        out = {}
        fn = fi.node

        def add(name, st, kind, *payload):
            out.setdefault(name, []).append((st, kind, payload))

        for x in walk_no_nested(fn):
            if isinstance(x, ast.Assign):
                for tgt in x.targets:
                    if isinstance(tgt, ast.Name):
                        add(tgt.id, x, 'value', x.value)
                    elif isinstance(tgt, (ast.Tuple, ast.List)):
                        for i, el in enumerate(tgt.elts):
                            if isinstance(el, ast.Name):
                                add(el.id, x, 'tuple', x.value, i)
                            else:
                                for nn in ast.walk(el):
                                    if isinstance(nn, ast.Name) and isinstance(nn.ctx, ast.Store):
                                        add(nn.id, x, 'unknown')
                    elif isinstance(tgt, ast.Attribute) and norm(tgt).endswith('.flags.writeable') and isinstance(tgt.value.value, ast.Name) \
                            and isinstance(x.value, ast.Constant) and x.value.value is False:
                        add(tgt.value.value.id, x, 'taint', 'np', '`.flags.writeable = False`')
            elif isinstance(x, ast.AnnAssign) and isinstance(x.target, ast.Name) and x.value is not None:
                add(x.target.id, x, 'value', x.value)
            elif isinstance(x, (ast.For, ast.AsyncFor)):
                for nn in ast.walk(x.target):
                    if isinstance(nn, ast.Name):
                        add(nn.id, x, 'iter', x.target, x.iter)
            elif isinstance(x, (ast.With, ast.AsyncWith)):
                for it in x.items:
                    if it.optional_vars is not None:
                        for nn in ast.walk(it.optional_vars):
                            if isinstance(nn, ast.Name):
                                add(nn.id, x, 'unknown')
            elif isinstance(x, ast.NamedExpr):
                add(x.target.id, stmt_of(x), 'value', x.value)
            elif isinstance(x, ast.ExceptHandler) and x.name:
                add(x.name, x, 'unknown')
            elif isinstance(x, ast.Expr) and isinstance(x.value, ast.Call) and isinstance(x.value.func, ast.Attribute) \
                    and isinstance(x.value.func.value, ast.Name):
                c = x.value
                if c.func.attr == 'setflags' and any(k.arg == 'write' and isinstance(k.value, ast.Constant) and not k.value.value
                                                     for k in c.keywords):
                    add(c.func.value.id, x, 'taint', 'np', '`.setflags(write=False)`')
                elif c.func.attr == 'freeze' and not c.args:
                    add(c.func.value.id, x, 'taint', 'frozen', '`.freeze()`')
        self._defs[k] = out
        return out

    def _avoiding(self, g, blocked, start_free=None):
        def ok(a, b, lab):
            if a == start_free:
                return lab != 'e'
            return a not in blocked
        return ok

    def reaching(self, fi, name, at):
        """(definitions of local `name` that reach statement `at`, whether the value at function entry also does)"""
        ds = self.defs(fi).get(name, [])
        g = self.cfg(fi)
        use = self.nodes(fi, at)
        if not ds:
            return [], True
        if g is None or not use:
            return ds, True
        dn = {id(d[0]): self.nodes(fi, d[0]) for d in ds}
        alln = {n for v in dn.values() for n in v}
        out = []
        for d in ds:
            mine = dn[id(d[0])]
            if not mine:
                out.append(d)
                continue
            if any(g.reaches(a, u, self._avoiding(g, alln - {a}, a)) for a in mine for u in use):
                out.append(d)
        entry = any(g.reaches(g.entry, u, self._avoiding(g, alln)) for u in use)
        return out, entry

    # ---- origins
    def origin(self, fi, e, at, depth=0):
        key = (id(fi.node), id(e), id(at), 'o')
        if key in self._memo:
            return self._memo[key]
        if key in self._busy or depth > 12 or e is None:
            return set()
        self._busy.add(key)
        try:
            r = self._origin(fi, e, at, depth)
        finally:
            self._busy.discard(key)
        self._memo[key] = r
        return r

    def _tag(self, fi, kind, what, node):
        return (kind, what, fi.file, getattr(node, 'lineno', 0))

    def _mutable_default(self, callee):
        """False when `callee` is the constructor of a repository class that takes `mutable` defaulting to False"""
        if callee is None or callee.cls is None or callee.name != '__init__':
            return None
        a = callee.node.args
        names = [p.arg for p in a.posonlyargs + a.args]
        dflt = dict(zip(names[len(names) - len(a.defaults):], a.defaults))
        dflt.update({p.arg: d for p, d in zip(a.kwonlyargs, a.kw_defaults) if d is not None})
        d = dflt.get('mutable')
        if isinstance(d, ast.Constant) and d.value is False:
            return False
        return None

    def _origin(self, fi, e, at, depth):
        np_only = lambda tags: {t for t in tags if t[0] in ('np', 'param')}     # noqa: E731
        if isinstance(e, ast.IfExp):
            return self.origin(fi, e.body, at, depth + 1) | self.origin(fi, e.orelse, at, depth + 1)
        if isinstance(e, ast.BoolOp):
            return set().union(*(self.origin(fi, v, at, depth + 1) for v in e.values))
        if isinstance(e, (ast.NamedExpr, ast.Starred)):
            return self.origin(fi, e.value, at, depth + 1)
        if isinstance(e, ast.Name):
            return self._name(fi, e, at, depth)
        if isinstance(e, ast.Attribute):
            if e.attr in ('T', 'real', 'imag'):
                return np_only(self.origin(fi, e.value, at, depth + 1))
            return set()
        if isinstance(e, ast.Subscript):
            sl = e.slice
            parts = sl.elts if isinstance(sl, ast.Tuple) else [sl]
            if any(isinstance(p_, ast.Slice) for p_ in parts) or (isinstance(sl, ast.Constant) and sl.value is Ellipsis):
                return np_only(self.origin(fi, e.value, at, depth + 1))      # basic slicing: a view of the same memory
            return self.element(fi, e.value, sl, at, depth + 1)
        if isinstance(e, ast.Call):
            return self._call(fi, e, at, depth)
        return set()

    def _name(self, fi, e, at, depth):
        ds, entry = self.reaching(fi, e.id, at)
        out = set()
        if entry and e.id in fi.params:
            out.add(('param', e.id))
        elif entry and not self.defs(fi).get(e.id):
            r = self.prog.resolve_name(fi.module, e.id)
            if isinstance(r, tuple) and r[0] == 'const':
                out |= self._static(r[1], r[1].constants[r[2]])
        for st, kind, payload in ds:
            if kind == 'value':
                out |= self.origin(fi, payload[0], st, depth + 1)
            elif kind == 'taint':
                out.add(self._tag(fi, payload[0], payload[1], st))
            elif kind == 'tuple':
                v, i = payload
                if isinstance(v, (ast.Tuple, ast.List)) and i < len(v.elts) and not any(isinstance(x, ast.Starred) for x in v.elts):
                    out |= self.origin(fi, v.elts[i], st, depth + 1)
                elif isinstance(v, ast.Call):
                    callee = resolve_call(self.prog, fi, v)
                    if callee is not None and callee.cls is None and not callee.node.decorator_list:
                        for r in walk_no_nested(callee.node):
                            if isinstance(r, ast.Return) and isinstance(r.value, ast.Tuple) and i < len(r.value.elts):
                                out |= self._from_callee(fi, v, at, callee, self.origin(callee, r.value.elts[i], r, depth + 1), depth)
            elif kind == 'iter':
                tgt, it = payload
                mi = map_iteration(tgt, it)
                if mi is not None and mi[2] == e.id:
                    out |= self.elements(fi, iterated_mapping(it)[0], st, depth + 1)
                elif isinstance(tgt, ast.Name):
                    seq = it
                    if isinstance(seq, ast.Name):
                        seq = single_def_value(fi.node, seq.id) or seq
                    if isinstance(seq, ast.Call) and call_name(seq) in ('chain', 'itertools.chain'):
                        seq = ast.Tuple(elts=[ast.Starred(value=a) for a in seq.args])
                    if isinstance(seq, (ast.Tuple, ast.List, ast.Set)):
                        for x in seq.elts:
                            if isinstance(x, ast.Starred):
                                im = iterated_mapping(x.value)
                                if im is not None and im[1] == 'values':
                                    out |= self.elements(fi, im[0], st, depth + 1)
                            else:
                                out |= self.origin(fi, x, st, depth + 1)
        return out

    def _static(self, mod, e):
        """origin of a module-level constant's value (constructor calls only)"""
        if isinstance(e, ast.Call):
            class _M:
                module, qualname, cls, file, params = mod, '<module>', None, mod.relpath, []
                node = mod.tree
            short = call_name(e).split('.')[-1]
            if short == 'MappingProxyType':
                return {('frozen', 'types.MappingProxyType(…)', mod.relpath, e.lineno)}
            r = self.prog.resolve_name(mod, call_name(e)) if isinstance(e.func, ast.Name) else None
            if isinstance(r, ClassInfo):
                init = r.find_method('__init__')
                if self._mutable_default(init) is False:
                    mk = next((k.value for k in e.keywords if k.arg == 'mutable'), None)
                    if not (isinstance(mk, ast.Constant) and mk.value is True):
                        return {('frozen', f'{r.name}(…) without mutable=True', mod.relpath, e.lineno)}
        return set()

    def _from_callee(self, fi, call, at, callee, tags, depth):
        """translate ('param', p) of the callee into what the caller passes for p"""
        out = set()
        for t in tags:
            if t[0] != 'param':
                out.add(t)
                continue
            a = _bound_arg(callee, call, t[1])
            if a is not None:
                out |= self.origin(fi, a, at, depth + 1)
        return out

    def _call(self, fi, c, at, depth):
        name = call_name(c)
        short = name.split('.')[-1]
        np_only = lambda tags: {t for t in tags if t[0] in ('np', 'param')}     # noqa: E731
        kw = {k.arg: k.value for k in c.keywords if k.arg}

        def const(x, v):
            return isinstance(x, ast.Constant) and x.value is v
        if short == 'broadcast_to':
            return {self._tag(fi, 'np', 'np.broadcast_to(…) returns a read-only view', c)}
        if short == 'sliding_window_view' and not const(kw.get('writeable'), True):
            return {self._tag(fi, 'np', 'sliding_window_view(…) returns a read-only view', c)}
        if short == 'as_strided':
            if const(kw.get('writeable'), False):
                return {self._tag(fi, 'np', 'as_strided(…, writeable=False) returns a read-only view', c)}
            return np_only(self.origin(fi, c.args[0], at, depth + 1)) if c.args else set()
        if short == 'frombuffer' and c.args:
            b = c.args[0]
            if (isinstance(b, ast.Constant) and isinstance(b.value, bytes)) or (
                    isinstance(b, ast.Call) and call_name(b).split('.')[-1] in _IMMUTABLE_BYTES):
                return {self._tag(fi, 'np', 'np.frombuffer over immutable bytes is read-only', c)}
            return set()
        if short == 'MappingProxyType':
            return {self._tag(fi, 'frozen', 'types.MappingProxyType(…) cannot be stored into', c)}
        if isinstance(c.func, ast.Attribute) and c.func.attr == 'copy':
            mk = kw.get('mutable') or (c.args[0] if c.args else None)
            if mk is not None:
                if const(mk, True):
                    return set()
                if const(mk, False):
                    return {self._tag(fi, 'frozen', '.copy(mutable=False)', c)}
            return {t for t in self.origin(fi, c.func.value, at, depth + 1) if t[0] in ('frozen', 'param')}
        if isinstance(c.func, ast.Attribute) and c.func.attr in _VIEW_METHODS:
            return np_only(self.origin(fi, c.func.value, at, depth + 1))
        if short in _VIEW_FUNCS and name.split('.')[0] in ('np', 'numpy') and c.args:
            if short in ('asarray', 'asanyarray') and (len(c.args) > 1 or 'dtype' in kw or const(kw.get('copy'), True)):
                return set()        # a dtype conversion may copy: cannot say
            return np_only(self.origin(fi, c.args[0], at, depth + 1))
        callee = resolve_call(self.prog, fi, c)
        if callee is None:
            return set()
        md = self._mutable_default(callee)
        if md is False:
            mk = kw.get('mutable')
            if mk is None or const(mk, False):
                return {self._tag(fi, 'frozen', f'{callee.cls.name}(…) built without mutable=True refuses item assignment', c)}
            return set()
        if callee.cls is not None and callee.name in ('__init__', '__post_init__'):
            return set()
        if callee.node.decorator_list or depth > 8:
            return set()
        out = set()
        for r in walk_no_nested(callee.node):
            if isinstance(r, ast.Return) and r.value is not None:
                out |= self._from_callee(fi, c, at, callee, self.origin(callee, r.value, r, depth + 1), depth)
        return out

    # ---- elements of mappings
    def elements(self, fi, m, at, depth=0):
        """origins of any element the container expression m may hold at `at` (flow-insensitive)"""
        key = (id(fi.node), id(m), id(at), 'e')
        if key in self._memo:
            return self._memo[key]
        if key in self._busy or depth > 12:
            return set()
        self._busy.add(key)
        out = set()
        try:
            if isinstance(m, ast.Name):
                for t, st, how in stores_to(fi.node):
                    if isinstance(t, ast.Subscript) and isinstance(t.value, ast.Name) and t.value.id == m.id and how in ('assign', 'ann'):
                        out |= self.origin(fi, _stored_value(t, st), st, depth + 1)
                out |= self._fillers(fi, m, depth)
            elif isinstance(m, ast.Dict):
                for v in m.values:
                    out |= self.origin(fi, v, at, depth + 1)
            elif isinstance(m, ast.DictComp):
                out |= self.origin(fi, m.value, at, depth + 1)
            elif isinstance(m, (ast.List, ast.Tuple, ast.Set)):
                for v in m.elts:
                    out |= self.origin(fi, v, at, depth + 1)
            elif isinstance(m, (ast.ListComp, ast.GeneratorExp, ast.SetComp)):
                out |= self.origin(fi, m.elt, at, depth + 1)
            elif isinstance(m, ast.IfExp):
                out |= self.elements(fi, m.body, at, depth + 1) | self.elements(fi, m.orelse, at, depth + 1)
            elif isinstance(m, ast.Call):
                callee = resolve_call(self.prog, fi, m)
                if isinstance(m.func, ast.Attribute) and m.func.attr == 'copy' and not m.args:
                    out |= self.elements(fi, m.func.value, at, depth + 1)
                elif callee is not None and callee.cls is None and not callee.node.decorator_list and depth <= 8:
                    for r in walk_no_nested(callee.node):
                        if isinstance(r, ast.Return) and r.value is not None:
                            out |= self._from_callee(fi, m, at, callee, {t for t in self.elements(callee, r.value, r, depth + 1)
                                                                         if t[0] != 'param'}, depth)
                elif callee is None or (callee.cls is not None and callee.name in ('__init__', '__post_init__')):
                    # dict(x) / SpeciesValues(x) / list(x): the elements of the argument
                    for a in m.args:
                        out |= self.elements(fi, a, at, depth + 1)
        finally:
            self._busy.discard(key)
        self._memo[key] = out
        return out

    def _fillers(self, fi, m, depth):
        """origins of what gets into the local mapping m other than by `m[k] = V`: update / setdefault / `|=` / the
        value m itself is bound to"""
        out = set()
        for t, st, how in stores_to(fi.node):
            if isinstance(t, ast.Name) and t.id == m.id and how == 'aug' and isinstance(st.op, ast.BitOr):
                out |= self.elements(fi, st.value, st, depth + 1)
        for c in calls_in(fi.node):
            if isinstance(c.func, ast.Attribute) and isinstance(c.func.value, ast.Name) and c.func.value.id == m.id:
                if c.func.attr == 'update':
                    for a in c.args:
                        out |= self.elements(fi, a, stmt_of(c), depth + 1)
                    for k in c.keywords:
                        out |= self.origin(fi, k.value, stmt_of(c), depth + 1)
                elif c.func.attr == 'setdefault' and len(c.args) == 2:
                    out |= self.origin(fi, c.args[1], stmt_of(c), depth + 1)
        for st, kind, payload in self.defs(fi).get(m.id, []):
            if kind == 'value':
                out |= self.elements(fi, payload[0], st, depth + 1)
        return out

    def element(self, fi, m, key, at, depth=0):
        """origins of m[key] at statement `at`.  For a local mapping: the stores `m[key] = V` under the same key
        text, when every path from the function entry, from a rebinding of a name the key mentions, and from any other
        write into m passes such a store before reaching `at`; otherwise whatever was ever put into m."""
        if not isinstance(m, ast.Name) or m.id in fi.params or not self.defs(fi).get(m.id):
            if isinstance(m, ast.Call):
                return self.elements(fi, m, at, depth)
            return set()
        fn = fi.node
        ktxt = norm(key)
        stores = [(t, st) for t, st, how in stores_to(fn) if isinstance(t, ast.Subscript) and isinstance(t.value, ast.Name)
                  and t.value.id == m.id and how in ('assign', 'ann')]
        same = [(t, st) for t, st in stores if norm(t.slice) == ktxt]
        g = self.cfg(fi)
        use = self.nodes(fi, at)
        if same and g is not None and use:
            same_n = {n for _t, st in same for n in self.nodes(fi, st)}
            weak = set()
            for nm in {x.id for x in ast.walk(key) if isinstance(x, ast.Name)} | {m.id}:
                for st, kind, payload in self.defs(fi).get(nm, []):
                    weak |= set(self.nodes(fi, st))
            for c in calls_in(fn):
                if isinstance(c.func, ast.Attribute) and isinstance(c.func.value, ast.Name) and c.func.value.id == m.id \
                        and c.func.attr in ('update', 'setdefault', 'pop', 'clear', 'popitem'):
                    weak |= set(self.nodes(fi, stmt_of(c)))
            for t, st in stores:
                if norm(t.slice) != ktxt and not (_const_key(t.slice) and _const_key(key)):
                    weak |= set(self.nodes(fi, st))
            weak -= same_n
            blocked = self._avoiding(g, same_n)
            covered = not any(g.reaches(a, u, blocked) for a in weak | {g.entry} for u in use)
            if covered:
                out = set()
                for t, st in same:
                    mine = self.nodes(fi, st)
                    if any(g.reaches(a, u, self._avoiding(g, same_n - {a}, a)) for a in mine for u in use):
                        out |= self.origin(fi, _stored_value(t, st), st, depth + 1)
                return out
        out = set()
        for t, st in stores:
            if _const_key(t.slice) and _const_key(key) and norm(t.slice) != ktxt:
                continue
            out |= self.origin(fi, _stored_value(t, st), st, depth + 1)
        return out | self._fillers(fi, m, depth + 1)


def _const_key(k):
    return isinstance(k, ast.Constant) or (isinstance(k, ast.Attribute) and isinstance(k.value, ast.Name) and k.value.id[:1].isupper())


def _stored_value(t, st):
    """the expression stored by statement st into target t (None when t is one of several unpacked targets of a
    value that is not a display)"""
    v = getattr(st, 'value', None)
    if isinstance(st, ast.Assign):
        for tgt in st.targets:
            if tgt is t:
                return v
            if isinstance(tgt, (ast.Tuple, ast.List)) and any(el is t for el in tgt.elts):
                if isinstance(v, (ast.Tuple, ast.List)) and len(v.elts) == len(tgt.elts):
                    return v.elts[[el is t for el in tgt.elts].index(True)]
                return None
        return None
    return v


def _bound_arg(callee, call, pname):
    """the argument expression of `call` that binds parameter `pname` of callee (None when it cannot be told)"""
    a = callee.node.args
    names = [p.arg for p in a.posonlyargs + a.args]
    if any(isinstance(x, ast.Starred) for x in call.args) or any(k.arg is None for k in call.keywords):
        return None
    for k in call.keywords:
        if k.arg == pname:
            return k.value
    off = 1 if callee.cls is not None and names[:1] in (['self'], ['cls']) and isinstance(call.func, ast.Attribute) else 0
    if callee.cls is not None and callee.name == '__init__':
        off = 1
    if pname in names:
        i = names.index(pname) - off
        if 0 <= i < len(call.args):
            return call.args[i]
        if i == -1 and isinstance(call.func, ast.Attribute):
            return call.func.value
    return None


def rule_writable(ctx):
    """R7: what is stored into must accept the store."""
    prog = ctx.prog
    w = _Writability(prog)
    fns = [fi for m in prog.src_modules() if m.relpath.startswith('src/AEIC/emissions/') for fi in m.functions.values()]
    summary: dict[tuple[str, str], dict[str, tuple]] = {}      # (file, qualname) -> {param: (what, line)}
    sinks = []          # (fi, written object expr, statement, what, kinds)
    for fi in fns:
        for t, st, how in stores_to(fi.node):
            if isinstance(t, ast.Subscript) and how in ('assign', 'aug', 'ann', 'del'):
                sinks.append((fi, t.value, st, f'store `{norm(t)[:50]}`', ('np', 'frozen')))
            elif isinstance(t, ast.Name) and how == 'aug':
                sinks.append((fi, t, st, f'in-place `{norm(st)[:50]}`', ('np',)))
        for c in calls_in(fi.node):
            st = stmt_of(c)
            short = call_name(c).split('.')[-1]
            if isinstance(c.func, ast.Attribute) and c.func.attr in _INPLACE_METHODS and not call_name(c).startswith(('np.', 'numpy.')):
                sinks.append((fi, c.func.value, st, f'in-place `{norm(c)[:50]}`', ('np',)))
            elif short in _INPLACE_FUNCS and call_name(c).split('.')[0] in ('np', 'numpy') and c.args:
                sinks.append((fi, c.args[0], st, f'in-place `{norm(c)[:50]}`', ('np',)))
            for k in c.keywords:
                if k.arg == 'out' and not isinstance(k.value, ast.Constant):
                    sinks.append((fi, k.value, st, f'`out=` of `{norm(c)[:40]}`', ('np',)))
    n = 0
    results = []
    for fi, obj, st, what, kinds in sinks:
        tags = w.origin(fi, obj, st)
        n += 1
        for t in tags:
            if t[0] == 'param':
                summary.setdefault((fi.file, fi.qualname), {}).setdefault(t[1], (what, st.lineno))
        results.append((fi, obj, st, what, {t for t in tags if t[0] in kinds}))
    # what a callee stores into, its callers must be able to hand over (to a fixpoint over the call graph)
    for _round in range(4):
        changed = False
        for fi in fns:
            for c in calls_in(fi.node):
                callee = resolve_call(prog, fi, c)
                if callee is None or (callee.file, callee.qualname) not in summary:
                    continue
                for pname, (cw, cl) in list(summary[(callee.file, callee.qualname)].items()):
                    a = _bound_arg(callee, c, pname)
                    if a is None:
                        continue
                    st = stmt_of(c)
                    tags = w.origin(fi, a, st)
                    for t in tags:
                        if t[0] == 'param' and t[1] not in summary.setdefault((fi.file, fi.qualname), {}):
                            summary[(fi.file, fi.qualname)][t[1]] = (f'{callee.name}(…): {cw}', st.lineno)
                            changed = True
                    hard = {t for t in tags if t[0] in ('np', 'frozen')}
                    key = (id(c), pname)
                    if hard and not any(r[5:] == (key,) for r in results):
                        results.append((fi, a, st, f'`{norm(a)[:30]}` handed to {callee.name}, which does {cw}', hard, key))
        if not changed:
            break
    for r in results:
        fi, obj, st, what, hard = r[:5]
        ok = not hard
        first = sorted(hard)[0] if hard else None
        ctx.ob('C11-R7', fi, f'{what}: the object written accepts the store', ok,
               'nothing that reaches it is a read-only view or a frozen container' if ok else
               (f'`{norm(obj)[:40]}` can be the object made at {first[2].split("/")[-1]}:{first[3]} - {first[1]} - and storing into it raises '
                f'{"ValueError (destination is read-only)" if first[0] == "np" else "TypeError (frozen)"}: every option '
                'combination that reaches this line fails with an internal error instead of an inventory or a refusal by name'),
               line=st.lineno, nontrivial=not ok or bool(w.defs(fi)))
    ctx.floor('C11-R7', n, 12, 'in-place stores in the emissions package')
    # positive control: an embedded producer that blanks a window of broadcast constants
    ctl = ast.parse('def producer(n, v, w):\n idx = {}\n for k in ("a", "b"):\n  idx[k] = np.broadcast_to(v, (n,))\n'
                    ' idx["c"] = np.full(n, v)\n for k in idx:\n  for arr in (idx[k],):\n   arr[:w.start] = 0.0\n'
                    ' fresh = {}\n for k in idx:\n  fresh[k] = idx[k].copy()\n  fresh[k][:w.start] = 0.0\n return idx, fresh')
    for a_ in ast.walk(ctl):
        for ch in ast.iter_child_nodes(a_):
            if not isinstance(ch, (ast.expr_context, ast.operator, ast.unaryop, ast.cmpop, ast.boolop)):
                ch._parent = a_
    f = ctl.body[0]
    cm = prog.module(CFGE)

    class _F:
        node, params, qualname, name, module, cls, file = f, ['n', 'v', 'w'], 'producer', 'producer', cm, None, '<control>'
    got = [bool({t for t in w.origin(_F, t_.value, st_) if t[0] == 'np'}) for t_, st_, how_ in stores_to(f)
           if isinstance(t_, ast.Subscript) and isinstance(st_.value, ast.Constant)]
    ctx.control('C11-R7', got == [True, False], 'embedded producer: a store into a broadcast_to view is seen, a store into its copy is not')


def run(ctx):
    rule_lifecycle(ctx)
    groups = implication_table(ctx)
    ctx.stats['species_groups'] = {k: sorted(v['species']) + [f'{s}?' for s in v['conditional']] for k, v in groups.items()}
    rule_dispatch(ctx)
    rule_reads(ctx, groups)
    rule_stores(ctx, groups)
    rule_elements(ctx)
    rule_switches(ctx)
    rule_writable(ctx)
    ctx.assumptions += ['the numeric balance of each configuration is C01; here only absence of internal errors '
                        'and of switched-off species is decided, per site, for every enum member']
