"""C12 — emission-index and atmosphere functions follow their cited methods.

Claimed: conformance of coefficients and formula shape of the straight-line
building blocks against /verif/sa/reference_equations.py (an independent
transcription of the cited equations), decided by exact canonical-form
comparison (T-ALG).  The repository's constants are folded on the code side,
the standards' own numbers on the reference side.

R1  canonical-form comparison: ISA temperature / pressure / altitude branches,
    air density, Mach; FFM2 sea-level fuel flow (eq. 40) and its defaults;
    BFFM2 humidity / ambient NOx correction (eqs. 44-45); HC/CO ambient factor,
    ACRP slope, horizontal level and intercept; fuel-sulfur SOx; FOA3 delta
    table and formula; fuel-flow PMvol constants; SCOPE11 C_BC, k_slm, Q, AFR.
    Numbers may be literals, module constants or constants imported from
    another repository module (folded exactly); a parameter that is not a
    symbol of the cited equation enters with its default value (the cited
    method is what the function computes when its optional knobs are left
    alone).  Formulas that depend on a discriminating parameter (SCOPE11
    k_slm and Q per engine type) are selected by *running the dispatch for
    each value* (ValueCase): CFG branches, `match` cases, conditional
    expressions and dict look-ups whose condition is a decidable predicate of
    the parameter are taken as that value takes them, locals are read through
    their unique reaching definition on the pruned graph, and every
    definition that can execute for 'MTF' / 'TF' must equal that engine
    type's equation — whatever the spelling of the dispatch (if/elif/else,
    guard clauses, match/case, conditional expression, dict dispatch, a
    per-branch factor).  A condition on the parameter that is not a
    comparison with literals is UNDECIDED, never guessed.
R2  inverse pair: pressure(altitude) and altitude(pressure) use mirrored
    branch tests, the same tropopause pressure, and exponents whose product
    is exactly 1.
R3  identities: sulfur atoms conserved (EI_SO2/MW_SO2 + EI_SO4/MW_SO4 ≡
    S·10³/MW_S); EI_SOx = EI_SO2 + EI_SO4; linear scaling where the block is
    homogeneous of degree 1 in the certification symbol.
R4  thrust categories are total and single-valued: np.select with two
    conditions on the same array against the two mid-points of consecutive
    calibration modes, and a default; ascending in fuel flow.
R6  per-mode values become arrays (and back) in the order of the ThrustMode
    enumeration, never in dict insertion order.
R5  HC/CO clamping rules are applied in the documented order (a) (b) (c).

Not decided: MEEM, the HC/CO bilinear fit's numerical behaviour, anything
phrased over the whole real input range (finiteness, sign, monotone in value).
"""

from __future__ import annotations

import ast
from fractions import Fraction

from ..algebra import AlgebraError, module_constants, normal_form, poly_equal
from ..astutil import (call_name, calls_in, guards_of, kwarg, norm, single_def_value, stores_to,
                       walk_no_nested)
from ..conform import compare2, nf_code, ref_normal_form
from .. import reference_equations as REF

ATM = 'utils/standard_atmosphere.py'


def _refconsts():
    return {k: Fraction(repr(v)) for k, v in REF.ISA_CONSTANTS.items()}


def visible_constants(prog, m, extra=None):
    """numeric constants a module can name, folded exactly: those it imports from repository modules (under the
    local alias; `import pkg.mod as c` gives `c.NAME`) and its own top-level ones"""
    out = dict(extra or {})
    for alias, dotted in m.imports.items():
        r = prog.resolve_dotted(dotted)
        if isinstance(r, tuple) and r[0] == 'const':
            src = module_constants(r[1])
            if r[2] in src:
                out[alias] = src[r[2]]
        elif r is not None and hasattr(r, 'tree') and hasattr(r, 'constants'):
            for k, v in module_constants(r).items():
                out[f'{alias}.{k}'] = v
    out.update(module_constants(m, out))
    return out


def param_defaults(fn, consts):
    """parameter -> exact value of its default, for defaults that fold to a number"""
    from ..algebra import fold_constant
    a = fn.args
    pos = a.posonlyargs + a.args
    pairs = list(zip(pos[len(pos) - len(a.defaults):], a.defaults)) + \
        [(p_, d) for p_, d in zip(a.kwonlyargs, a.kw_defaults) if d is not None]
    out = {}
    for p_, d in pairs:
        v = fold_constant(d, consts)
        if v is not None:
            out[p_.arg] = v
    return out


def _cmp(ctx, rule, fi, what, code_expr, ref, consts, rename=None, stop=(), refdefs=None, refconsts=None, line=None):
    try:
        want = ref_normal_form(ref, refconsts if refconsts is not None else {}, refdefs)
        # the cited method is what the function computes when its optional knobs are left alone: a parameter that is
        # not a symbol of the cited equation enters the comparison with its default value
        consts = dict(consts)
        refsyms = {x.id for t in [ref] + list((refdefs or {}).values()) for x in ast.walk(ast.parse(t, mode='eval'))
                   if isinstance(x, ast.Name)}
        for k, v in param_defaults(fi.node, consts).items():
            if k not in refsyms and k not in (rename or {}) and k not in stop:
                consts.setdefault(k, v)
        code = nf_code(fi.node, code_expr, consts, rename=rename, stop=stop)
    except AlgebraError as e:
        ctx.undecided(rule, fi, what, f'cannot normalise: {e}')
    v, why = compare2(code, want)
    if v == 'undecided':
        ctx.undecided(rule, fi, what, why)
    ctx.ob(rule, fi, f'{what} ≡ {ref[:70]}', v == 'equal',
           'equal to the cited equation as an exact canonical form' if v == 'equal' else
           f'differs from the cited equation `{ref[:90]}`: {why}', line=line or getattr(code_expr, 'lineno', 0))
    return v == 'equal'


def _where(fi, name):
    d = single_def_value(fi.node, name)
    if isinstance(d, ast.Call) and call_name(d) in ('np.where', 'numpy.where') and len(d.args) == 3:
        return d.args
    return None


class Undecidable(Exception):
    pass


def _cp(n):
    """deep copy of a subtree (the loader's parent links are not followed upwards)"""
    import copy
    p = getattr(n, '_parent', None)
    return copy.deepcopy(n, {id(p): None} if p is not None else {})


class ValueCase:
    """A function as it runs when a discriminating variable `var` (a parameter that selects one of several
    alternatives: an engine type, an optional argument that is None or given) has the value `val`; with `var=None`
    simply the function's values followed through its definitions.

    * every branch whose condition is a decidable predicate of `var` — an `if`/`elif`/`while` test, a `case` of a
      `match` on it, a conditional expression, `a or b` / `a and b` used as a value, a look-up in a dict literal keyed
      by it — is taken the way that value takes it, whatever the spelling of the dispatch; conditions that do not
      depend on `var` keep both edges; a condition that depends on `var` and cannot be evaluated raises Undecidable
      (never guessed);
    * `defs(target)` are the statements storing to `target` that can execute for that value;
    * `resolve(expr, at)` is `expr` as evaluated at CFG node `at`: locals replaced by their *unique reaching plain
      definition* on the pruned graph (so a name bound once per branch resolves to the branch this value takes;
      `a, b = x, y` and `a, b = helper(...)` resolve component-wise), decided conditional expressions and dict
      dispatches replaced by the selected alternative, and — when an `opener` is given — calls of resolved helpers
      with a single `return` replaced by the returned expression over the arguments.  Locals that have several
      reaching definitions stay names and are listed in `unresolved`.
    * `origin(expr, at)` identifies the binding a value comes from (through plain copies and scalar conversions), so
      that two expressions can be recognised as the *same value* without comparing their text.
    """

    OTHER = '\x00any-other-value'

    def __init__(self, fn, var=None, val=None, module_tree=None, opener=None, _depth=0):
        from ..cfg import CFG
        self.fn, self.var, self.val = fn, var, val
        self.module_tree = module_tree
        self.opener = opener
        self._depth = _depth
        self._sub = {}
        self.g = CFG(fn)
        self.unresolved = set()
        self._decided = {}
        a = fn.args
        self.params = {p.arg for p in a.posonlyargs + a.args + a.kwonlyargs}
        self.params |= {x.arg for x in (a.vararg, a.kwarg) if x is not None}
        self.bound = {n.id: self._bound(n) for n in self.g.nodes}
        self.locals = {nm for b in self.bound.values() for nm in b}
        # phase 1: reaching definitions on the whole graph (used to read the branch conditions)
        self.ins = self._reaching(None)
        self.live = set(self.ins)
        # phase 2: prune the decided branches, recompute what reaches what
        if var is not None:
            for n in self.g.nodes:
                if n.id not in self.ins:
                    continue
                if n.kind == 'test':
                    self._decided[n.id] = self._decide(n.stmt.test, n.id)
                elif n.kind == 'case':
                    self._decided[n.id] = self._decide_case(n)
            self.live = self.g._reach(self._edge_ok)
            self.ins = self._reaching(self._edge_ok)

    # -- graph ------------------------------------------------------------
    def _edge_ok(self, a, b, lab):
        d = self._decided.get(a)
        if d is None or lab not in ('t', 'f'):
            return True
        return (lab == 't') == d

    def _bound(self, n):
        s = n.stmt
        out = []
        if s is None:
            return out
        heads_ = []
        if n.kind == 'stmt':
            if isinstance(s, ast.Assign):
                for t in s.targets:
                    out += [x.id for x in ast.walk(t) if isinstance(x, ast.Name) and isinstance(x.ctx, ast.Store)]
            elif isinstance(s, (ast.AnnAssign, ast.AugAssign)) and isinstance(s.target, ast.Name):
                if getattr(s, 'value', None) is not None:
                    out.append(s.target.id)
            elif isinstance(s, (ast.Import, ast.ImportFrom)):
                out += [(al.asname or al.name).split('.')[0] for al in s.names]
            elif isinstance(s, (ast.FunctionDef, ast.AsyncFunctionDef, ast.ClassDef)):
                out.append(s.name)
            elif isinstance(s, ast.Delete):
                out += [t.id for t in s.targets if isinstance(t, ast.Name)]
            if not isinstance(s, (ast.FunctionDef, ast.AsyncFunctionDef, ast.ClassDef)):
                heads_ = [s]
        elif n.kind == 'iter':
            out += [x.id for x in ast.walk(s.target) if isinstance(x, ast.Name)]
            heads_ = [s.iter]
        elif n.kind == 'with':
            for it in s.items:
                if it.optional_vars is not None:
                    out += [x.id for x in ast.walk(it.optional_vars) if isinstance(x, ast.Name)]
            heads_ = [it.context_expr for it in s.items]
        elif n.kind == 'case':
            for x in ast.walk(s.pattern):
                nm = getattr(x, 'name', None) or getattr(x, 'rest', None)
                if isinstance(nm, str):
                    out.append(nm)
            heads_ = [s.guard] if s.guard is not None else []
        elif n.kind == 'except':
            if s.name:
                out.append(s.name)
        elif n.kind == 'test':
            heads_ = [s.test]
        elif n.kind == 'match':
            heads_ = [s.subject]
        for h in heads_:
            out += [x.target.id for x in walk_no_nested(h) if isinstance(x, ast.NamedExpr)]
        return out

    def _reaching(self, edge_ok):
        g = self.g
        bound = self.bound

        def transfer(n, st):
            b = bound[n.id]
            if not b:
                return st
            return frozenset(x for x in st if x[0] not in b) | frozenset((nm, n.id) for nm in b)

        init = frozenset((p, g.entry) for p in self.params)
        ins, _ = g.forward(init, transfer, lambda a, b: a | b, edge_ok=edge_ok)
        return ins

    def reaching(self, name, at):
        return sorted(d for nm, d in self.ins.get(at, ()) if nm == name)

    def node_of(self, stmt):
        """live CFG node of a statement (or of the statement an expression belongs to)"""
        from ..astutil import stmt_of
        ids = [i for i in self.g.nodes_of(stmt) if i in self.live]
        if not ids and not isinstance(stmt, ast.stmt):
            s = stmt_of(stmt)
            ids = [i for i in self.g.nodes_of(s) if i in self.live] if s is not None else []
        return ids[0] if ids else None

    def defs(self, target):
        """statements `target = ...` (by the target's normalised text) that can run for this value"""
        out = []
        for t, st, how in stores_to(self.fn):
            if norm(t) == target and how in ('assign', 'ann') and self.node_of(st) is not None and st not in out:
                out.append(st)
        return out

    # -- conditions -------------------------------------------------------
    def _depends(self, e):
        return self.var is not None and any(isinstance(x, ast.Name) and x.id == self.var for x in ast.walk(e))

    def _decide(self, test, at, resolved=False):
        """True / False when the test is a predicate of `var` that this value decides, None when it does not
        depend on `var`; Undecidable otherwise."""
        from ..astutil import eval_pred
        if self.var is None:
            return None
        r = test if resolved else self.resolve(test, at, quiet=True)
        if isinstance(r, ast.Compare) and all(isinstance(o, (ast.In, ast.NotIn)) for o in r.ops):
            # membership in a dict literal is membership in its keys
            r = ast.Compare(r.left, r.ops, [ast.Tuple(list(c.keys), ast.Load()) if isinstance(c, ast.Dict) and None not in c.keys
                                            else c for c in r.comparators])
        if not self._depends(r):
            return None
        try:
            return bool(eval_pred(r, {self.var: self.val}))
        except (ValueError, TypeError):
            pass
        # `a or b` / `a and b` with only some operands depending on var: decided only if those operands decide it
        if isinstance(r, ast.BoolOp):
            vals = [self._decide(v, at, True) for v in r.values]
            short = isinstance(r.op, ast.Or)
            if any(v is short for v in vals):
                return short
            if all(v is not None for v in vals):
                return not short
            return None
        if isinstance(r, ast.UnaryOp) and isinstance(r.op, ast.Not):
            v = self._decide(r.operand, at, True)
            return None if v is None else not v
        return self._undecidable(test)

    def _undecidable(self, test):
        raise Undecidable(f'`{norm(test)[:80]}` depends on {self.var} in a way that is not a comparison with literals')

    def _pattern(self, p, subj):
        """does literal pattern p match the (known) subject value?"""
        if isinstance(p, ast.MatchValue) and isinstance(p.value, ast.Constant):
            return subj == p.value.value
        if isinstance(p, ast.MatchSingleton):
            return subj is p.value
        if isinstance(p, ast.MatchOr):
            return any(self._pattern(q, subj) for q in p.patterns)
        if isinstance(p, ast.MatchAs):
            return True if p.pattern is None else self._pattern(p.pattern, subj)
        raise Undecidable(f'`case {norm(p)[:60]}` is not a literal pattern')

    def _decide_case(self, n):
        from ..astutil import eval_pred
        case = n.stmt
        m = parent_match(self.fn, case)
        subj = self.resolve(m.subject, n.id, quiet=True)
        if not self._depends(subj):
            return None
        try:
            sv = eval_pred(subj, {self.var: self.val})
        except (ValueError, TypeError):
            self._undecidable(m.subject)
        hit = self._pattern(case.pattern, sv)
        if hit and case.guard is not None:
            return self._decide(case.guard, n.id)
        return hit

    # -- values -----------------------------------------------------------
    def binding(self, name, at):
        """(value, node, index) of the only definition of local `name` reaching `at`: `name = value` (index None) or
        the index-th target of `a, name, c = value`"""
        ds = self.reaching(name, at)
        if len(ds) != 1 or ds[0] == self.g.entry or self.g.nodes[ds[0]].kind != 'stmt':
            return None
        s = self.g.nodes[ds[0]].stmt
        if isinstance(s, ast.Assign) and len(s.targets) == 1:
            t = s.targets[0]
            if isinstance(t, ast.Name) and t.id == name:
                return s.value, ds[0], None
            if isinstance(t, (ast.Tuple, ast.List)) and not any(isinstance(e, ast.Starred) for e in t.elts):
                for i, e in enumerate(t.elts):
                    if isinstance(e, ast.Name) and e.id == name:
                        return s.value, ds[0], i
        if isinstance(s, ast.AnnAssign) and isinstance(s.target, ast.Name) and s.value is not None:
            return s.value, ds[0], None
        return None

    def _module_dict(self, name):
        if self.module_tree is None:
            return None
        vals = [s.value for s in self.module_tree.body
                if isinstance(s, (ast.Assign, ast.AnnAssign)) and getattr(s, 'value', None) is not None
                and any(isinstance(t, ast.Name) and t.id == name
                        for t in (s.targets if isinstance(s, ast.Assign) else [s.target]))]
        return vals[0] if len(vals) == 1 and isinstance(vals[0], ast.Dict) else None

    def _open(self, call):
        """a call of a resolved helper that has exactly one `return <value>` and no other way out with a value,
        as the returned expression over the (already resolved) arguments; None when it cannot be opened"""
        if self.opener is None or self._depth > 3:
            return None
        import copy
        callee = self.opener(call)
        if callee is None or callee is self.fn or isinstance(callee, ast.AsyncFunctionDef):
            return None
        rets = [r for r in walk_no_nested(callee) if isinstance(r, ast.Return)]
        if len(rets) != 1 or rets[0].value is None or any(isinstance(x, (ast.Yield, ast.YieldFrom)) for x in walk_no_nested(callee)):
            return None
        a = callee.args
        if a.vararg or a.kwarg or any(isinstance(x, ast.Starred) for x in call.args) or any(k.arg is None for k in call.keywords):
            return None
        names = [p.arg for p in a.posonlyargs + a.args]
        bind = {}
        is_method = isinstance(call.func, ast.Attribute) and names and names[0] in ('self', 'cls')
        if is_method:
            bind[names[0]] = call.func.value
            names = names[1:]
        if len(call.args) > len(names):
            return None
        for p, v in zip(names, call.args):
            bind[p] = v
        allowed = set(names) | {p.arg for p in a.kwonlyargs}
        for k in call.keywords:
            if k.arg not in allowed or k.arg in bind:
                return None
            bind[k.arg] = k.value
        pos = a.posonlyargs + a.args
        for p, d in zip(pos[len(pos) - len(a.defaults):], a.defaults):
            bind.setdefault(p.arg, d)
        for p, d in zip(a.kwonlyargs, a.kw_defaults):
            if d is not None:
                bind.setdefault(p.arg, d)
        key = id(callee)
        if key not in self._sub:
            self._sub[key] = ValueCase(callee, None, None, self.module_tree, self.opener, self._depth + 1)
        sub = self._sub[key]
        at = sub.node_of(rets[0])
        if at is None:
            return None
        r = sub.resolve(rets[0].value, at, quiet=True)

        class B(ast.NodeTransformer):
            def visit_Name(self, n):
                if n.id in bind:
                    return _cp(bind[n.id])
                if n.id in sub.params:
                    raise Undecidable(f'parameter {n.id} of {callee.name} is not bound by `{norm(call)[:60]}`')
                if n.id in sub.locals:
                    return ast.copy_location(ast.Name(f'{callee.name}:{n.id}', ast.Load()), n)
                return n

            def visit_Lambda(self, n):
                return n
        return B().visit(r)

    def resolve(self, e, at, stop=(), quiet=False, depth=0):
        import copy
        from ..astutil import eval_pred
        if depth > 12:
            return _cp(e)
        me = self

        def pick(table, key, default, whole):
            """table[key] / table.get(key, default) with a dict literal and a key this value decides"""
            if not isinstance(table, ast.Dict) or not me._depends(key) or None in table.keys:
                return None
            try:
                kv = eval_pred(key, {me.var: me.val})
                keys = [eval_pred(k, {}) for k in table.keys]
            except (ValueError, TypeError):
                raise Undecidable(f'`{norm(whole)[:80]}`: look-up by {me.var} with keys that are not literals')
            for k, v in zip(keys, table.values):
                if k == kv:
                    return v
            if default is not None:
                return default
            raise Undecidable(f'`{norm(whole)[:80]}` has no entry for {me.var} = {me.val!r}')

        class R(ast.NodeTransformer):
            def visit_Name(self, n):
                if not isinstance(n.ctx, ast.Load) or n.id in stop:
                    return n
                ds = me.reaching(n.id, at)
                if ds == [me.g.entry] or (not ds and n.id in me.params):
                    return n                      # the parameter itself
                d = me.binding(n.id, at)
                if d is not None:
                    v = me.resolve(d[0], d[1], stop, quiet, depth + 1)
                    if d[2] is None:
                        return v
                    if isinstance(v, (ast.Tuple, ast.List)) and len(v.elts) > d[2] and \
                            not any(isinstance(x, ast.Starred) for x in v.elts):
                        return v.elts[d[2]]
                    return n                      # one component of one value: a symbol
                if ds:
                    # one binding that is not an assignment (loop / with target) is one value, kept as a symbol;
                    # several reaching bindings, or an in-place update, are not one expression
                    multi = len(ds) > 1 or isinstance(me.g.nodes[ds[0]].stmt, ast.AugAssign)
                    if multi and not quiet:
                        me.unresolved.add(n.id)
                    if n.id == me.var or n.id in me.params:
                        return ast.copy_location(ast.Name(n.id + ':rebound', ast.Load()), n)
                    return n
                md = me._module_dict(n.id)
                return _cp(md) if md is not None else n

            def visit_IfExp(self, n):
                d = me._decide(n.test, at)
                if d is None:
                    return self.generic_visit(n)
                return self.visit(n.body if d else n.orelse)

            def visit_BoolOp(self, n):
                # `a or b` as a value: the first operand that this value makes truthy (falsy for `and`)
                short = isinstance(n.op, ast.Or)
                rest = list(n.values)
                while len(rest) > 1:
                    d = me._decide(rest[0], at)
                    if d is None:
                        break
                    if d is short:
                        return self.visit(rest[0])
                    rest.pop(0)
                if len(rest) == 1:
                    return self.visit(rest[0])
                return ast.copy_location(ast.BoolOp(n.op, [self.visit(v) for v in rest]), n)

            def visit_Subscript(self, n):
                n = self.generic_visit(n)
                v = pick(n.value, n.slice, None, n)
                return v if v is not None else n

            def visit_Call(self, n):
                n = self.generic_visit(n)
                if isinstance(n.func, ast.Attribute) and n.func.attr == 'get' and 1 <= len(n.args) <= 2 and not n.keywords:
                    v = pick(n.func.value, n.args[0], n.args[1] if len(n.args) == 2 else ast.Constant(None), n)
                    if v is not None:
                        return v
                o = me._open(n)
                return o if o is not None else n

            def visit_Lambda(self, n):
                return n

        return R().visit(_cp(e))

    CONVERSIONS = ('float', 'float64', 'asarray', 'array', 'asanyarray', 'squeeze', 'atleast_1d')
    METHOD_CONVERSIONS = ('item', 'to_numpy', 'copy', 'squeeze', 'astype', 'compute', 'load')

    def origin(self, e, at, depth=0):
        """the binding a value comes from: (function name, CFG node, component) of the definition that computed it,
        ('param', name) for a parameter; None when `e` is not a (converted) local.  Plain copies `b = a`, scalar
        conversions (`float(a)`, `a.item()`, `a.values`, `np.asarray(a)`) do not make a new value."""
        while True:
            if isinstance(e, ast.Call) and isinstance(e.func, ast.Attribute) and e.func.attr in self.METHOD_CONVERSIONS \
                    and call_name(e).split('.')[0] not in ('np', 'numpy', 'math'):
                e = e.func.value
            elif isinstance(e, ast.Call) and call_name(e).split('.')[-1] in self.CONVERSIONS and len(e.args) >= 1:
                e = e.args[0]
            elif isinstance(e, ast.Attribute) and e.attr in ('values', 'data'):
                e = e.value
            else:
                break
        if not isinstance(e, ast.Name) or depth > 10:
            return None
        ds = self.reaching(e.id, at)
        if ds == [self.g.entry] or (not ds and e.id in self.params):
            return ('param', e.id)
        d = self.binding(e.id, at)
        if d is None:
            return (self.fn.name, ds[0], None) if len(ds) == 1 else None
        v, node, idx = d
        if idx is not None:
            if isinstance(v, (ast.Tuple, ast.List)) and len(v.elts) > idx:
                o = self.origin(v.elts[idx], node, depth + 1)
                return o if o is not None else (self.fn.name, node, idx)
            return (self.fn.name, node, idx)
        o = self.origin(v, node, depth + 1)
        return o if o is not None else (self.fn.name, node, None)


def parent_match(fn, case):
    for x in ast.walk(fn):
        if isinstance(x, ast.Match) and any(c is case for c in x.cases):
            return x
    raise Undecidable('case without match')


def unroll_literal_loops(fn):
    """Copy of `fn` in which a `for x in (a, b, ...)` over a tuple / list display (no `else`, no `break` / `continue`
    of that loop, `x` a plain name not stored in the body) is replaced by its iterations, and `any(f(x) for x in
    (a, b))` / `all(...)` over such a display by `f(a) or f(b)` / `f(a) and f(b)`.  Both are the definition of the
    construct, so every analysis of the copy is an analysis of the function."""
    import copy
    fn = _cp(fn)

    def subst(node, name, value):
        class S(ast.NodeTransformer):
            def visit_Name(self, n):
                if n.id == name and isinstance(n.ctx, ast.Load):
                    return _cp(value)
                return n
        return S().visit(_cp(node))

    def loop_exits(body):
        for st in body:
            for x in walk_no_nested(st):
                if isinstance(x, (ast.Break, ast.Continue)):
                    return True   # conservative: also those of inner loops
        return False

    class U(ast.NodeTransformer):
        def visit_For(self, n):
            self.generic_visit(n)
            if n.orelse or not isinstance(n.target, ast.Name) or not isinstance(n.iter, (ast.Tuple, ast.List)) \
                    or any(isinstance(e, ast.Starred) for e in n.iter.elts) or loop_exits(n.body) \
                    or not all(isinstance(e, (ast.Name, ast.Attribute, ast.Constant)) for e in n.iter.elts):
                return n
            x = n.target.id
            if any(isinstance(y, ast.Name) and y.id == x and isinstance(y.ctx, (ast.Store, ast.Del))
                   for st in n.body for y in ast.walk(st)):
                return n
            out = []
            for e in n.iter.elts:
                out += [subst(st, x, e) for st in n.body]
            return out or [ast.copy_location(ast.Pass(), n)]

        def visit_Call(self, n):
            self.generic_visit(n)
            if isinstance(n.func, ast.Name) and n.func.id in ('any', 'all') and len(n.args) == 1 and not n.keywords \
                    and isinstance(n.args[0], (ast.GeneratorExp, ast.ListComp)) and len(n.args[0].generators) == 1:
                g = n.args[0].generators[0]
                if isinstance(g.target, ast.Name) and not g.ifs and not g.is_async and isinstance(g.iter, (ast.Tuple, ast.List)) \
                        and g.iter.elts and all(isinstance(e, (ast.Name, ast.Attribute, ast.Constant)) for e in g.iter.elts):
                    vals = [subst(n.args[0].elt, g.target.id, e) for e in g.iter.elts]
                    if len(vals) == 1:
                        return ast.copy_location(ast.Call(ast.Name('bool', ast.Load()), vals, []), n)
                    return ast.copy_location(ast.BoolOp(ast.Or() if n.func.id == 'any' else ast.And(), vals), n)
            return n

    fn = U().visit(fn)
    ast.fix_missing_locations(fn)
    for x in ast.walk(fn):
        for ch in ast.iter_child_nodes(x):
            ch._parent = x
    return fn


def rule_isa(ctx):
    prog = ctx.prog
    m = prog.module(ATM)
    cm = prog.module('constants.py')
    consts = module_constants(cm)
    consts.update(module_constants(m, consts))
    rc = _refconsts()
    # module constants against the standard
    for k, v in rc.items():
        if k in consts:
            ok = consts[k] == v
            ctx.ob('C12-R1', (cm.relpath if k in module_constants(cm) else m.relpath, '<module>'), f'{k} = {float(consts[k])}', ok,
                   'ISA / BADA value' if ok else f'{k} differs from the standard atmosphere value {float(v)}', nontrivial=False)
    # results are real-valued whatever the dtype of the altitude / pressure passed in: no result array may be
    # allocated "like" an argument (np.full_like / zeros_like / empty_like / ones_like inherit an integer dtype and
    # truncate the kelvins and pascals stored into them)
    ctl = ast.parse('np.full_like(altitude, T)').body[0].value
    ctx.control('C12-R1', call_name(ctl).split('.')[-1].endswith('_like') and not any(k.arg == 'dtype' for k in ctl.keywords),
                'embedded np.full_like(altitude, T) is recognised as dtype-inheriting')
    for fi in m.functions.values():
        from .own import alias_of
        aliases = {p_: p_ for p_ in fi.params}
        for t, st, how in stores_to(fi.node):
            if isinstance(t, ast.Name) and getattr(st, 'value', None) is not None:
                r = alias_of(st.value, aliases)
                if r:
                    aliases[t.id] = r
        for c in calls_in(fi.node):
            if call_name(c).split('.')[-1] in ('full_like', 'zeros_like', 'empty_like', 'ones_like') and c.args \
                    and alias_of(c.args[0], aliases) and not any(k.arg == 'dtype' for k in c.keywords):
                ctx.ob('C12-R1', fi, f'{norm(c)[:60]}', False,
                       (f'the result array takes the dtype of `{norm(c.args[0])}`: for an integer altitude (or pressure) the '
                        'temperatures / pressures written into it are truncated to whole numbers (228.7 K → 228 K), and everything '
                        'derived from them (pressure level, density, speed of sound) is off by a per cent or two'), line=c.lineno)
    tf = m.func('temperature_at_altitude_isa_bada4')
    w = _where(tf, 'temperature')
    if w is None:
        ctx.undecided('C12-R1', tf, 'temperature', 'not an np.where(cond, tropo, strat) definition')
    ok = norm(w[0]) == 'altitude <= h_p_tropo'
    ctx.ob('C12-R2', tf, f'temperature branch test {norm(w[0])}', ok, 'troposphere up to and including the tropopause' if ok else
           'branch test of the temperature profile changed')
    _cmp(ctx, 'C12-R1', tf, 'T (troposphere)', w[1], REF.ISA['T_tropo_branch'], consts, refconsts=rc)
    _cmp(ctx, 'C12-R1', tf, 'T (stratosphere)', w[2], REF.ISA['T_strat_branch'], consts, refconsts=rc)

    pf = m.func('pressure_at_altitude_isa_bada4')
    w = _where(pf, 'pressure')
    if w is None:
        ctx.undecided('C12-R1', pf, 'pressure', 'not an np.where(cond, tropo, strat) definition')
    okp = norm(w[0]) == 'altitude <= h_p_tropo'
    ctx.ob('C12-R2', pf, f'pressure branch test {norm(w[0])}', okp, 'same split as the temperature profile' if okp else
           'branch test of the pressure profile changed')
    pt = single_def_value(pf.node, 'p_tropo')
    if pt is None:
        # tropopause pressure may be a module constant after a refactor
        pt = m.constants.get('p_tropo')
    if pt is None:
        ctx.undecided('C12-R1', pf, 'p_tropo', 'tropopause pressure definition not found')
    _cmp(ctx, 'C12-R1', pf, 'p at tropopause', pt, REF.ISA['p_tropopause'], consts, refconsts=rc)
    _cmp(ctx, 'C12-R1', pf, 'p (troposphere)', w[1], REF.ISA['p_tropo_branch'], consts, refconsts=rc,
         rename={'temperature_at_altitude_isa_bada4(altitude)': 'TEMPERATURE', 'temperature': 'TEMPERATURE'})
    _cmp(ctx, 'C12-R1', pf, 'p (stratosphere)', w[2], REF.ISA['p_strat_branch'], consts, refconsts=rc,
         rename={'p_tropo': 'P_TROPO'}, stop=('p_tropo',))
    td = single_def_value(pf.node, 'temperature')
    ok = td is not None and norm(td) == 'temperature_at_altitude_isa_bada4(altitude)'
    ctx.ob('C12-R1', pf, 'pressure uses the ISA temperature at the same altitude', ok, norm(td) if ok else
           'temperature fed to the pressure law is not T(altitude)', nontrivial=False)

    af = m.func('altitude_from_pressure_isa_bada4')
    w2 = _where(af, 'altitude')
    if w2 is None:
        ctx.undecided('C12-R1', af, 'altitude', 'not an np.where(cond, tropo, strat) definition')
    ok = norm(w2[0]) == 'pressure >= pressure_tropo'
    ctx.ob('C12-R2', af, f'inverse branch test {norm(w2[0])}', ok,
           'mirror image of `altitude <= h_p_tropo` (pressure decreases with altitude)' if ok else
           'the inverse function splits at a different point than the forward function')
    ptd = single_def_value(af.node, 'pressure_tropo')
    if ptd is None:
        ptd = m.constants.get('p_tropo')
    tt = single_def_value(af.node, 'temperature_tropo')
    ren = {'temperature_tropo': 'TT'}
    if tt is not None:
        okt = norm(tt) == 'temperature_at_altitude_isa_bada4(h_p_tropo)'
        ctx.ob('C12-R2', af, f'temperature_tropo = {norm(tt)}', okt, 'T at the tropopause' if okt else
               'tropopause temperature of the inverse is not T(h_tropo)')
    if ptd is not None:
        _cmp(ctx, 'C12-R2', af, 'p at tropopause (inverse)', ptd, 'p0 * (TT / T0) ** (-g0 / (beta_tropo * R_air))', consts,
             refconsts=rc, rename=ren, stop=('temperature_tropo',),
             refdefs={'TT': 'T0 + beta_tropo * h_p_tropo'} if tt is None else None)
    _cmp(ctx, 'C12-R1', af, 'h (troposphere)', w2[1], REF.ISA['h_tropo_branch'], consts, refconsts=rc)
    _cmp(ctx, 'C12-R1', af, 'h (stratosphere)', w2[2], REF.ISA['h_strat_branch'], consts, refconsts=rc,
         rename={'pressure_tropo': 'P_TROPO', 'p_tropo': 'P_TROPO'}, stop=('pressure_tropo', 'p_tropo'))
    # exponents multiply to one
    try:
        pw = [x for x in ast.walk(w[1]) if isinstance(x, ast.BinOp) and isinstance(x.op, ast.Pow)]
        iw = [x for x in ast.walk(w2[1]) if isinstance(x, ast.BinOp) and isinstance(x.op, ast.Pow)]
        e1 = normal_form(pw[0].right, {}, consts)
        e2 = normal_form(iw[0].right, {}, consts)
        ok = (e1 * e2).is_const() and (e1 * e2).const() == 1
    except Exception as e:
        ctx.undecided('C12-R2', af, 'exponents', str(e))
    ctx.ob('C12-R2', af, f'exponents {norm(pw[0].right)} · {norm(iw[0].right)} = 1', ok,
           'forward and inverse power laws are exact inverses' if ok else
           'pressure→altitude does not invert altitude→pressure (exponent product ≠ 1)')
    rng = [n for n in walk_no_nested(tf.node) if isinstance(n, ast.Raise)]
    okr = bool(rng) and any('altitude > 25000' in norm(t) for t, _, _ in guards_of(rng[0]))
    ctx.ob('C12-R1', tf, 'altitudes above 25 km refused', okr, 'raise above 25000 m' if okr else 'range refusal changed', nontrivial=False)
    d = m.func('calculate_air_density')
    r = [n for n in walk_no_nested(d.node) if isinstance(n, ast.Return)][0].value
    _cmp(ctx, 'C12-R1', d, 'air density', r, REF.ISA['density'], consts, refconsts=rc)
    tm = prog.module('emissions/types.py')
    st = tm.func('AtmosphericState.__init__')
    mach = [s for t, s, how in stores_to(st.node) if norm(t) == 'self.mach']
    consts_t = dict(consts)
    if mach:
        _cmp(ctx, 'C12-R1', st, 'Mach number', mach[0].value, REF.ISA['mach'], consts_t, refconsts=rc,
             rename={'self.temperature': 'TEMPERATURE'})
    for attr, fn_ in (('temperature', 'temperature_at_altitude_isa_bada4(altitude)'), ('pressure', 'np.array(pressure_at_altitude_isa_bada4(altitude))')):
        s = [x for t, x, how in stores_to(st.node) if norm(t) == f'self.{attr}']
        ok = bool(s) and norm(s[0].value) == fn_
        ctx.ob('C12-R1', st, f'atmospheric state {attr} from the ISA function', ok, fn_ if ok else f'{attr} no longer comes from the ISA model', nontrivial=False)


def rule_ffm2(ctx):
    prog = ctx.prog
    m = prog.module('emissions/utils.py')
    fi = m.func('get_SLS_equivalent_fuel_flow')
    r = [n for n in walk_no_nested(fi.node) if isinstance(n, ast.Return)]
    vis = visible_constants(prog, m)
    _cmp(ctx, 'C12-R1', fi, 'FFM2 Wf_SL', r[0].value, REF.FFM2['Wf_SL'], vis)
    dflt = param_defaults(fi.node, vis)
    for k, v in REF.FFM2['defaults'].items():
        ok = k in dflt and dflt[k] == Fraction(repr(v))
        ctx.ob('C12-R1', fi, f'default {k} = {float(dflt[k]) if k in dflt else None}', ok, 'FFM2 reference condition' if ok else
               f'default {k} differs from {v}')
    # homogeneous of degree 1 in fuel flow
    try:
        nf = nf_code(fi.node, r[0].value, {})
        nf0 = nf_code(fi.node, r[0].value, {}, rename={'fuel_flow': 'K_TIMES_FF'})
        lin = all(dict(mm).get('fuel_flow', 0) == 1 for mm in nf.num) and not any('fuel_flow' in dict(mm) for mm in nf.den)
    except AlgebraError as e:
        ctx.undecided('C12-R3', fi, 'linearity', str(e))
    ctx.ob('C12-R3', fi, 'Wf_SL is linear in the measured fuel flow', lin, 'degree 1 in fuel_flow' if lin else
           'sea-level fuel flow is not proportional to the measured fuel flow')
    cat = m.func('get_thrust_cat_cruise')
    sel = [c for c in calls_in(cat.node) if call_name(c) in ('np.select', 'numpy.select')]
    if len(sel) != 1:
        dg = [c for c in calls_in(cat.node) if call_name(c).split('.')[-1] in ('digitize', 'searchsorted')]
        if dg:
            ctx.ob('C12-R4', cat, f'categories by {call_name(dg[0])}({", ".join(norm(a)[:30] for a in dg[0].args)})', False,
                   'bin look-ups assume ordered thresholds: for non-monotone calibration flows (idle/approach mid-point '
                   'above approach/climb mid-point) the bins are numbered from the top and the category is anti-monotone '
                   'in fuel flow, contradicting the documented rule', line=dg[0].lineno)
            return
        ctx.undecided('C12-R4', cat, 'np.select', f'{len(sel)} np.select calls')
    s = sel[0]
    conds = [norm(e) for e in s.args[0].elts] if isinstance(s.args[0], ast.List) else []
    vals = [norm(e) for e in s.args[1].elts] if isinstance(s.args[1], ast.List) else []
    dfl = kwarg(s, 'default')
    ok = conds == ['ff_eval <= lowLimit', 'ff_eval > approachLimit'] and vals == ['ThrustMode.IDLE', 'ThrustMode.CLIMB'] \
        and dfl is not None and norm(dfl) == 'ThrustMode.APPROACH'
    ctx.ob('C12-R4', cat, f'categories: {list(zip(conds, vals))} default {norm(dfl) if dfl is not None else None}', ok,
           'low ≤ lowLimit < approach ≤ approachLimit < high: total, single-valued, ascending in fuel flow' if ok else
           'thrust categories are no longer a total, monotone partition of the fuel-flow axis')
    for nm, a_, b_ in (('lowLimit', 'IDLE', 'APPROACH'), ('approachLimit', 'APPROACH', 'CLIMB')):
        d = single_def_value(cat.node, nm)
        if d is None:
            ctx.undecided('C12-R4', cat, nm, 'threshold definition not found')
        _cmp(ctx, 'C12-R4', cat, nm, d, f'(A + B) / 2', {}, rename={f'ff_cal[ThrustMode.{a_}]': 'A', f'ff_cal[ThrustMode.{b_}]': 'B'})


def rule_bffm2(ctx):
    prog = ctx.prog
    m = prog.module('emissions/ei/nox.py')
    fi = m.func('BFFM2_EINOx')
    vis = visible_constants(prog, m)
    B = REF.BFFM2
    chain = [('theta_amb', B['theta_amb'], {}, ()), ('delta_amb', B['delta_amb'], {}, ()),
             ('Pamb_psia', B['Pamb_psia'], {}, ()),
             ('beta', B['beta'], {}, ()),
             ('Pv', B['Pv'], {'beta': 'BETA'}, ('beta',)),
             ('omega', B['omega'], {'Pv': 'PV', 'Pamb_psia': 'PAMB_PSIA'}, ('Pv', 'Pamb_psia')),
             ('H', B['H'], {'omega': 'OMEGA'}, ('omega',)),
             ('correction', B['correction'], {'H': 'HH', 'delta_amb': 'DELTA', 'theta_amb': 'THETA'}, ('H', 'delta_amb', 'theta_amb')),
             ('NOxEI_sl', B['NOxEI_sl'], {}, ('x_eval', 'slope', 'intercept'))]
    n = 0
    for name, ref, ren, stop in chain:
        d = single_def_value(fi.node, name)
        if d is None:
            ctx.undecided('C12-R1', fi, name, 'definition not found (or defined more than once)')
        n += 1
        _cmp(ctx, 'C12-R1', fi, f'BFFM2 {name}', d, ref, vis, rename=ren, stop=stop)
    ctx.floor('C12-R1/bffm2', n, 9, 'BFFM2 sub-expressions')
    d = single_def_value(fi.node, 'NOxEI')
    ok = d is not None and norm(d) in ('NOxEI_sl * correction', 'correction * NOxEI_sl')
    ctx.ob('C12-R1', fi, 'NOxEI = sea-level EI × ambient correction', ok, norm(d) if ok else 'the ambient correction is not applied to the sea-level EI')
    ok = all(single_def_value(fi.node, v) is not None and norm(single_def_value(fi.node, v)) == f'np.log10({s})'
             for v, s in (('x_cal', 'ff_cal'), ('y_cal', 'ei_cal'), ('x_eval', 'ff_eval')))
    pf = [c for c in calls_in(fi.node) if call_name(c) == 'np.polyfit']
    ok = ok and len(pf) == 1 and [norm(a) for a in pf[0].args] == ['x_cal', 'y_cal', '1']
    ctx.ob('C12-R1', fi, 'log10–log10 linear fit of EI against fuel flow', ok, 'np.polyfit(log10 ff, log10 EI, 1)' if ok else
           'the log-log fit changed (axes, base or degree)')
    # linear in the certification EI? (log-log fit: not polynomial) — speciation products are linear in NOxEI
    for out, prop in (('NOEI', 'noProp'), ('NO2EI', 'no2Prop'), ('HONOEI', 'honoProp')):
        d = single_def_value(fi.node, out)
        ok = d is not None and norm(d) in (f'NOxEI * {prop}', f'{prop} * NOxEI')
        ctx.ob('C12-R3', fi, f'{out} = NOxEI × {prop}', ok, 'speciation scales linearly with the NOx index' if ok else
               f'{out} is not the NOx index times its own fraction')


def rule_hcco(ctx):
    prog = ctx.prog
    m = prog.module('emissions/ei/hcco.py')
    fi = m.func('EI_HCCO')
    H = REF.HCCO
    f = single_def_value(fi.node, 'factor')
    if f is None:
        ctx.undecided('C12-R1', fi, 'factor', 'ambient factor not found')
    vis = visible_constants(prog, m)
    _cmp(ctx, 'C12-R1', fi, 'HC/CO ambient factor', f, H['factor'], vis)
    ap = [s for t, s, how in stores_to(fi.node) if isinstance(t, ast.Name) and t.id == 'xEI_out' and how == 'aug']
    ok = len(ap) == 1 and isinstance(ap[0].op, ast.Mult) and norm(ap[0].value) == 'factor' and not guards_of(ap[0])
    ctx.ob('C12-R1', fi, 'ambient factor multiplies every point', ok, 'xEI_out *= factor' if ok else 'the ambient factor is not applied to the whole array')
    ac = single_def_value(fi.node, 'xEI_acrp')
    if ac is None:
        ctx.undecided('C12-R1', fi, 'xEI_acrp', 'ACRP correction not found')
    _cmp(ctx, 'C12-R1', fi, 'ACRP low-thrust correction', ac, H['acrp'], vis,
         rename={'xEI_out[low_thrust_mask]': 'XEI', 'ff_eval[low_thrust_mask]': 'FF', 'ff_cal[ThrustMode.IDLE]': 'FF_IDLE'})
    lm = single_def_value(fi.node, 'low_thrust_mask')
    ok = lm is not None and norm(lm) == 'ff_eval < ff_cal[ThrustMode.IDLE]'
    ctx.ob('C12-R1', fi, 'low-thrust rule applies below idle fuel flow', ok, norm(lm) if ok else 'low-thrust mask changed')
    ren = {f'x_EI[ThrustMode.{k}]': f'EI_{k}' for k in ('IDLE', 'APPROACH', 'CLIMB', 'TAKEOFF')}
    ren.update({f'ff_cal[ThrustMode.{k}]': f'FF_{k}' for k in ('IDLE', 'APPROACH', 'CLIMB', 'TAKEOFF')})
    hz = [s for t, s, how in stores_to(fi.node) if isinstance(t, ast.Name) and t.id == 'x_horzline']
    _cmp(ctx, 'C12-R1', fi, 'horizontal level', hz[0].value, H['x_horzline'], {}, rename=ren)
    nu = single_def_value(fi.node, 'numerator')
    if nu is not None:
        _cmp(ctx, 'C12-R1', fi, 'intercept numerator', nu, H['x_intercept_num'], {}, rename=ren, stop=('slope',))
    sn = single_def_value(fi.node, 'slope_num')
    sd = single_def_value(fi.node, 'slope_den')
    if sn is not None and sd is not None:
        _cmp(ctx, 'C12-R1', fi, 'slope numerator', sn, 'log10(EI_APPROACH) - log10(EI_IDLE)', {}, rename=ren)
        _cmp(ctx, 'C12-R1', fi, 'slope denominator', sd, 'log10(FF_APPROACH) - log10(FF_IDLE)', {}, rename=ren)
    # R5: order of the clamping rules
    chain = None
    for x in walk_no_nested(fi.node):
        if isinstance(x, ast.If) and 'x_intercept >' in norm(x.test) and 'log_ff_cal2' in norm(x.test):
            chain = x
    tests = []
    cur = chain
    while isinstance(cur, ast.If):
        tests.append(norm(cur.test))
        cur = cur.orelse[0] if len(cur.orelse) == 1 and isinstance(cur.orelse[0], ast.If) else None
    want = ['x_intercept > log_ff_cal2', 'x_intercept < log_ff_cal1 and slope < 0.0', 'slope >= 0.0']
    ok = tests == want
    if chain is None:
        # maybe reordered: find any if-chain over these tests
        for x in walk_no_nested(fi.node):
            if isinstance(x, ast.If) and ('slope >= 0' in norm(x.test) or 'x_intercept <' in norm(x.test)) \
                    and not isinstance(getattr(x, '_parent', None), ast.If):
                cur, tests = x, []
                while isinstance(cur, ast.If):
                    tests.append(norm(cur.test))
                    cur = cur.orelse[0] if len(cur.orelse) == 1 and isinstance(cur.orelse[0], ast.If) else None
    ctx.ob('C12-R5', fi, f'clamping rules in order {tests}', ok,
           '(a) clamp to climb flow, else (b) below-approach with negative slope, else (c) non-negative slope' if ok else
           'the documented clamping rules (a)(b)(c) are tested in a different order or with different conditions: '
           'certification sets with non-negative slope and a high intercept take the wrong branch',
           line=(chain.lineno if chain is not None else fi.node.lineno))
    for nm, mode in (('log_ff_cal1', 'APPROACH'), ('log_ff_cal2', 'CLIMB')):
        d = single_def_value(fi.node, nm)
        ok = d is not None and norm(d) == f'np.log10(ff_cal[ThrustMode.{mode}])'
        ctx.ob('C12-R5', fi, f'{nm} = log10 of {mode.lower()} flow', ok, norm(d) if ok else f'{nm} refers to the wrong mode', nontrivial=False)


def rule_sox(ctx):
    prog = ctx.prog
    m = prog.module('emissions/ei/sox.py')
    fi = m.func('EI_SOx')
    consts = module_constants(m)
    for k, v in REF.SOX['MW'].items():
        ok = consts.get(k) == Fraction(repr(v))
        ctx.ob('C12-R1', (m.relpath, '<module>'), f'{k} = {float(consts.get(k, 0))}', ok, 'molecular weight' if ok else f'{k} ≠ {v}', nontrivial=False)
    ren = {'fuel.fuel_sulfur_content_nom': 'FSC', 'fuel.sulfate_yield_nom': 'EPS'}
    d2, d4 = single_def_value(fi.node, 'EI_SO2'), single_def_value(fi.node, 'EI_SO4')
    if d2 is None or d4 is None:
        ctx.undecided('C12-R1', fi, 'EI_SO2/EI_SO4', 'definitions not found')
    _cmp(ctx, 'C12-R1', fi, 'EI_SO2', d2, REF.SOX['EI_SO2'], consts, rename=ren)
    _cmp(ctx, 'C12-R1', fi, 'EI_SO4', d4, REF.SOX['EI_SO4'], consts, rename=ren)
    try:
        a = nf_code(fi.node, d2, consts, rename=ren)
        b = nf_code(fi.node, d4, consts, rename=ren)
        mw2 = normal_form(ast.Name('MW_SO2', ast.Load()), {}, consts)
        mw4 = normal_form(ast.Name('MW_SO4', ast.Load()), {}, consts)
        s = ref_normal_form('FSC / 1.0e6 * 1.0e3 / 32.0', {})
        ok = poly_equal(a / mw2 + b / mw4, s)
    except AlgebraError as e:
        ctx.undecided('C12-R3', fi, 'sulfur balance', str(e))
    ctx.ob('C12-R3', fi, 'EI_SO2/MW_SO2 + EI_SO4/MW_SO4 ≡ S·10³/MW_S', ok,
           'sulfur atoms conserved identically in the sulfate yield' if ok else 'sulfur atoms are not conserved')
    r = [n for n in walk_no_nested(fi.node) if isinstance(n, ast.Return)][0].value
    kw = {k.arg: norm(k.value) for k in r.keywords} if isinstance(r, ast.Call) else {}
    ok = kw.get('EI_SOx') in ('EI_SO2 + EI_SO4', 'EI_SO4 + EI_SO2') and kw.get('EI_SO2') == 'EI_SO2' and kw.get('EI_SO4') == 'EI_SO4'
    ctx.ob('C12-R3', fi, f'result {kw}', ok, 'SOx = SO2 + SO4, fields carry their own values' if ok else
           'SOx is not SO2 + SO4 or the result fields are crossed')
    lin = all(dict(mm).get('FSC', 0) == 1 for mm in a.num) and all(dict(mm).get('FSC', 0) == 1 for mm in b.num)
    ctx.ob('C12-R3', fi, 'SOx indices linear in fuel sulfur content', lin, 'degree 1' if lin else 'not proportional to sulfur content')


def rule_pm(ctx):
    prog = ctx.prog
    m = prog.module('emissions/ei/pmvol.py')
    f3 = m.func('EI_PMvol_FOA3')
    for nm, want in (('ICAO_thrust', REF.FOA3['thrust']), ('delta', REF.FOA3['delta'])):
        d = single_def_value(f3.node, nm)
        vals = [e.value for e in d.args[0].elts] if isinstance(d, ast.Call) and d.args and isinstance(d.args[0], ast.List) else None
        ok = vals is not None and [Fraction(repr(v)) for v in vals] == [Fraction(repr(v)) for v in want]
        ctx.ob('C12-R1', f3, f'FOA3 {nm} = {vals}', ok, 'FOA3 table' if ok else f'FOA3 {nm} differs from {want}')
    dm = single_def_value(f3.node, 'delta_matrix')
    ok = dm is not None and norm(dm) == 'np.interp(thrusts, ICAO_thrust, delta)'
    ctx.ob('C12-R1', f3, 'δ interpolated in thrust percentage', ok, norm(dm) if ok else 'δ look-up changed')
    pv = single_def_value(f3.node, 'PMvoloEI')
    _cmp(ctx, 'C12-R1', f3, 'FOA3 PMvol', pv, REF.FOA3['PMvol'], {}, rename={'delta_matrix': 'DELTA'}, stop=('delta_matrix',))
    try:
        nf = nf_code(f3.node, pv, {}, rename={'delta_matrix': 'DELTA'}, stop=('delta_matrix',))
        lin = all(dict(mm).get('HCEI', 0) == 1 for mm in nf.num)
    except AlgebraError:
        lin = False
    ctx.ob('C12-R3', f3, 'FOA3 PMvol linear in the HC index', lin, 'degree 1 in HCEI' if lin else 'not proportional to the HC index')
    ff = m.func('EI_PMvol_FuelFlow')
    P = REF.PMVOL_FF
    for nm, want in (('OCic_val', P['OCic']), ('lubeContrL', P['lube_low']), ('lubeContrH', P['lube_high'])):
        d = single_def_value(ff.node, nm)
        ok = isinstance(d, ast.Constant) and Fraction(repr(d.value)) == Fraction(repr(want))
        ctx.ob('C12-R1', ff, f'{nm} = {norm(d) if d is not None else None}', ok, 'documented constant' if ok else f'{nm} ≠ {want}')
    pv = single_def_value(ff.node, 'PMvolo_vec')
    _cmp(ctx, 'C12-R1', ff, 'fuel-flow PMvol', pv, P['PMvol'], {}, rename={'OCic_val': 'OCIC', 'lubeContr': 'LUBE'}, stop=('OCic_val', 'lubeContr'))
    lc = single_def_value(ff.node, 'lubeContr')
    ok = lc is not None and norm(lc) == 'np.where(thrustMode.data == ThrustMode.IDLE, lubeContrL, lubeContrH)'
    ctx.ob('C12-R1', ff, 'low lube share at idle, high above', ok, norm(lc) if ok else 'lube-oil share selection changed')
    # SCOPE11
    m2 = prog.module('emissions/ei/pmnvol.py')
    sc = m2.func('calculate_PMnvolEI_scope11')
    S = REF.SCOPE11
    defs = {}
    for t, st, how in stores_to(sc.node):
        if how == 'assign':
            defs.setdefault(norm(t), []).append(st)
    cb = defs.get('CBC_i', [])
    if len(cb) != 1:
        ctx.undecided('C12-R1', sc, 'CBC_i', f'{len(cb)} definitions')
    _cmp(ctx, 'C12-R1', sc, 'SCOPE11 C_BC', cb[0].value, S['C_BC'], {}, stop=('SN',))
    # k_slm and Q have one published formula per engine type.  Which formula the code uses for an engine type is decided
    # by *running the dispatch for that value* (ValueCase): if/elif/else, guard clauses, match/case, conditional
    # expressions and dict look-ups keyed by the engine type all select the same way.
    var = 'engine_type'
    if var not in sc.params:
        ctx.undecided('C12-R1', sc, var, 'SCOPE11 no longer takes the engine type as a parameter')
    n = 0
    keep = ('CBC_i', 'AFR', 'SN')
    for val, ki, qi in (('MTF', 'kslm_mtf', 'Q_mtf'), ('TF', 'kslm_tf', 'Q_tf')):
        try:
            vc = ValueCase(sc.node, var, val, m2.tree)
            todo = []
            for target, ref, what in (('kslm', S[ki], 'k_slm'), ('Q[mode]', S[qi], 'Q')):
                for st in vc.defs(target):
                    vc.unresolved = set()
                    e = vc.resolve(st.value, vc.node_of(st), stop=keep)
                    if vc.unresolved:
                        ctx.undecided('C12-R1', sc, f'{target} for {var} == {val!r}',
                                      f'{sorted(vc.unresolved)} have several definitions reaching `{norm(st)[:60]}`')
                    todo.append((what, e, ref, st))
        except Undecidable as ex:
            ctx.undecided('C12-R1', sc, f'dispatch on {var} == {val!r}', str(ex))
        for what, e, ref, st in todo:
            n += 1
            _cmp(ctx, 'C12-R1', sc, f'SCOPE11 {what} ({val})', e, ref, {},
                 rename={'CBC_i': 'CBC', 'BP_Ratio': 'BPR', 'AFR[mode]': 'AFR'}, stop=keep, line=st.lineno)
    ctx.floor('C12-R1/scope11', n, 4, 'SCOPE11 k_slm / Q definitions (one per engine type each)')
    afr = single_def_value(sc.node, 'AFR')
    vals = [a.value for a in afr.args] if isinstance(afr, ast.Call) else None
    ok = vals == S['AFR']
    ctx.ob('C12-R1', sc, f'air-fuel ratios {vals}', ok, 'idle/approach/climb/take-off AFR' if ok else f'AFR table differs from {S["AFR"]}')
    cap = [st for st in defs.get('SN', []) if isinstance(st.value, ast.Call) and call_name(st.value) == 'min']
    ok = len(cap) == 1 and norm(cap[0].value) == f'min(SN, {S["SN_cap"]})'
    ctx.ob('C12-R1', sc, 'smoke number capped at 40', ok, 'min(SN, 40)' if ok else 'smoke number cap changed')
    ci = defs.get('CI_best[mode]', [])
    ok = len(ci) == 1 and norm(ci[0].value) in ('kslm * CBC_i', 'CBC_i * kslm')
    pe = single_def_value(sc.node, 'PMnvolEI_best')
    pr = single_def_value(sc.node, 'profile')
    ok = ok and pe is not None and norm(pe) in ('CI_best * Q', 'Q * CI_best') and pr is not None and norm(pr) == 'PMnvolEI_best / 1000.0'
    ctx.ob('C12-R1', sc, 'EI = k_slm·C_BC·Q, mg→g', ok, 'CI_best * Q / 1000' if ok else 'SCOPE11 assembly changed')


def rule_mode_layout(ctx):
    """R6: per-mode values cross between "keyed by mode" and "position in an array" in ThrustModeValues; the EI
    routines pair such arrays position by position (fuel flow i with EI i).  Every such crossing must use the order
    of the ThrustMode enumeration itself, never the insertion order of the underlying dict."""
    cls = ctx.prog.cls('performance/types.py', 'ThrustModeValues')
    aa = cls.methods.get('as_array')
    if aa is None:
        ctx.undecided('C12-R6', (cls.file, cls.name), 'as_array', 'method not found')
    rets = [r.value for r in walk_no_nested(aa.node) if isinstance(r, ast.Return) and r.value is not None]
    ctx.floor('C12-R6', len(rets), 1, 'returns of ThrustModeValues.as_array')
    for rv in rets:
        comps = [x for x in ast.walk(rv) if isinstance(x, (ast.ListComp, ast.GeneratorExp))]
        dict_order = [x for x in ast.walk(rv) if isinstance(x, ast.Call) and isinstance(x.func, ast.Attribute)
                      and x.func.attr in ('values', 'items', 'keys') and 'self' in norm(x.func.value)]
        dict_order += [x for x in ast.walk(rv) if isinstance(x, ast.comprehension) and norm(x.iter) in ('self', 'self._data')]
        ok = len(comps) == 1 and len(comps[0].generators) == 1 and norm(comps[0].generators[0].iter) == 'ThrustMode' \
            and not comps[0].generators[0].ifs and norm(comps[0].elt) in (f'self._data[{norm(comps[0].generators[0].target)}]',
                                                                         f'self[{norm(comps[0].generators[0].target)}]') \
            and not dict_order
        ctx.ob('C12-R6', aa, f'as_array = {norm(rv)[:70]}', ok,
               'one element per member of ThrustMode, in the enumeration\'s order' if ok else
               ('the array follows the insertion order of the underlying dict, not the order of ThrustMode: two value sets with '
                'equal contents built in different key orders give different arrays, and BFFM2 / MEEM pair fuel flows with '
                'emission indices of other modes'), line=rv.lineno)
    ini = cls.methods.get('__init__')
    n = 0
    for st in ast.walk(ini.node):
        if isinstance(st, ast.DictComp) and any('args[' in norm(x) for x in ast.walk(st.value)):
            n += 1
            g0 = st.generators[0]
            ok = norm(g0.iter) == 'enumerate(ThrustMode)' or norm(g0.iter) == 'ThrustMode'
            ctx.ob('C12-R6', ini, f'positional constructor: {norm(st)[:60]}', ok,
                   'position i is the i-th member of ThrustMode' if ok else 'positional data are not assigned in enumeration order',
                   line=st.lineno, nontrivial=False)
    ctx.floor('C12-R6/init', n, 2, 'positional constructors of ThrustModeValues')


def run(ctx):
    rule_isa(ctx)
    rule_mode_layout(ctx)
    rule_ffm2(ctx)
    rule_bffm2(ctx)
    rule_hcco(ctx)
    rule_sox(ctx)
    rule_pm(ctx)
    ctx.note('NOT decided: MEEM; numerical behaviour of the HC/CO bilinear fit; finiteness / non-negativity over the input range')
    ctx.assumptions += ['reference_equations.py is a faithful transcription of the cited publications',
                        'numpy elementary functions (exp, log, log10, power) implement the mathematical functions']
