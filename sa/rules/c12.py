"""C12 — emission-index and atmosphere functions follow their cited methods.

Claimed: conformance of coefficients and formula shape of the straight-line
building blocks against /verif/sa/reference_equations.py (an independent
transcription of the cited equations), decided by exact canonical-form
comparison (T-ALG).  The repository's constants are folded on the code side,
the standards' own numbers on the reference side.

R1  canonical-form comparison: ISA temperature / pressure / altitude, air density, Mach; FFM2 sea-level fuel flow
    (eq. 40) and its defaults; BFFM2 humidity / ambient NOx correction (eqs. 44-45); HC/CO ambient factor, ACRP
    slope, horizontal level and intercept; fuel-sulfur SOx; SCOPE11 C_BC, k_slm, Q, AFR.
    Numbers may be literals, module constants or constants imported from another repository module (folded
    exactly); a parameter that is not a symbol of the cited equation enters with its default value.
    *Piecewise formulas are read region by region* (ValueCase): the function is followed for a value of the
    discriminating variable - an engine type ('MTF' / 'TF' for SCOPE11 k_slm and Q), or a representative altitude /
    pressure on either side of the tropopause within a metre, on either side of every numeric threshold the code
    compares with, and at the ends of the range (ISA) - every selection that value decides takes the side the value
    takes (if / elif / else, guard clauses, match / case, conditional expressions, dict look-ups, np.where in either
    orientation, np.minimum / np.maximum, range checks), locals are read through their unique reaching definition,
    module-level arithmetic names and the repository's own helpers are followed into their definitions, and what
    remains must equal the cited formula of that region.  A condition that the value does not decide is UNDECIDED,
    never guessed.  A rational code form against a reference with exp / log / non-integer powers is a definite
    difference.
    *What is compared is located by value flow from the result, never by the name of a local*: the returned value (or
    the field of the returned record) is followed back through its definitions - locals through their unique reaching
    definition, tuple unpacking component-wise, calls of the module's own plain functions replaced by what they return
    (parameters bound to the arguments), module-level and imported constants folded, parameters that are optional
    knobs (numeric default, not a symbol of the cited equation) at their default.
    *Containers that only carry values are read through*: field f (or position i, or the i-th unpacking target) of the
    construction of a plain record of the program (NamedTuple / dataclass of annotated fields without construction or
    attribute hooks; defaults filled in; `Rec(*seq)` when seq is decided; a read-only property that is one `return` over
    the fields is that expression) is the argument bound to f; `(a, b, c)[1]` is b; element i of `(f(m) for m in
    ThrustMode)` / `tuple(..)` / `[.. for ..]` (also over a display, also reversed()) is f(<i-th member>); an element-wise
    numpy function of a sequence is the function of the element; `P.as_array()[i]` is P at the i-th member of ThrustMode.
    So `logs = _ModeLogs(*(np.log10(x[m]) for m in ThrustMode)); logs.climb` is np.log10(x[ThrustMode.CLIMB]), whether or
    not the engine's record erasure (structnorm T) applied.  FFM2, the HC/CO slope / level / intercept pieces (each read
    where it is computed), BFFM2 and SOx all go through this.
    *Records that carry state and compute with it are opened too*: a module-level name bound once to the construction
    of a plain record (NamedTuple, dataclass - frozen or not, `dataclasses.replace(R, f=v)` / `R._replace(f=v)` of one,
    which keeps *every field that is not named as R has it*, a tuple of records, a class whose __init__ only stores its
    parameters in same-named attributes and whose methods store nothing) and never stored into is that construction;
    `R.method(args)` is the method's body with the construction for `self` - fields read through, tests that become
    arithmetic over constants (`self.lapse_rate == 0.0`, a property `isothermal`) decided, methods calling methods and
    methods returning new records followed.  So `STRATOSPHERE = replace(TROPOSPHERE, h_base=.., T_base=.., lapse_rate=0.0)`
    followed by `STRATOSPHERE.pressure(h)` is read as the isothermal formula *with the troposphere's base pressure p0*.
    A module-level name that is neither a number nor followed to a value leaves the formula UNDECIDED (never a symbol).
    A test that reads the argument only for its form (`.ndim`, `.shape`, np.isscalar, isinstance) is not decided by the
    value: every return that can run is compared.
    A change of structure the algebra cannot see through is a definite difference when the two forms take different
    values at sample points of the cited equation's own symbols (60-digit arithmetic, never used to conclude equality);
    when the cited equation is linear in a named quantity (P_TROPO) and the code is a constant multiple of the rest,
    the report names the constant the code has in its place.  A formula that divides by an exact zero is reported.
    A code form that uses only some of the reference's logarithm terms (the reference's being logarithms of distinct
    symbols, hence algebraically independent) and is not equal as a polynomial in them is a definite difference
    (`0.5 * (log EI_climb + log EI_climb)` against `0.5 * (log EI_climb + log EI_takeoff)`), not a change of structure.
    BFFM2 NOx: the NOx field of the result is one product; its factors that read only Tamb / Pamb are the ambient
    correction, compared as a whole with eqs. (44)-(45) expanded (theta, delta, P_psia, beta, Pv, omega, H); a
    difference is pinned to the innermost cited sub-expression it lies in (opaque atoms - exp, log10, non-integer powers
    - are identified by the *value* of their arguments and descended into).  The remaining factors are the sea-level
    index 10 ** (log10(flow) * slope + intercept) with slope / intercept the two results of np.polyfit.  Every positive
    fuel flow (calibration and evaluation) reaches its logarithm unchanged, only non-positive flows are replaced:
    decided element-wise by running the function's own statements for one element of each array argument (masked
    stores, np.where, np.clip, np.maximum on that element).
    HC/CO: everything that happens to the returned array after it is filled is classified by value: whole-array
    scalings (`A *= f`, `A = A * f`, `return A * f`, helper) multiply up to the ambient factor theta^3.3 / delta^1.02;
    the one *correction of values already in the array* under a mask (`A[M] = g(A[M])`, `A[M] *= f`, `A *= np.where(M, f,
    1)`, `A = np.where(M, g(A), A)`) is the ACRP low-thrust rule: new value ≡ xEI·(1 − 52·(ff − ff_idle)), M ≡ ff < ff_idle
    (<=, flipped and np.less spellings are the same set of changed values), no plain fill of the array after it
    (`A[isnan(A)] = 0` commutes with every scaling).  No update that reads the idle flow at all: the rule is missing.
    SOx: the three fields of the record that is built and returned, by value.
    The atmospheric state's attributes are followed to the values stored in them (locals, array conversions, earlier
    attributes).  A piecewise ISA formula whose structure differs from its region's equation but equals the other
    region's equation is reported as that (branches crossed), not left undecided.
    *Element-wise routines are run for single points* (ScalarRun: exact rational arithmetic on the function's own
    statements; np.where / np.select / np.interp / interp1d / digitize on scalars; tables in the function or at
    module level): FOA3 volatile PM at thrust settings below, at, between and above the table entries (δ held at the
    ends of the table), fuel-flow volatile PM per thrust mode, the SCOPE11 smoke-number cap where C_BC is computed.
    The log-log NOx fit and the NOx speciation are read by value (names followed to their reaching definitions,
    tuple / generator unpacking component-wise).
R2  inverse pair: pressure(altitude) and altitude(pressure) conform to the standard region by region with
    representatives within a metre of the tropopause (same split point); exponents whose product is exactly 1.
R3  identities: sulfur atoms conserved (EI_SO2/MW_SO2 + EI_SO4/MW_SO4 ≡ S·10³/MW_S); the result record's fields,
    positional or keyword, carry EI_SO2 + EI_SO4, EI_SO2 and EI_SO4 by value; linear scaling where the block is
    homogeneous of degree 1 in the certification symbol.
R4  thrust categories are total, single-valued and ascending: the category of one fuel flow is evaluated for
    calibration flows in every order (monotone, reversed, equal, mixed), at and around both mid-points; documented:
    idle up to and including mid(idle, approach), climb strictly above mid(approach, climb), approach otherwise, the
    first rule that applies winning.  np.select, nested np.where, named masks, mask arithmetic (`&`, `|`, `~`,
    `.astype(int)` sums, np.count_nonzero), np.digitize / searchsorted (with numpy's numbering for descending bins) over
    thresholds as written / sorted / np.maximum.accumulate'd, and a look-up of the resulting position in a category table
    (local or module-level; `T[i]`, np.take) are all just functions of the point.  When the deviating point went through
    np.digitize with out-of-order thresholds the report says so (numpy silently numbers descending bins from the top).
R6  per-mode values become arrays (and back) in the order of the ThrustMode enumeration, never in dict insertion order.
    On demand (only when an element-wise routine looks a value up with `ThrustModeValues(..).broadcast(modes)`, which the
    point-wise runs read as "the value of the point's own mode"; a ThrustModeValues built in place from four positional
    values, one sequence of four, or a {mode: value} display is a per-mode table): broadcast gives every point whose
    mode is m the value self[m], for every member m.
R5  HC/CO clamping rules (a) (b) (c) applied in the documented order.  The five scalars that shape the fit (break
    point, level, slope, base fuel flow, base EI) are computed by running the function's own scalar prelude, in exact
    rational arithmetic over the log10 values of the eight certification numbers, for a representative of every
    region of: slope against zero and against every literal / isclose tolerance the code compares with, idle and
    approach flows equal / nearly equal / ordered / reversed, approach against climb flow, and the raw intersection
    below / at / between / at / above the approach and climb flows.  The resulting fit must equal the documented rule
    table run on the same inputs ("slope == 0" read with np.isclose's tolerance, or exactly).  Merged steps,
    reordered or nested tests, flags and guard variables do not matter; which fit each region gets does.  The
    logarithms may travel in per-mode tuples, comprehensions over ThrustMode or plain records (fields, positions,
    unpacking); a fit held in a record and adjusted by its own methods (`fit.with_rules(..)` returning `replace(self, ..)`,
    a new construction or `self`) is run like a helper with the record for `self`.  When the code's break point / level sits on another mode's certification number than the documented
    one, the report names both modes (`the code's break point is the TAKEOFF calibration flow, documented the CLIMB
    one`).  Two embedded preludes (documented chain; flatten rule tested first) are the positive controls.
    When no per-point expression reads the five scalars under their documented names (the fit travels in a record, a
    tuple, under other names - `fit.x_intercept`, `fit[4]`), the fit is read off the per-point expressions by role: the
    data scalar an order comparison holds a per-point quantity against is the break point, `10 ** e` with e a data
    scalar is the level, `10 ** (a * L + b)` with L per-point is the slanted line (slope a, offset b); each role must
    show exactly one value per case, otherwise UNDECIDED.

Not decided: MEEM, the HC/CO bilinear fit's numerical behaviour, anything
phrased over the whole real input range (finiteness, sign, monotone in value).
"""

from __future__ import annotations

import ast
import re
from fractions import Fraction

from ..algebra import AlgebraError, module_constants, normal_form, poly_equal
from ..astutil import (call_name, calls_in, const_value, guards_of, kwarg, norm, single_def_value, stores_to,
                       walk_no_nested)
from ..conform import compare2, heads, nf_code, ref_normal_form
from .. import reference_equations as REF

ATM = 'utils/standard_atmosphere.py'


def _refconsts():
    return {k: Fraction(repr(v)) for k, v in REF.ISA_CONSTANTS.items()}


def visible_constants(prog, m, extra=None):
    """numeric constants a module can name, folded exactly: those it imports from repository modules (under the
    local alias; `import pkg.mod as c` gives `c.NAME`) and its own top-level ones"""
    out = dict(extra or {})
    for alias, dotted in m.imports.items():
        r = prog.resolve_dotted(dotted)
        if isinstance(r, tuple) and r[0] == 'const':
            src = module_constants(r[1])
            if r[2] in src:
                out[alias] = src[r[2]]
        elif r is not None and hasattr(r, 'tree') and hasattr(r, 'constants'):
            for k, v in module_constants(r).items():
                out[f'{alias}.{k}'] = v
    out.update(module_constants(m, out))
    return out


def param_defaults(fn, consts):
    """parameter -> exact value of its default, for defaults that fold to a number"""
    from ..algebra import fold_constant
    a = fn.args
    pos = a.posonlyargs + a.args
    pairs = list(zip(pos[len(pos) - len(a.defaults):], a.defaults)) + \
        [(p_, d) for p_, d in zip(a.kwonlyargs, a.kw_defaults) if d is not None]
    out = {}
    for p_, d in pairs:
        v = fold_constant(d, consts)
        if v is not None:
            out[p_.arg] = v
    return out


def _cmp(ctx, rule, fi, what, code_expr, ref, consts, rename=None, stop=(), refdefs=None, refconsts=None, line=None, alts=None):
    """alts: {label: formula} of the *other* pieces of a piecewise definition; a code form whose structure differs from
    `ref` but which equals one of them is that piece's formula in the wrong place - a definite difference"""
    try:
        want = ref_normal_form(ref, refconsts if refconsts is not None else {}, refdefs)
        # the cited method is what the function computes when its optional knobs are left alone: a parameter that is
        # not a symbol of the cited equation enters the comparison with its default value
        consts = dict(consts)
        refsyms = {x.id for t in [ref] + list((refdefs or {}).values()) for x in ast.walk(ast.parse(t, mode='eval'))
                   if isinstance(x, ast.Name)}
        for k, v in param_defaults(fi.node, consts).items():
            if k not in refsyms and k not in (rename or {}) and k not in stop:
                consts.setdefault(k, v)
        try:
            code = nf_code(fi.node, code_expr, consts, rename=rename, stop=stop)
        except AlgebraError as e:
            if 'division by zero' in str(e):
                # the formula that is evaluated for these inputs divides by a quantity that is identically zero
                ctx.ob(rule, fi, f'{what} ≡ {ref[:70]}', False,
                       f'the code divides by a quantity that is exactly zero (`{norm(code_expr)[:160]}`): not the cited equation '
                       f'`{ref[:90]}`', line=line or getattr(code_expr, 'lineno', 0))
                return False
            raise
    except AlgebraError as e:
        ctx.undecided(rule, fi, what, f'cannot normalise: {e}')
    v, why = compare2(code, want)
    if v == 'undecided' and not heads(code) and heads(want):
        # a rational function of the symbols is never a function with non-integer powers / exp / log of them
        v, why = 'different', f'the code has none of the {heads(want)} terms of the reference: code = {str(code)[:120]}'
    if v == 'undecided':
        # pinned further down inside the opaque sub-expressions (and: the same formula but for the base of a logarithm)
        from ..conform import explain_difference
        d = explain_difference(code, want)
        if d is not None and d[2]:
            v, why = 'different', d[1]
    if v == 'undecided' and _independent_logs(want):
        # the reference's opaque terms are logarithms of distinct symbols: algebraically independent functions.  A code
        # form built from only some of them (log10(a) + log10(a) where the reference has log10(a) + log10(b)) and not
        # equal as a polynomial in them is a different function
        from ..conform import opaque_atoms
        ca, wa = opaque_atoms(code), opaque_atoms(want)
        if ca < wa:
            v, why = 'different', (f'the code has no {", ".join(sorted(wa - ca))} term: code − reference = {str(code - want)[:200]}')
    if v == 'undecided':
        # a change of structure the algebra cannot see through is still a definite difference when the two forms take
        # different *values*: both are evaluated, to 60 digits, at several points of the symbols (never used to conclude
        # equality).  The report says which named quantity of the cited equation the code has something else in place of
        # when the equation is linear in it.
        nd = numeric_difference(code, want)
        if nd is not None:
            v, why = 'different', nd
            rcs = refconsts if refconsts is not None else {}
            for k in sorted(refdefs or {}):
                try:
                    # the cited equation with k := 0 (must vanish) and k := 1 (what multiplies k)
                    others = {a: b for a, b in refdefs.items() if a != k}
                    if not ref_normal_form(ref, rcs, dict(others, **{k: '0'})).is_zero():
                        continue
                    coef = ref_normal_form(ref, rcs, dict(others, **{k: '1'}))
                    if poly_equal(ref_normal_form(ref, rcs, dict(others, **{k: '2'})), coef + coef):
                        has = constant_ratio(code, coef)
                        cited = numeric_value(ref_normal_form(refdefs[k], rcs, refdefs), {})
                        if has is not None:
                            about = f', about {float(cited):.6g}' if cited is not None else ''
                            why = (f'the code has the constant {float(has):.6g} in the place of {k} (cited: `{refdefs[k][:90]}`{about}) '
                                   f'and is otherwise the cited formula; {nd}')
                            break
                except (AlgebraError, ArithmeticError):
                    pass
    if v == 'undecided':
        for label, other in (alts or {}).items():
            try:
                if compare2(code, ref_normal_form(other, refconsts if refconsts is not None else {}, refdefs))[0] == 'equal':
                    v, why = 'different', f'this is the formula of the {label} (`{other[:70]}`)'
                    break
            except AlgebraError:
                pass
    if v == 'undecided':
        ctx.undecided(rule, fi, what, why)
    ctx.ob(rule, fi, f'{what} ≡ {ref[:70]}', v == 'equal',
           'equal to the cited equation as an exact canonical form' if v == 'equal' else
           f'differs from the cited equation `{ref[:90]}`: {why}', line=line or getattr(code_expr, 'lineno', 0))
    return v == 'equal'


def numeric_value(r, point):
    """value (decimal.Decimal, 60 digits) of a normal form at `point` {symbol: number}; None when it has a symbol the point
    does not give, an opaque term other than exp / log / log10 / pow of normal forms, or the point is outside its domain"""
    import decimal
    from ..algebra import ATOM_PARTS
    D = decimal.Decimal
    ctx_ = decimal.Context(prec=60)

    def atom(a):
        if a in point:
            return D(point[a])
        h, args, kws = ATOM_PARTS.get(a, (None, [], ()))
        if h not in ('exp', 'log', 'log10', 'pow') or kws or not all(hasattr(x, 'num') for x in args):
            raise KeyError(a)
        xs = [rat(x) for x in args]
        if h == 'exp' and len(xs) == 1:
            return ctx_.exp(xs[0])
        if h == 'log' and len(xs) == 1:
            return ctx_.ln(xs[0])
        if h == 'log10' and len(xs) == 1:
            return ctx_.log10(xs[0])
        if h == 'pow' and len(xs) == 2:
            return ctx_.power(xs[0], xs[1])
        raise KeyError(a)

    def poly(p_):
        tot = D(0)
        for mono, c in p_.items():
            t = ctx_.divide(D(c.numerator), D(c.denominator))
            for a, n in mono:
                t = ctx_.multiply(t, ctx_.power(atom(a), n))
            tot = ctx_.add(tot, t)
        return tot

    def rat(r_):
        return ctx_.divide(poly(r_.num), poly(r_.den))
    try:
        out = rat(r)
        return out if out.is_finite() else None
    except (KeyError, decimal.DecimalException, ArithmeticError, TypeError, ValueError):
        return None


def numeric_difference(code, want, points=6):
    """words when the two normal forms take different values (relative difference above 1e-9, computed to 60 digits) at
    two or more of `points` sample points of their symbols, else None.  Different values at a point: different functions.
    Only when every symbol of the code form is a symbol of the cited equation (the symbols are then independent variables)."""
    from ..algebra import ATOM_PARTS

    def symbols(r, seen):
        for a in r.atoms():
            if a in ATOM_PARTS:
                for x in ATOM_PARTS[a][1]:
                    if hasattr(x, 'num'):
                        symbols(x, seen)
            else:
                seen.add(a)
        return seen
    if not symbols(code, set()) <= symbols(want, set()):
        return None          # a quantity the cited equation does not know: what it stands for is not known either
    syms = sorted(symbols(code, set()) | symbols(want, set()))
    grid = ['0.7', '1.3', '2.9', '11.5', '170.25', '5300.5', '23000.75', '0.0031']
    hits = []
    for k in range(points if syms else 1):
        pt = {s_: grid[(k + 3 * i) % len(grid)] for i, s_ in enumerate(syms)}
        c, w = numeric_value(code, pt), numeric_value(want, pt)
        if c is None or w is None:
            continue
        if abs(c - w) > (abs(c) + abs(w)) * type(c)('1e-9'):
            hits.append((pt, c, w))
    if len(hits) < (2 if syms else 1):
        return None
    pt, c, w = hits[0]
    where = ', '.join(f'{k} = {v}' for k, v in pt.items())
    return (f'the two take different values ({("at " + where + ": ") if where else ""}code {float(c):.6g}, cited equation {float(w):.6g}; '
            f'{len(hits)} of {points if syms else 1} sample points differ)')


def constant_ratio(a, b, points=6):
    """the number c when a = c · b at every one of `points` sample points of their symbols (to 40 digits), else None; only
    used to word a difference that is already established"""
    from ..algebra import ATOM_PARTS
    syms = set()

    def symbols(r):
        for x in r.atoms():
            if x in ATOM_PARTS:
                for y in ATOM_PARTS[x][1]:
                    if hasattr(y, 'num'):
                        symbols(y)
            else:
                syms.add(x)
    symbols(a), symbols(b)
    grid = ['0.7', '1.3', '2.9', '11.5', '170.25', '5300.5', '23000.75', '0.0031']
    got = []
    for k in range(points):
        pt = {s_: grid[(k + 3 * i) % len(grid)] for i, s_ in enumerate(sorted(syms))}
        x, y = numeric_value(a, pt), numeric_value(b, pt)
        if x is None or y is None or y == 0:
            return None
        got.append(x / y)
    if not got or any(abs(g - got[0]) > abs(got[0]) * type(got[0])('1e-40') for g in got):
        return None
    return got[0]


def _independent_logs(r):
    """every opaque term of the normal form is log / log10 of a bare symbol, all symbols distinct"""
    from ..algebra import ATOM_PARTS
    from ..conform import opaque_atoms
    seen = set()
    for a in opaque_atoms(r):
        h, args, kws = ATOM_PARTS.get(a, (None, [], ()))
        if h not in ('log', 'log10') or len(args) != 1 or kws or not hasattr(args[0], 'num'):
            return False
        x = args[0]
        if list(x.den.keys()) != [()] or len(x.num) != 1:
            return False
        (mono, c), = x.num.items()
        if c != x.den[()] or len(mono) != 1 or mono[0][1] != 1 or mono[0][0] in ATOM_PARTS or mono[0][0] in seen:
            return False
        seen.add(mono[0][0])
    return bool(seen)


def _where(fi, name):
    d = single_def_value(fi.node, name)
    if isinstance(d, ast.Call) and call_name(d) in ('np.where', 'numpy.where') and len(d.args) == 3:
        return d.args
    return None


class Undecidable(Exception):
    pass


def _cp(n):
    """deep copy of a subtree (the loader's parent links are not followed upwards)"""
    import copy
    p = getattr(n, '_parent', None)
    return copy.deepcopy(n, {id(p): None} if p is not None else {})


_MODULE_EXPR_MEMO: dict = {}     # id(module tree) -> (tree kept alive, {name: module-level arithmetic definition or None})


class RecordValue(list):
    """[(field, value expression or None)] of one construction of a plain record, in declaration order; `props`:
    {name: (name of self, returned expression)} of the class's read-only properties that are one `return`"""
    props: dict = {}
    methods: dict = {}      # name -> FunctionDef of the class's plain (undecorated) methods
    cls = None              # the expression that names the class in the construction


def record_classes(prog, m):
    """records(call) -> RecordValue when `call` constructs a *plain record* of the program as seen from module `m` - a
    NamedTuple, or a @dataclass, whose body is annotated fields (ClassVar left out; no field() factories), docstrings,
    and methods that do not take part in construction or attribute access (no __new__ / __init__ / __post_init__ /
    __getattr__ / __getattribute__ / __getitem__ / __iter__, none named like a field) - missing arguments filled from the
    declared defaults; None for every other call.  Reading field f of such a value is reading the argument bound to f,
    reading a property that is one `return <expression over self.fields>` is reading that expression: the record is a
    way of passing values, not a computation of its own."""
    memo = {}
    hooks = {'__new__', '__init__', '__post_init__', '__getattr__', '__getattribute__', '__getitem__', '__iter__', '__setattr__'}

    def storing_init(node):
        """[(field, default)] of a plain class whose __init__ does nothing but store every parameter in the attribute of
        the same name (`self.a = a`, `self.a, self.b = a, b`), and none of whose other methods stores into an attribute:
        a record written out by hand.  None for every other class."""
        inits = [s for s in node.body if isinstance(s, ast.FunctionDef) and s.name == '__init__']
        if len(inits) != 1 or inits[0].decorator_list:
            return None
        a = inits[0].args
        if a.vararg or a.kwarg or a.posonlyargs or a.kwonlyargs or len(a.args) < 2:
            return None
        me_, names = a.args[0].arg, [p.arg for p in a.args[1:]]
        stored = []
        for st in inits[0].body:
            if isinstance(st, ast.Expr) and isinstance(st.value, ast.Constant):
                continue
            if not isinstance(st, (ast.Assign, ast.AnnAssign)) or getattr(st, 'value', None) is None:
                return None
            tg = st.targets if isinstance(st, ast.Assign) else [st.target]
            if len(tg) != 1:
                return None
            pairs = list(zip(tg[0].elts, st.value.elts)) if isinstance(tg[0], ast.Tuple) and isinstance(st.value, ast.Tuple) \
                and len(tg[0].elts) == len(st.value.elts) else [(tg[0], st.value)]
            for t, v in pairs:
                if not (isinstance(t, ast.Attribute) and isinstance(t.value, ast.Name) and t.value.id == me_
                        and isinstance(v, ast.Name) and v.id == t.attr and v.id in names):
                    return None
                stored.append(t.attr)
        if sorted(stored) != sorted(names):
            return None
        for s in node.body:
            if isinstance(s, ast.FunctionDef) and s is not inits[0]:
                for x in ast.walk(s):
                    if isinstance(x, ast.Attribute) and not isinstance(x.ctx, ast.Load):
                        return None
                    if isinstance(x, ast.Call) and call_name(x).split('.')[-1] in ('setattr', 'delattr', '__setattr__'):
                        return None
        defaults = [None] * (len(names) - len(a.defaults)) + list(a.defaults)
        return list(zip(names, defaults))

    def fields_of(ci):
        if id(ci) in memo:
            return memo[id(ci)]
        memo[id(ci)] = None
        node = ci.node
        decs = [norm(d.func if isinstance(d, ast.Call) else d).split('.')[-1] for d in node.decorator_list]
        bases = [b.split('.')[-1] for b in ci.base_exprs]
        is_nt = bases == ['NamedTuple'] and not decs
        is_dc = decs == ['dataclass'] and not bases
        init_fields = None
        if not (is_nt or is_dc) and not decs and not bases and not node.keywords:
            init_fields = storing_init(node)
        if not (is_nt or is_dc or init_fields) or node.keywords:
            return None
        out, props, methods, plain = list(init_fields or []), {}, set(), {}
        for s in node.body:
            if init_fields and (isinstance(s, ast.FunctionDef) and s.name == '__init__'
                                or isinstance(s, ast.AnnAssign) and s.value is None):
                continue
            if init_fields and isinstance(s, ast.AnnAssign):
                return None           # a class attribute next to the instance attributes
            if isinstance(s, ast.AnnAssign) and isinstance(s.target, ast.Name):
                if 'ClassVar' in norm(s.annotation):
                    continue
                if isinstance(s.value, ast.Call) and call_name(s.value).split('.')[-1] == 'field':
                    return None
                out.append((s.target.id, s.value))
            elif isinstance(s, ast.Expr) and isinstance(s.value, ast.Constant):
                continue
            elif isinstance(s, ast.Pass):
                continue
            elif isinstance(s, ast.FunctionDef) and s.name not in hooks:
                methods.add(s.name)
                body = [b for b in s.body if not (isinstance(b, ast.Expr) and isinstance(b.value, ast.Constant))]
                if [norm(d) for d in s.decorator_list] == ['property'] and len(body) == 1 and isinstance(body[0], ast.Return) \
                        and body[0].value is not None and len(s.args.args) == 1 and not s.args.kwonlyargs:
                    props[s.name] = (s.args.args[0].arg, body[0].value)
                elif not s.decorator_list and s.args.args and not s.args.posonlyargs:
                    plain[s.name] = s
            else:
                return None           # class attributes, hooks into construction / attribute access: more than a record
        if not out or methods & {f for f, _ in out}:
            return None
        memo[id(ci)] = (out, props, plain, is_dc)
        return memo[id(ci)]

    def declared(call):
        """([(field, default or None)], properties) of the record class `call` constructs, or None"""
        if not isinstance(call, ast.Call) or not isinstance(call.func, (ast.Name, ast.Attribute)):
            return None
        ci = prog.resolve_name(m, call.func.id) if isinstance(call.func, ast.Name) else prog.resolve_class_expr(m, call.func)
        if ci is None or not hasattr(ci, 'annotated_fields'):
            return None
        return fields_of(ci)

    def replaced(call):
        """`dataclasses.replace(R, f=v, ..)` / `R._replace(f=v, ..)` with R the construction of a plain record (dataclass /
        NamedTuple respectively): the construction of that record with the named fields overridden and *every other field
        as R has it*; None for anything else"""
        if not isinstance(call, ast.Call) or any(k.arg is None for k in call.keywords):
            return None
        cn = call_name(call)
        if isinstance(call.func, ast.Name) and m.imports.get(cn) == 'dataclasses.replace' and cn not in m.functions \
                or isinstance(call.func, ast.Attribute) and cn.count('.') == 1 and cn.endswith('.replace') \
                and m.imports.get(cn.split('.')[0]) == 'dataclasses':
            if len(call.args) != 1 or isinstance(call.args[0], ast.Starred):
                return None
            base, want_dc = call.args[0], True
        elif isinstance(call.func, ast.Attribute) and call.func.attr == '_replace' and not call.args:
            base, want_dc = call.func.value, False
        else:
            return None
        fp = declared(base)
        rv = records(base) if fp is not None and fp[3] == want_dc else None
        if rv is None or any(e is None for _, e in rv):
            return None
        vals = dict(rv)
        for k in call.keywords:
            if k.arg not in vals:
                return None
            vals[k.arg] = k.value
        return ast.fix_missing_locations(ast.copy_location(
            ast.Call(_cp(base.func), [], [ast.keyword(f, _cp(vals[f])) for f, _ in rv]), call))

    def records(call, element=None):
        """element(sequence expression, i) -> its i-th element or None: lets `Rec(*seq)` be read when seq is decided"""
        fp = declared(call)
        if fp is None:
            return None
        fs, props, plain, _ = fp
        args = list(call.args)
        if len(args) == 1 and isinstance(args[0], ast.Starred) and not call.keywords and element is not None:
            args = [element(args[0].value, i) for i in range(len(fs))]
            if any(a_ is None for a_ in args) or element(call.args[0].value, len(fs)) is not None:
                return None
        if any(isinstance(a_, ast.Starred) for a_ in args) or any(k.arg is None for k in call.keywords) or len(args) > len(fs):
            return None
        got = dict(zip([f for f, _ in fs], args))
        for k in call.keywords:
            if k.arg in got or k.arg not in [f for f, _ in fs]:
                return None
            got[k.arg] = k.value
        rv = RecordValue((f, got.get(f, d)) for f, d in fs)
        rv.props = props
        rv.methods = plain
        rv.cls = call.func
        return rv
    records.declared = declared
    records.replaced = replaced
    return records


class ValueCase:
    """A function as it runs when a discriminating variable `var` (a parameter that selects one of several
    alternatives: an engine type, an optional argument that is None or given) has the value `val`; with `var=None`
    simply the function's values followed through its definitions.

    * every branch whose condition is a decidable predicate of `var` — an `if`/`elif`/`while` test, a `case` of a
      `match` on it, a conditional expression, `a or b` / `a and b` used as a value, a look-up in a dict literal keyed
      by it — is taken the way that value takes it, whatever the spelling of the dispatch; conditions that do not
      depend on `var` keep both edges; a condition that depends on `var` and cannot be evaluated raises Undecidable
      (never guessed);
    * `defs(target)` are the statements storing to `target` that can execute for that value;
    * `resolve(expr, at)` is `expr` as evaluated at CFG node `at`: locals replaced by their *unique reaching plain
      definition* on the pruned graph (so a name bound once per branch resolves to the branch this value takes;
      `a, b = x, y` and `a, b = helper(...)` resolve component-wise), decided conditional expressions and dict
      dispatches replaced by the selected alternative, and — when an `opener` is given — calls of resolved helpers
      with a single `return` replaced by the returned expression over the arguments.  Locals that have several
      reaching definitions stay names and are listed in `unresolved`.
    * `origin(expr, at)` identifies the binding a value comes from (through plain copies and scalar conversions), so
      that two expressions can be recognised as the *same value* without comparing their text.
    """

    OTHER = '\x00any-other-value'

    def __init__(self, fn, var=None, val=None, module_tree=None, opener=None, _depth=0, numbers=None, components=False,
                 records=None, enums=None, fold_tests=False):
        from ..cfg import CFG
        self.fn, self.var, self.val = fn, var, val
        # fold_tests: a branch condition that does not depend on `var` and is arithmetic over the module's numeric
        # constants alone (`numbers`) is decided too - the body of a method run for one known record (`self.lapse_rate ==
        # 0.0` with the record's own lapse rate)
        self.fold_tests = fold_tests
        # enums: name of an enumeration -> its members in declaration order; `tuple(f(m) for m in Enum)[i]` is
        # f(Enum.<i-th member>)
        self.enums = dict(enums or {})
        # records: see record_classes(); `Rec(a, b).f`, `Rec(a, b)[i]` and `x, y = Rec(a, b)` read the argument
        self.records = records
        # components: `a, b = f(x)` resolves a to `f(x)[0]` (the value, free of the local's name) instead of staying `a`
        self.components = components
        # numbers: name -> value of the module's numeric constants; with a numeric `val` a condition on `var` that is
        # arithmetic over these (a threshold computed from constants, np.any(x > c)) is decided by evaluating it at val
        self.numbers = {k: float(v) for k, v in (numbers or {}).items()}
        self.module_tree = module_tree
        self.opener = opener
        self._depth = _depth
        self._sub = {}
        self.g = CFG(fn)
        self.unresolved = set()
        self._decided = {}
        a = fn.args
        self.params = {p.arg for p in a.posonlyargs + a.args + a.kwonlyargs}
        self.params |= {x.arg for x in (a.vararg, a.kwarg) if x is not None}
        self.bound = {n.id: self._bound(n) for n in self.g.nodes}
        self.locals = {nm for b in self.bound.values() for nm in b}
        # phase 1: reaching definitions on the whole graph (used to read the branch conditions)
        self.ins = self._reaching(None)
        self.live = set(self.ins)
        # phase 2: prune the decided branches, recompute what reaches what
        if var is not None or fold_tests:
            for n in self.g.nodes:
                if n.id not in self.ins:
                    continue
                if n.kind == 'test':
                    self._decided[n.id] = self._decide(n.stmt.test, n.id)
                elif n.kind == 'case':
                    self._decided[n.id] = self._decide_case(n)
            self.live = self.g._reach(self._edge_ok)
            self.ins = self._reaching(self._edge_ok)

    # -- graph ------------------------------------------------------------
    def _edge_ok(self, a, b, lab):
        d = self._decided.get(a)
        if d is None or lab not in ('t', 'f'):
            return True
        return (lab == 't') == d

    def _bound(self, n):
        s = n.stmt
        out = []
        if s is None:
            return out
        heads_ = []
        if n.kind == 'stmt':
            if isinstance(s, ast.Assign):
                for t in s.targets:
                    out += [x.id for x in ast.walk(t) if isinstance(x, ast.Name) and isinstance(x.ctx, ast.Store)]
            elif isinstance(s, (ast.AnnAssign, ast.AugAssign)) and isinstance(s.target, ast.Name):
                if getattr(s, 'value', None) is not None:
                    out.append(s.target.id)
            elif isinstance(s, (ast.Import, ast.ImportFrom)):
                out += [(al.asname or al.name).split('.')[0] for al in s.names]
            elif isinstance(s, (ast.FunctionDef, ast.AsyncFunctionDef, ast.ClassDef)):
                out.append(s.name)
            elif isinstance(s, ast.Delete):
                out += [t.id for t in s.targets if isinstance(t, ast.Name)]
            if not isinstance(s, (ast.FunctionDef, ast.AsyncFunctionDef, ast.ClassDef)):
                heads_ = [s]
        elif n.kind == 'iter':
            out += [x.id for x in ast.walk(s.target) if isinstance(x, ast.Name)]
            heads_ = [s.iter]
        elif n.kind == 'with':
            for it in s.items:
                if it.optional_vars is not None:
                    out += [x.id for x in ast.walk(it.optional_vars) if isinstance(x, ast.Name)]
            heads_ = [it.context_expr for it in s.items]
        elif n.kind == 'case':
            for x in ast.walk(s.pattern):
                nm = getattr(x, 'name', None) or getattr(x, 'rest', None)
                if isinstance(nm, str):
                    out.append(nm)
            heads_ = [s.guard] if s.guard is not None else []
        elif n.kind == 'except':
            if s.name:
                out.append(s.name)
        elif n.kind == 'test':
            heads_ = [s.test]
        elif n.kind == 'match':
            heads_ = [s.subject]
        for h in heads_:
            out += [x.target.id for x in walk_no_nested(h) if isinstance(x, ast.NamedExpr)]
        return out

    def _reaching(self, edge_ok):
        g = self.g
        bound = self.bound

        def transfer(n, st):
            b = bound[n.id]
            if not b:
                return st
            return frozenset(x for x in st if x[0] not in b) | frozenset((nm, n.id) for nm in b)

        init = frozenset((p, g.entry) for p in self.params)
        ins, _ = g.forward(init, transfer, lambda a, b: a | b, edge_ok=edge_ok)
        return ins

    def reaching(self, name, at):
        return sorted(d for nm, d in self.ins.get(at, ()) if nm == name)

    def node_of(self, stmt):
        """live CFG node of a statement (or of the statement an expression belongs to)"""
        from ..astutil import stmt_of
        ids = [i for i in self.g.nodes_of(stmt) if i in self.live]
        if not ids and not isinstance(stmt, ast.stmt):
            s = stmt_of(stmt)
            ids = [i for i in self.g.nodes_of(s) if i in self.live] if s is not None else []
        return ids[0] if ids else None

    def defs(self, target):
        """statements `target = ...` (by the target's normalised text) that can run for this value"""
        out = []
        for t, st, how in stores_to(self.fn):
            if norm(t) == target and how in ('assign', 'ann') and self.node_of(st) is not None and st not in out:
                out.append(st)
        return out

    # -- conditions -------------------------------------------------------
    def _depends(self, e):
        return self.var is not None and any(isinstance(x, ast.Name) and x.id == self.var for x in ast.walk(e))

    def _decide(self, test, at, resolved=False):
        """True / False when the test is a predicate of `var` that this value decides, None when it does not
        depend on `var`; Undecidable otherwise."""
        from ..astutil import eval_pred
        if self.var is None and not self.fold_tests:
            return None
        r = test if resolved else self.resolve(test, at, quiet=True)
        if isinstance(r, ast.Compare) and all(isinstance(o, (ast.In, ast.NotIn)) for o in r.ops):
            # membership in a dict literal is membership in its keys
            r = ast.Compare(r.left, r.ops, [ast.Tuple(list(c.keys), ast.Load()) if isinstance(c, ast.Dict) and None not in c.keys
                                            else c for c in r.comparators])
        if not self._depends(r):
            if self.fold_tests:
                try:
                    return bool(self.num(r))          # constants only: `var` does not occur
                except ArithmeticError:
                    pass
            return None
        try:
            return bool(eval_pred(r, {self.var: self.val}))
        except (ValueError, TypeError):
            pass
        if self.numbers and isinstance(self.val, (int, float)):
            try:
                return bool(self.num(r))
            except ArithmeticError:
                pass
        # `a or b` / `a and b` with only some operands depending on var: decided only if those operands decide it
        if isinstance(r, ast.BoolOp):
            vals = [self._decide(v, at, True) for v in r.values]
            short = isinstance(r.op, ast.Or)
            if any(v is short for v in vals):
                return short
            if all(v is not None for v in vals):
                return not short
            return None
        if isinstance(r, ast.UnaryOp) and isinstance(r.op, ast.Not):
            v = self._decide(r.operand, at, True)
            return None if v is None else not v
        if self._form_only(r):
            return None
        return self._undecidable(test)

    FORM_ATTRS = ('ndim', 'shape', 'size', 'dtype')
    FORM_CALLS = ('ndim', 'shape', 'isscalar', 'isinstance', 'len', 'iterable')

    def _form_only(self, r):
        """the test reads `var` only for the form it is passed in (scalar or array, how many elements, which dtype), never
        for its value: the value does not decide it, both edges stay"""
        ok = set()
        for x in ast.walk(r):
            if isinstance(x, ast.Attribute) and x.attr in self.FORM_ATTRS or \
                    isinstance(x, ast.Call) and call_name(x).split('.')[-1] in self.FORM_CALLS:
                ok |= {id(y) for y in ast.walk(x)}
        return all(id(x) in ok for x in ast.walk(r) if isinstance(x, ast.Name) and x.id == self.var)

    def _undecidable(self, test):
        raise Undecidable(f'`{norm(test)[:80]}` depends on {self.var} in a way that is not a comparison with literals')

    def _pattern(self, p, subj):
        """does literal pattern p match the (known) subject value?"""
        if isinstance(p, ast.MatchValue) and isinstance(p.value, ast.Constant):
            return subj == p.value.value
        if isinstance(p, ast.MatchSingleton):
            return subj is p.value
        if isinstance(p, ast.MatchOr):
            return any(self._pattern(q, subj) for q in p.patterns)
        if isinstance(p, ast.MatchAs):
            return True if p.pattern is None else self._pattern(p.pattern, subj)
        raise Undecidable(f'`case {norm(p)[:60]}` is not a literal pattern')

    def _decide_case(self, n):
        from ..astutil import eval_pred
        case = n.stmt
        m = parent_match(self.fn, case)
        subj = self.resolve(m.subject, n.id, quiet=True)
        if not self._depends(subj):
            return None
        try:
            sv = eval_pred(subj, {self.var: self.val})
        except (ValueError, TypeError):
            self._undecidable(m.subject)
        hit = self._pattern(case.pattern, sv)
        if hit and case.guard is not None:
            return self._decide(case.guard, n.id)
        return hit

    # -- values -----------------------------------------------------------
    def binding(self, name, at):
        """(value, node, index) of the only definition of local `name` reaching `at`: `name = value` (index None) or
        the index-th target of `a, name, c = value`"""
        ds = self.reaching(name, at)
        if len(ds) != 1 or ds[0] == self.g.entry or self.g.nodes[ds[0]].kind != 'stmt':
            return None
        s = self.g.nodes[ds[0]].stmt
        if isinstance(s, ast.Assign) and len(s.targets) == 1:
            t = s.targets[0]
            if isinstance(t, ast.Name) and t.id == name:
                return s.value, ds[0], None
            if isinstance(t, (ast.Tuple, ast.List)) and not any(isinstance(e, ast.Starred) for e in t.elts):
                for i, e in enumerate(t.elts):
                    if isinstance(e, ast.Name) and e.id == name:
                        return s.value, ds[0], i
        if isinstance(s, ast.AnnAssign) and isinstance(s.target, ast.Name) and s.value is not None:
            return s.value, ds[0], None
        return None

    def _module_expr(self, name):
        """value of a module-level name bound exactly once to an arithmetic expression (numbers, names, + - * / **,
        elementary functions): reading the name is reading that expression"""
        if self.module_tree is None:
            return None
        memo = _MODULE_EXPR_MEMO.setdefault(id(self.module_tree), (self.module_tree, {}))[1]
        key = (name, self.records is not None)
        if key not in memo:
            memo[key] = None                      # a name defined through itself is not followed
            memo[key] = self._module_expr_uncached(name)
        return memo[key]

    def _module_expr_uncached(self, name):
        vals = [s.value for s in ast.walk(self.module_tree) if isinstance(s, (ast.Assign, ast.AnnAssign, ast.AugAssign))
                and getattr(s, 'value', None) is not None
                and any(isinstance(t, ast.Name) and t.id == name for t in ast.walk(s.targets[0] if isinstance(s, ast.Assign) and len(s.targets) == 1 else getattr(s, 'target', ast.Pass())))]
        top = [s.value for s in self.module_tree.body if isinstance(s, (ast.Assign, ast.AnnAssign)) and getattr(s, 'value', None) is not None
               and any(isinstance(t, ast.Name) and t.id == name for t in (s.targets if isinstance(s, ast.Assign) else [s.target]))]
        if len(vals) != 1 or len(top) != 1:
            return None
        ok = (ast.Constant, ast.Name, ast.Attribute, ast.BinOp, ast.UnaryOp, ast.Call, ast.operator, ast.unaryop, ast.expr_context)
        v = top[0]
        if self.records is not None and (self._record_valued(v) or isinstance(v, ast.Tuple) and v.elts and all(
                isinstance(x, ast.Name) or self._record_valued(x) for x in v.elts)):
            # a module-level instance of a plain record (or a tuple of them, or a value one of them computes), built once
            # and never stored into: reading the name is reading the construction (its arguments are followed like any
            # other expression)
            for x in ast.walk(self.module_tree):
                if isinstance(x, ast.Attribute) and isinstance(x.ctx, (ast.Store, ast.Del)) and isinstance(x.value, ast.Name) \
                        and x.value.id == name:
                    return None
                if isinstance(x, ast.Global) and name in x.names:
                    return None
            if any(isinstance(x, (ast.Lambda, ast.NamedExpr, ast.Await, ast.Yield, ast.YieldFrom)) for x in ast.walk(v)):
                return None
            return v
        if isinstance(v, ast.Constant) or not all(isinstance(x, ok) for x in ast.walk(v)):
            return None
        if any(isinstance(x, ast.Call) and call_name(x).split('.')[-1] not in ('exp', 'log', 'log10', 'sqrt', 'power', 'float')
               for x in ast.walk(v)):
            return None
        return v

    def _record_valued(self, v):
        """spelt like the construction of a plain record, a replace() of one, or a method call `<NAME>.<method>(..)` on a
        module-level name (which is followed only if the name turns out to hold a record with that method)"""
        if not isinstance(v, ast.Call):
            return False
        if self.records.declared(v) is not None or self._is_replace(v):
            return True
        return isinstance(v.func, ast.Attribute) and isinstance(v.func.value, ast.Name) and not v.func.value.id in ('np', 'numpy', 'math') \
            and self._module_expr(v.func.value.id) is not None and self._record_valued(self._module_expr(v.func.value.id))

    def _is_replace(self, call):
        """spelt like dataclasses.replace(x, f=v) / x._replace(f=v); whether x is a record is decided where it is read"""
        return isinstance(call, ast.Call) and (call_name(call).split('.')[-1] == 'replace' and len(call.args) == 1
                                               or isinstance(call.func, ast.Attribute) and call.func.attr == '_replace' and not call.args)

    def _module_dict(self, name):
        if self.module_tree is None:
            return None
        vals = [s.value for s in self.module_tree.body
                if isinstance(s, (ast.Assign, ast.AnnAssign)) and getattr(s, 'value', None) is not None
                and any(isinstance(t, ast.Name) and t.id == name
                        for t in (s.targets if isinstance(s, ast.Assign) else [s.target]))]
        return vals[0] if len(vals) == 1 and isinstance(vals[0], ast.Dict) else None

    def _open(self, call):
        """a call of a resolved helper that has exactly one `return <value>` and no other way out with a value,
        as the returned expression over the (already resolved) arguments; None when it cannot be opened"""
        if self._depth > 3:
            return None
        import copy
        callee, key, fold = self._record_method(call), None, True
        if callee is not None:
            # a method of a plain record called on a known construction of it: the method's body with that construction
            # for `self` (its fields read through, its tests on them decided), as a function of the remaining parameters
            callee, key = callee
        else:
            if self.opener is None:
                return None
            callee, fold = self.opener(call), self.fold_tests
        if callee is None or callee is self.fn or isinstance(callee, ast.AsyncFunctionDef):
            return None
        if any(isinstance(x, (ast.Yield, ast.YieldFrom)) for x in walk_no_nested(callee)):
            return None
        key = key or id(callee)
        if key not in self._sub:
            self._sub[key] = (callee, ValueCase(callee, None, None, self.module_tree, self.opener, self._depth + 1, self.numbers,
                                                components=self.components, records=self.records, enums=self.enums,
                                                fold_tests=fold))
        callee, sub = self._sub[key]
        rets = [r for r in walk_no_nested(callee) if isinstance(r, ast.Return) and sub.node_of(r) is not None]
        if len(rets) != 1 or rets[0].value is None:
            return None
        a = callee.args
        if a.vararg or a.kwarg or any(isinstance(x, ast.Starred) for x in call.args) or any(k.arg is None for k in call.keywords):
            return None
        names = [p.arg for p in a.posonlyargs + a.args]
        bind = {}
        is_method = isinstance(call.func, ast.Attribute) and names and names[0] in ('self', 'cls')
        if is_method:
            bind[names[0]] = call.func.value
            names = names[1:]
        if len(call.args) > len(names):
            return None
        for p, v in zip(names, call.args):
            bind[p] = v
        allowed = set(names) | {p.arg for p in a.kwonlyargs}
        for k in call.keywords:
            if k.arg not in allowed or k.arg in bind:
                return None
            bind[k.arg] = k.value
        pos = a.posonlyargs + a.args
        for p, d in zip(pos[len(pos) - len(a.defaults):], a.defaults):
            bind.setdefault(p.arg, d)
        for p, d in zip(a.kwonlyargs, a.kw_defaults):
            if d is not None:
                bind.setdefault(p.arg, d)
        at = sub.node_of(rets[0])
        if at is None:
            return None
        r = sub.resolve(rets[0].value, at, quiet=True)

        class B(ast.NodeTransformer):
            def visit_Name(self, n):
                if n.id in bind:
                    return _cp(bind[n.id])
                if n.id in sub.params:
                    raise Undecidable(f'parameter {n.id} of {callee.name} is not bound by `{norm(call)[:60]}`')
                if n.id in sub.locals:
                    return ast.copy_location(ast.Name(f'{callee.name}:{n.id}', ast.Load()), n)
                return n

            def visit_Lambda(self, n):
                return n
        return B().visit(r)

    def _record_method(self, call):
        """(function, key) when `call` is `<construction of a plain record>.<method>(..)`: a copy of the method without its
        first parameter, every read of it replaced by the construction; None otherwise"""
        if self.records is None or not isinstance(call.func, ast.Attribute) or not isinstance(call.func.value, ast.Call):
            return None
        recv = call.func.value
        rv = self.records(recv, self._element)
        meth = rv.methods.get(call.func.attr) if rv is not None else None
        if meth is None or any(e is None for _, e in rv):
            return None
        key = (id(meth), norm(recv))
        if key in self._sub:
            return self._sub[key][0], key
        me_ = meth.args.args[0].arg
        others = [p.arg for p in meth.args.args[1:] + meth.args.kwonlyargs] + [x.arg for x in (meth.args.vararg, meth.args.kwarg) if x]
        if me_ in others:
            return None
        for x in ast.walk(meth):
            if isinstance(x, ast.Name) and x.id == me_ and not isinstance(x.ctx, ast.Load):
                return None
            if isinstance(x, (ast.Lambda, ast.FunctionDef, ast.AsyncFunctionDef, ast.ClassDef, ast.Global, ast.Nonlocal)) and x is not meth:
                return None
            if isinstance(x, ast.Attribute) and not isinstance(x.ctx, ast.Load) and isinstance(x.value, ast.Name) and x.value.id == me_:
                return None               # the method changes the record
        # names of the construction must mean in the method what they mean where the construction is read: none of
        # them may be a parameter or a local of the method
        own = set(others) | {x.id for x in ast.walk(meth) if isinstance(x, ast.Name) and isinstance(x.ctx, ast.Store)}
        if own & {x.id for x in ast.walk(recv) if isinstance(x, ast.Name)}:
            return None
        fn = _cp(meth)
        fn.args.args = fn.args.args[1:]

        class S(ast.NodeTransformer):
            def visit_Name(self, x):
                return ast.copy_location(_cp(recv), x) if x.id == me_ else x
        fn.body = [S().visit(b) for b in fn.body]
        ast.fix_missing_locations(fn)
        return fn, key

    def _comp_item(self, v, i):
        """element i of `(f(x) for x in <display or enumeration>)`, also wrapped in tuple() / list() / np.array(): f(<i-th item>);
        None when `v` is not such a comprehension or the position does not exist"""
        while isinstance(v, ast.Call) and call_name(v).split('.')[-1] in ('tuple', 'list', 'array', 'asarray') and len(v.args) == 1 \
                and not v.keywords and isinstance(v.args[0], (ast.GeneratorExp, ast.ListComp, ast.Call)):
            v = v.args[0]
        if not isinstance(v, (ast.GeneratorExp, ast.ListComp)) or len(v.generators) != 1:
            return None
        g = v.generators[0]
        if g.ifs or g.is_async or not isinstance(g.target, ast.Name):
            return None
        it = g.iter
        if isinstance(it, ast.Call) and call_name(it) in ('list', 'tuple', 'iter') and len(it.args) == 1 and not it.keywords:
            it = it.args[0]
        backwards = False
        while isinstance(it, ast.Call) and call_name(it) in ('reversed', 'list', 'tuple', 'iter') and len(it.args) == 1 and not it.keywords:
            backwards ^= call_name(it) == 'reversed'
            it = it.args[0]
        if isinstance(it, (ast.Tuple, ast.List)) and not any(isinstance(x, ast.Starred) for x in it.elts):
            items = list(it.elts)
        elif isinstance(it, ast.Name) and it.id in self.enums and it.id not in self.locals and it.id not in self.params:
            items = [ast.Attribute(ast.Name(it.id, ast.Load()), mem, ast.Load()) for mem in self.enums[it.id]]
        else:
            return None
        if backwards:
            items.reverse()
        if not -len(items) <= i < len(items):
            return None
        tgt, item = g.target.id, items[i]

        class S(ast.NodeTransformer):
            def visit_Name(self, x):
                return _cp(item) if x.id == tgt and isinstance(x.ctx, ast.Load) else x
        return ast.fix_missing_locations(ast.copy_location(S().visit(_cp(v.elt)), v))

    ELEMENTWISE = ('log10', 'log', 'log2', 'exp', 'sqrt', 'abs', 'absolute', 'asarray', 'array', 'asanyarray', 'float64')

    def _element(self, v, i, depth=0):
        """element i of a sequence value: `(a, b, c)[1]` is b; an element-wise numpy function of a sequence is the function
        of the element (`np.log10(X)[i]` is `np.log10(X[i])`); `P.as_array()[i]` is P at the i-th member of ThrustMode (the
        only as_array of the repository is ThrustModeValues', in enumeration order by C12-R6).  None when not decided."""
        if depth > 6:
            return None
        if isinstance(v, (ast.Tuple, ast.List)):
            if any(isinstance(x, ast.Starred) for x in v.elts) or not -len(v.elts) <= i < len(v.elts):
                return None
            return v.elts[i]
        ci = self._comp_item(v, i)
        if ci is not None:
            return ci
        if isinstance(v, ast.Call) and not v.keywords and len(v.args) == 1 and call_name(v).split('.')[0] in ('np', 'numpy') \
                and call_name(v).split('.')[-1] in self.ELEMENTWISE and len(call_name(v).split('.')) == 2:
            inner = self._element(v.args[0], i, depth + 1)
            return None if inner is None else ast.copy_location(ast.Call(_cp(v.func), [inner], []), v)
        modes = self.enums.get('ThrustMode')
        if isinstance(v, ast.Call) and isinstance(v.func, ast.Attribute) and v.func.attr == 'as_array' and not v.args and not v.keywords \
                and modes and -len(modes) <= i < len(modes):
            return ast.fix_missing_locations(ast.copy_location(
                ast.Subscript(_cp(v.func.value), ast.Attribute(ast.Name('ThrustMode', ast.Load()), modes[i], ast.Load()), ast.Load()), v))
        return None

    def _field(self, v, key):
        """field `key` (name or position) of the value `v` when `v` is the construction of a plain record: the argument"""
        fs = self.records(v, self._element) if self.records is not None else None
        if fs is None:
            return None
        if isinstance(key, int):
            return fs[key][1] if -len(fs) <= key < len(fs) else None
        for f, e in fs:
            if f == key:
                return e
        if key in fs.props and all(e is not None for _, e in fs):
            # a property that is one expression over the fields: that expression over the arguments
            me_, body = fs.props[key]
            vals = dict(fs)

            class P(ast.NodeTransformer):
                def visit_Attribute(self, x):
                    if isinstance(x.value, ast.Name) and x.value.id == me_ and x.attr in vals and isinstance(x.ctx, ast.Load):
                        return _cp(vals[x.attr])
                    return self.generic_visit(x)

                def visit_Lambda(self, x):
                    return x
            out = P().visit(_cp(body))
            if not any(isinstance(x, ast.Name) and x.id == me_ for x in ast.walk(out)):
                return out
        return None

    def resolve(self, e, at, stop=(), quiet=False, depth=0):
        import copy
        from ..astutil import eval_pred
        if depth > 12:
            return _cp(e)
        me = self

        def pick(table, key, default, whole):
            """table[key] / table.get(key, default) with a dict literal and a key this value decides"""
            if not isinstance(table, ast.Dict) or not me._depends(key) or None in table.keys:
                return None
            try:
                kv = eval_pred(key, {me.var: me.val})
                keys = [eval_pred(k, {}) for k in table.keys]
            except (ValueError, TypeError):
                raise Undecidable(f'`{norm(whole)[:80]}`: look-up by {me.var} with keys that are not literals')
            for k, v in zip(keys, table.values):
                if k == kv:
                    return v
            if default is not None:
                return default
            raise Undecidable(f'`{norm(whole)[:80]}` has no entry for {me.var} = {me.val!r}')

        class R(ast.NodeTransformer):
            def visit_Name(self, n):
                if not isinstance(n.ctx, ast.Load) or n.id in stop:
                    return n
                ds = me.reaching(n.id, at)
                if ds == [me.g.entry] or (not ds and n.id in me.params):
                    return n                      # the parameter itself
                d = me.binding(n.id, at)
                if d is not None:
                    v = me.resolve(d[0], d[1], stop, quiet, depth + 1)
                    if d[2] is None:
                        return v
                    if isinstance(v, (ast.Tuple, ast.List)) and len(v.elts) > d[2] and \
                            not any(isinstance(x, ast.Starred) for x in v.elts):
                        return v.elts[d[2]]
                    rf = me._field(v, d[2])
                    if rf is not None:
                        return rf
                    # a, b, c = (f(x) for x in (p, q, r)): the i-th component is f(<i-th element>)
                    ci = me._element(v, d[2])
                    if ci is not None:
                        return ci
                    if me.components and isinstance(v, ast.Call):
                        return ast.copy_location(ast.Subscript(v, ast.Constant(d[2]), ast.Load()), n)
                    return n                      # one component of one value: a symbol
                if ds:
                    # one binding that is not an assignment (loop / with target) is one value, kept as a symbol;
                    # several reaching bindings, or an in-place update, are not one expression
                    multi = len(ds) > 1 or isinstance(me.g.nodes[ds[0]].stmt, ast.AugAssign)
                    if multi and not quiet:
                        me.unresolved.add(n.id)
                    if n.id == me.var or n.id in me.params:
                        return ast.copy_location(ast.Name(n.id + ':rebound', ast.Load()), n)
                    return n
                md = me._module_dict(n.id)
                if md is not None:
                    return _cp(md)
                if not ds and n.id not in me.params and n.id not in me.locals and depth < 10 and n.id not in me.numbers:
                    mv = me._module_expr(n.id)
                    if mv is not None:
                        return me.resolve(mv, at, stop, quiet, depth + 1)
                return n

            def visit_IfExp(self, n):
                d = me._decide(n.test, at)
                if d is None:
                    return self.generic_visit(n)
                return self.visit(n.body if d else n.orelse)

            def visit_BoolOp(self, n):
                # `a or b` as a value: the first operand that this value makes truthy (falsy for `and`)
                short = isinstance(n.op, ast.Or)
                rest = list(n.values)
                while len(rest) > 1:
                    d = me._decide(rest[0], at)
                    if d is None:
                        break
                    if d is short:
                        return self.visit(rest[0])
                    rest.pop(0)
                if len(rest) == 1:
                    return self.visit(rest[0])
                return ast.copy_location(ast.BoolOp(n.op, [self.visit(v) for v in rest]), n)

            def visit_Subscript(self, n):
                n = self.generic_visit(n)
                v = pick(n.value, n.slice, None, n)
                if v is None and isinstance(n.ctx, ast.Load) and isinstance(n.slice, ast.Constant) and isinstance(n.slice.value, int) \
                        and not isinstance(n.slice.value, bool):
                    v = me._field(n.value, n.slice.value)
                    if v is None:
                        v = me._comp_item(n.value, n.slice.value)
                    if v is None:
                        v = me._element(n.value, n.slice.value)
                return v if v is not None else n

            def visit_Attribute(self, n):
                n = self.generic_visit(n)
                v = me._field(n.value, n.attr) if isinstance(n.ctx, ast.Load) else None
                return v if v is not None else n

            def visit_Call(self, n):
                n = self.generic_visit(n)
                if isinstance(n.func, ast.Attribute) and n.func.attr == 'get' and 1 <= len(n.args) <= 2 and not n.keywords:
                    v = pick(n.func.value, n.args[0], n.args[1] if len(n.args) == 2 else ast.Constant(None), n)
                    if v is not None:
                        return v
                if me.records is not None and me._is_replace(n):
                    rc_ = me.records.replaced(n)
                    if rc_ is not None:
                        return rc_
                o = me._open(n)
                return o if o is not None else n

            def visit_Lambda(self, n):
                return n

        return R().visit(_cp(e))

    # -- numbers ------------------------------------------------------------
    _MATH = {'exp': 'exp', 'log': 'log', 'log10': 'log10', 'sqrt': 'sqrt', 'abs': 'fabs', 'absolute': 'fabs', 'fabs': 'fabs'}

    def num(self, e):
        """value of an arithmetic expression over the module's constants and `var` = `val`; ArithmeticError when
        it is anything else.  Only used to see which side of a threshold a representative point lies on."""
        import math
        if isinstance(e, ast.Constant) and isinstance(e.value, (int, float)):
            return e.value
        if isinstance(e, (ast.Name, ast.Attribute)):
            t = norm(e)
            if t == self.var and isinstance(self.val, (int, float)):
                return self.val
            if t in self.numbers:
                return self.numbers[t]
            raise ArithmeticError(t)
        if isinstance(e, ast.UnaryOp):
            v = self.num(e.operand)
            return -v if isinstance(e.op, ast.USub) else (not v) if isinstance(e.op, ast.Not) else v
        if isinstance(e, ast.BinOp):
            a, b = self.num(e.left), self.num(e.right)
            try:
                if isinstance(e.op, ast.Add):
                    return a + b
                if isinstance(e.op, ast.Sub):
                    return a - b
                if isinstance(e.op, ast.Mult):
                    return a * b
                if isinstance(e.op, ast.Div):
                    return a / b
                if isinstance(e.op, ast.Pow):
                    return float(a) ** b
            except (OverflowError, ValueError, ZeroDivisionError) as ex:
                raise ArithmeticError(str(ex))
            raise ArithmeticError('operator')
        if isinstance(e, ast.BoolOp):
            vals = [self.num(v) for v in e.values]
            return all(vals) if isinstance(e.op, ast.And) else any(vals)
        if isinstance(e, ast.Compare) and len(e.ops) == 1:
            a, b = self.num(e.left), self.num(e.comparators[0])
            f = {ast.Lt: a < b, ast.LtE: a <= b, ast.Gt: a > b, ast.GtE: a >= b, ast.Eq: a == b, ast.NotEq: a != b}.get(type(e.ops[0]))
            if f is None:
                raise ArithmeticError('comparison')
            return f
        if isinstance(e, ast.Call) and not e.keywords:
            f = call_name(e).split('.')[-1]
            if isinstance(e.func, ast.Attribute) and f in ('any', 'all', 'item') and not e.args:
                return self.num(e.func.value)
            args = [self.num(a) for a in e.args]
            if f in self.CONVERSIONS + ('any', 'all', 'bool') and len(args) == 1:
                return args[0]
            if f in self._MATH and len(args) == 1:
                try:
                    return getattr(math, self._MATH[f])(args[0])
                except (ValueError, OverflowError) as ex:
                    raise ArithmeticError(str(ex))
            if f in ('minimum', 'min', 'fmin') and len(args) >= 2:
                return min(args)
            if f in ('maximum', 'max', 'fmax') and len(args) >= 2:
                return max(args)
            if f == 'power' and len(args) == 2:
                return self.num(ast.BinOp(e.args[0], ast.Pow(), e.args[1]))
        raise ArithmeticError(type(e).__name__)

    def region_value(self, e, at, stop=()):
        """`e` at node `at` as one expression for this value of `var`: resolved (see `resolve`), then every element-wise
        selection whose condition this value decides replaced by the selected operand - np.where(c, a, b), np.minimum /
        np.maximum / min / max of two operands, np.clip - and array conversions dropped.  What remains is the formula
        the function computes in the region the value lies in."""
        me = self

        class D(ast.NodeTransformer):
            def visit_Call(self, n):
                n = self.generic_visit(n)
                f = call_name(n).split('.')[-1]
                if f in me.CONVERSIONS and len(n.args) == 1 and not [k for k in n.keywords if k.arg != 'dtype']:
                    return n.args[0]
                try:
                    if f == 'where' and len(n.args) == 3 and not n.keywords:
                        return n.args[1] if me.num(n.args[0]) else n.args[2]
                    if f in ('minimum', 'maximum', 'min', 'max', 'fmin', 'fmax') and len(n.args) == 2 and not n.keywords:
                        a, b = me.num(n.args[0]), me.num(n.args[1])
                        if a != b:
                            return n.args[0] if (a < b) == ('min' in f) else n.args[1]
                        if not me._depends(n.args[0]) and not me._depends(n.args[1]):
                            return n.args[0]          # two spellings of one constant
                except ArithmeticError:
                    pass
                return n

            def visit_IfExp(self, n):
                n = self.generic_visit(n)
                try:
                    return n.body if me.num(n.test) else n.orelse
                except ArithmeticError:
                    return n

            def visit_Lambda(self, n):
                return n
        return D().visit(self.resolve(e, at, stop=stop))

    CONVERSIONS = ('float', 'float64', 'asarray', 'array', 'asanyarray', 'squeeze', 'atleast_1d')
    METHOD_CONVERSIONS = ('item', 'to_numpy', 'copy', 'squeeze', 'astype', 'compute', 'load')

    def origin(self, e, at, depth=0):
        """the binding a value comes from: (function name, CFG node, component) of the definition that computed it,
        ('param', name) for a parameter; None when `e` is not a (converted) local.  Plain copies `b = a`, scalar
        conversions (`float(a)`, `a.item()`, `a.values`, `np.asarray(a)`) do not make a new value."""
        while True:
            if isinstance(e, ast.Call) and isinstance(e.func, ast.Attribute) and e.func.attr in self.METHOD_CONVERSIONS \
                    and call_name(e).split('.')[0] not in ('np', 'numpy', 'math'):
                e = e.func.value
            elif isinstance(e, ast.Call) and call_name(e).split('.')[-1] in self.CONVERSIONS and len(e.args) >= 1:
                e = e.args[0]
            elif isinstance(e, ast.Attribute) and e.attr in ('values', 'data'):
                e = e.value
            else:
                break
        if not isinstance(e, ast.Name) or depth > 10:
            return None
        ds = self.reaching(e.id, at)
        if ds == [self.g.entry] or (not ds and e.id in self.params):
            return ('param', e.id)
        d = self.binding(e.id, at)
        if d is None:
            return (self.fn.name, ds[0], None) if len(ds) == 1 else None
        v, node, idx = d
        if idx is not None:
            if isinstance(v, (ast.Tuple, ast.List)) and len(v.elts) > idx:
                o = self.origin(v.elts[idx], node, depth + 1)
                return o if o is not None else (self.fn.name, node, idx)
            return (self.fn.name, node, idx)
        o = self.origin(v, node, depth + 1)
        return o if o is not None else (self.fn.name, node, None)


def parent_match(fn, case):
    for x in ast.walk(fn):
        if isinstance(x, ast.Match) and any(c is case for c in x.cases):
            return x
    raise Undecidable('case without match')


def unroll_literal_loops(fn):
    """Copy of `fn` in which a `for x in (a, b, ...)` over a tuple / list display (no `else`, no `break` / `continue`
    of that loop, `x` a plain name not stored in the body) is replaced by its iterations, and `any(f(x) for x in
    (a, b))` / `all(...)` over such a display by `f(a) or f(b)` / `f(a) and f(b)`.  Both are the definition of the
    construct, so every analysis of the copy is an analysis of the function."""
    import copy
    fn = _cp(fn)

    def subst(node, name, value):
        class S(ast.NodeTransformer):
            def visit_Name(self, n):
                if n.id == name and isinstance(n.ctx, ast.Load):
                    return _cp(value)
                return n
        return S().visit(_cp(node))

    def loop_exits(body):
        for st in body:
            for x in walk_no_nested(st):
                if isinstance(x, (ast.Break, ast.Continue)):
                    return True   # conservative: also those of inner loops
        return False

    class U(ast.NodeTransformer):
        def visit_For(self, n):
            self.generic_visit(n)
            if n.orelse or not isinstance(n.target, ast.Name) or not isinstance(n.iter, (ast.Tuple, ast.List)) \
                    or any(isinstance(e, ast.Starred) for e in n.iter.elts) or loop_exits(n.body) \
                    or not all(isinstance(e, (ast.Name, ast.Attribute, ast.Constant)) for e in n.iter.elts):
                return n
            x = n.target.id
            if any(isinstance(y, ast.Name) and y.id == x and isinstance(y.ctx, (ast.Store, ast.Del))
                   for st in n.body for y in ast.walk(st)):
                return n
            out = []
            for e in n.iter.elts:
                out += [subst(st, x, e) for st in n.body]
            return out or [ast.copy_location(ast.Pass(), n)]

        def visit_Call(self, n):
            self.generic_visit(n)
            if isinstance(n.func, ast.Name) and n.func.id in ('any', 'all') and len(n.args) == 1 and not n.keywords \
                    and isinstance(n.args[0], (ast.GeneratorExp, ast.ListComp)) and len(n.args[0].generators) == 1:
                g = n.args[0].generators[0]
                if isinstance(g.target, ast.Name) and not g.ifs and not g.is_async and isinstance(g.iter, (ast.Tuple, ast.List)) \
                        and g.iter.elts and all(isinstance(e, (ast.Name, ast.Attribute, ast.Constant)) for e in g.iter.elts):
                    vals = [subst(n.args[0].elt, g.target.id, e) for e in g.iter.elts]
                    if len(vals) == 1:
                        return ast.copy_location(ast.Call(ast.Name('bool', ast.Load()), vals, []), n)
                    return ast.copy_location(ast.BoolOp(ast.Or() if n.func.id == 'any' else ast.And(), vals), n)
            return n

    fn = U().visit(fn)
    ast.fix_missing_locations(fn)
    for x in ast.walk(fn):
        for ch in ast.iter_child_nodes(x):
            ch._parent = x
    return fn


def rule_isa(ctx):
    prog = ctx.prog
    m = prog.module(ATM)
    cm = prog.module('constants.py')
    consts = module_constants(cm)
    consts.update(module_constants(m, consts))
    rc = _refconsts()
    # module constants against the standard
    for k, v in rc.items():
        if k in consts:
            ok = consts[k] == v
            ctx.ob('C12-R1', (cm.relpath if k in module_constants(cm) else m.relpath, '<module>'), f'{k} = {float(consts[k])}', ok,
                   'ISA / BADA value' if ok else f'{k} differs from the standard atmosphere value {float(v)}', nontrivial=False)
    # results are real-valued whatever the dtype of the altitude / pressure passed in: no result array may be
    # allocated "like" an argument (np.full_like / zeros_like / empty_like / ones_like inherit an integer dtype and
    # truncate the kelvins and pascals stored into them)
    ctl = ast.parse('np.full_like(altitude, T)').body[0].value
    ctx.control('C12-R1', call_name(ctl).split('.')[-1].endswith('_like') and not any(k.arg == 'dtype' for k in ctl.keywords),
                'embedded np.full_like(altitude, T) is recognised as dtype-inheriting')
    for fi in m.functions.values():
        from .own import alias_of
        aliases = {p_: p_ for p_ in fi.params}
        for t, st, how in stores_to(fi.node):
            if isinstance(t, ast.Name) and getattr(st, 'value', None) is not None:
                r = alias_of(st.value, aliases)
                if r:
                    aliases[t.id] = r
        for c in calls_in(fi.node):
            if call_name(c).split('.')[-1] in ('full_like', 'zeros_like', 'empty_like', 'ones_like') and c.args \
                    and alias_of(c.args[0], aliases) and not any(k.arg == 'dtype' for k in c.keywords):
                ctx.ob('C12-R1', fi, f'{norm(c)[:60]}', False,
                       (f'the result array takes the dtype of `{norm(c.args[0])}`: for an integer altitude (or pressure) the '
                        'temperatures / pressures written into it are truncated to whole numbers (228.7 K → 228 K), and everything '
                        'derived from them (pressure level, density, speed of sound) is off by a per cent or two'), line=c.lineno)
    # The three ISA functions are piecewise: one formula below the tropopause, one above.  Each is read region by
    # region: the function is followed for a representative altitude (pressure) of the region - every selection the
    # value decides (np.where in either orientation, np.minimum / np.maximum, conditional expressions, if / else,
    # guard clauses, range checks) takes the side that value takes, locals and the repository's own helpers are
    # followed into their definitions - and the formula that remains is compared with the standard's formula for
    # that region as an exact canonical form.  Representatives lie on both sides of the tropopause within a metre, on
    # both sides of every numeric threshold the code compares with, and at the ends of the range.
    import math
    numbers = {k: float(v) for k, v in consts.items()}
    fns = {f.name: f for f in m.functions.values() if '.' not in f.qualname}
    recs = record_classes(prog, m)
    module_names = {t.id for s_ in m.tree.body if isinstance(s_, (ast.Assign, ast.AnnAssign, ast.AugAssign))
                    for t0 in (s_.targets if isinstance(s_, ast.Assign) else [s_.target]) for t in ast.walk(t0) if isinstance(t, ast.Name)}

    def opener(call):
        if isinstance(call.func, ast.Name) and call.func.id in fns:
            return fns[call.func.id].node
        return None

    def thresholds(fi):
        out = set()
        for x in walk_no_nested(fi.node):
            if isinstance(x, ast.Compare):
                for e_ in [x.left] + list(x.comparators):
                    v = const_value(e_)
                    if isinstance(v, (int, float)) and not isinstance(v, bool):
                        out.add(float(v))
        return out

    def region_formula(fi, var, val):
        """(formula, None) for this value, (None, 'raises') when the function refuses it"""
        try:
            vc = ValueCase(fi.node, var, val, m.tree, opener, numbers=numbers, records=recs)
            rets = [r for r in walk_no_nested(fi.node) if isinstance(r, ast.Return) and r.value is not None and vc.node_of(r) is not None]
            raises = [r for r in walk_no_nested(fi.node) if isinstance(r, ast.Raise) and vc.node_of(r) is not None]
            if not rets and raises:
                return None, 'raises'
            if not rets or len(rets) > 4:
                ctx.undecided('C12-R1', fi, f'{var} = {val:g}', f'{len(rets)} return statements can run for this value')
            # several returns can run for one value when the function also branches on something the value does not
            # decide (the form of the argument: scalar or array): each of them is the function's result for this value
            es = []
            for ret in rets:
                e = vc.region_value(ret.value, vc.node_of(ret))
                if vc.unresolved:
                    ctx.undecided('C12-R1', fi, f'{var} = {val:g}', f'{sorted(vc.unresolved)} have several definitions reaching the return')
                # a module-level name that is neither a number nor followed into its definition is not a symbol of the cited
                # equation: what it holds is not known, so nothing is concluded from a formula that still reads it
                unknown = sorted({x.id for x in ast.walk(e) if isinstance(x, ast.Name) and x.id in module_names
                                  and x.id not in consts and x.id not in vc.params and x.id not in vc.locals})
                if unknown:
                    ctx.undecided('C12-R1', fi, f'{var} = {val:g}', f'module-level {unknown} could not be followed to a value')
                es.append(e)
            return es, None
        except Undecidable as ex:
            ctx.undecided('C12-R1', fi, f'{var} = {val:g}', str(ex))

    h_t = float(rc['h_p_tropo'])
    T0_, p0_, g0_, R_, beta_ = (float(rc[k]) for k in ('T0', 'p0', 'g0', 'R_air', 'beta_tropo'))
    p_t = p0_ * ((T0_ + beta_ * h_t) / T0_) ** (-g0_ / (beta_ * R_))

    def p_std(h):
        if h <= h_t:
            return p0_ * ((T0_ + beta_ * h) / T0_) ** (-g0_ / (beta_ * R_))
        return p_t * math.exp(-g0_ / (R_ * (T0_ + beta_ * h_t)) * (h - h_t))

    def check(fi, var, samples, to_alt, refs, refdefs, what):
        """compare the formula of every sample's region with the standard's; returns the number of regions compared"""
        done = {}
        refused_inside = []
        for v in samples:
            h = to_alt(v)
            region = 'troposphere' if h <= h_t else 'stratosphere'
            es, why = region_formula(fi, var, v)
            if es is None:
                refused_inside.append(v)
                continue
            for e in es:
                key = (region, norm(e))
                if key in done:
                    continue
                done[key] = True
                _cmp(ctx, 'C12-R1', fi, f'{what} ({region})', e, refs[region], consts, refconsts=rc, refdefs=refdefs,
                     line=fi.node.lineno, alts={k: v for k, v in refs.items() if k != region})
        ok = not refused_inside
        ctx.ob('C12-R1', fi, f'{what} defined over the whole documented range', ok, '0 - 25 km' if ok else
               f'{var} = {refused_inside[0]:g} (inside the documented range) is refused', nontrivial=False)
        return len({r for r, _ in done})

    alts = {0.0, 5000.0, h_t - 1.0, h_t + 1.0, 20000.0, 24999.0}     # at the tropopause itself both formulas hold
    tf = m.func('temperature_at_altitude_isa_bada4')
    pf = m.func('pressure_at_altitude_isa_bada4')
    af = m.func('altitude_from_pressure_isa_bada4')
    for fi in (tf, pf, af):
        if len(fi.params) != 1:
            ctx.undecided('C12-R1', fi, 'parameters', 'expected one argument')
    inside = lambda xs: sorted(x for x in xs if 0.0 <= x <= 25000.0)
    t_alts = inside(alts | {c + d_ for c in thresholds(tf) for d_ in (-1.0, 1.0)})
    n = check(tf, tf.params[0], t_alts, lambda h: h,
              {'troposphere': REF.ISA['T_tropo_branch'], 'stratosphere': REF.ISA['T_strat_branch']}, None, 'T')
    p_alts = inside(alts | {c + d_ for c in thresholds(pf) | thresholds(tf) for d_ in (-1.0, 1.0)})
    n += check(pf, pf.params[0], p_alts, lambda h: h,
               {'troposphere': REF.ISA['p_tropo_branch'], 'stratosphere': REF.ISA['p_strat_branch']},
               {'TEMPERATURE': REF.ISA['T_tropo_branch'], 'P_TROPO': REF.ISA['p_tropopause']}, 'p')
    # the inverse: representatives are the standard's own pressures at those altitudes (and around every pressure the
    # code compares with)
    p_samples = {p_std(h): h for h in alts}
    for c in thresholds(af):
        for f_ in (0.999, 1.001):
            if p_std(25000.0) <= c * f_ <= p0_:
                # altitude of that pressure by bisection on the standard's own profile
                lo, hi = 0.0, 25000.0
                for _ in range(60):
                    mid = (lo + hi) / 2
                    lo, hi = (mid, hi) if p_std(mid) > c * f_ else (lo, mid)
                p_samples[c * f_] = lo
    n += check(af, af.params[0], sorted(p_samples), lambda p_: p_samples[p_],
               {'troposphere': REF.ISA['h_tropo_branch'], 'stratosphere': REF.ISA['h_strat_branch']},
               {'P_TROPO': REF.ISA['p_tropopause']}, 'h')
    ctx.floor('C12-R1/isa', n, 6, 'ISA formulas compared (temperature, pressure, altitude: two regions each)')
    # R2: what makes the pair mutually inverse - the same split point and exponents whose product is one - follows
    # from both directions conforming to the standard region by region within a metre of the tropopause; the exponent
    # product is stated on its own as well (troposphere formulas)
    try:
        et = region_formula(pf, pf.params[0], 5000.0)[0][0]
        ei = region_formula(af, af.params[0], p_std(5000.0))[0][0]
        pw = [x for x in ast.walk(et) if isinstance(x, ast.BinOp) and isinstance(x.op, ast.Pow)]
        iw = [x for x in ast.walk(ei) if isinstance(x, ast.BinOp) and isinstance(x.op, ast.Pow)]
        e1 = normal_form(pw[0].right, {}, consts)
        e2 = normal_form(iw[0].right, {}, consts)
        ok = (e1 * e2).is_const() and (e1 * e2).const() == 1
        ctx.ob('C12-R2', af, f'exponents {norm(pw[0].right)} · {norm(iw[0].right)} = 1', ok,
               'forward and inverse power laws are exact inverses' if ok else
               'pressure→altitude does not invert altitude→pressure (exponent product ≠ 1)')
    except (IndexError, AlgebraError, AttributeError, TypeError):
        ctx.note('C12-R2: power-law exponents not located; the inverse pair is decided by the region formulas alone')
    e, why = region_formula(tf, tf.params[0], 25001.0)
    okr = e is None and why == 'raises'
    ctx.ob('C12-R1', tf, 'altitudes above 25 km refused', okr, 'raise above 25000 m' if okr else 'range refusal changed', nontrivial=False)
    d = m.func('calculate_air_density')
    r = [n for n in walk_no_nested(d.node) if isinstance(n, ast.Return)][0].value
    _cmp(ctx, 'C12-R1', d, 'air density', r, REF.ISA['density'], consts, refconsts=rc)
    # the atmospheric state handed to the emission routines: each attribute followed to the value stored in it (through
    # locals, array conversions and earlier attributes of the same object)
    tm = prog.module('emissions/types.py')
    st = tm.func('AtmosphericState.__init__')
    vc = ValueCase(st.node)
    stored = {}

    class _Attrs(ast.NodeTransformer):
        def visit_Attribute(self, n):
            n = self.generic_visit(n)
            return _cp(stored[norm(n)]) if isinstance(n.ctx, ast.Load) and norm(n) in stored else n

    def plain(e):
        while isinstance(e, ast.Call) and call_name(e).split('.')[-1] in ValueCase.CONVERSIONS and len(e.args) == 1:
            e = e.args[0]
        return e
    for t, s_, how in stores_to(st.node):
        if how in ('assign', 'ann') and isinstance(t, ast.Attribute) and norm(t.value) == 'self' and vc.node_of(s_) is not None:
            try:
                stored[norm(t)] = plain(_Attrs().visit(vc.resolve(s_.value, vc.node_of(s_), quiet=True)))
            except Undecidable as ex:
                ctx.undecided('C12-R1', st, norm(t), str(ex))
    alt = st.params[1] if len(st.params) > 1 else None
    for attr, fname in (('temperature', 'temperature_at_altitude_isa_bada4'), ('pressure', 'pressure_at_altitude_isa_bada4')):
        v = stored.get(f'self.{attr}')
        ok = isinstance(v, ast.Call) and call_name(v).split('.')[-1] == fname and len(v.args) == 1 and not v.keywords \
            and norm(plain(v.args[0])) == alt
        ctx.ob('C12-R1', st, f'atmospheric state {attr} from the ISA function', ok, f'{fname}({alt})' if ok else
               f'{attr} no longer comes from the ISA model at the state\'s own altitude', nontrivial=False)
    if 'self.mach' in stored and 'self.temperature' in stored:
        _cmp(ctx, 'C12-R1', st, 'Mach number', stored['self.mach'], REF.ISA['mach'], dict(consts), refconsts=rc,
             rename={norm(stored['self.temperature']): 'TEMPERATURE'}, line=st.node.lineno)


def rule_ffm2(ctx):
    prog = ctx.prog
    m = prog.module('emissions/utils.py')
    fi = m.func('get_SLS_equivalent_fuel_flow')
    r = [n for n in walk_no_nested(fi.node) if isinstance(n, ast.Return)]
    vis = visible_constants(prog, m)
    # the value returned, followed back through its definitions (locals, the module's own helpers, records that only
    # carry values from one statement to the next); the function's own parameters stay symbols
    if len(r) != 1 or r[0].value is None:
        ctx.undecided('C12-R1', fi, 'FFM2 Wf_SL', f'{len(r)} return statements')
    try:
        vc = ValueCase(fi.node, module_tree=m.tree, opener=same_module_opener(m), records=record_classes(prog, m))
        at = vc.node_of(r[0])
        wf = vc.resolve(r[0].value, at) if at is not None else r[0].value
        if vc.unresolved:
            ctx.undecided('C12-R1', fi, 'FFM2 Wf_SL', f'{sorted(vc.unresolved)} have several definitions reaching the return')
    except Undecidable as ex:
        ctx.undecided('C12-R1', fi, 'FFM2 Wf_SL', str(ex))
    wf = ast.copy_location(wf, r[0].value)
    r = [ast.copy_location(ast.Return(wf), r[0])]
    _cmp(ctx, 'C12-R1', fi, 'FFM2 Wf_SL', r[0].value, REF.FFM2['Wf_SL'], vis)
    dflt = param_defaults(fi.node, vis)
    for k, v in REF.FFM2['defaults'].items():
        ok = k in dflt and dflt[k] == Fraction(repr(v))
        ctx.ob('C12-R1', fi, f'default {k} = {float(dflt[k]) if k in dflt else None}', ok, 'FFM2 reference condition' if ok else
               f'default {k} differs from {v}')
    # homogeneous of degree 1 in fuel flow
    try:
        nf = nf_code(fi.node, r[0].value, {})
        nf0 = nf_code(fi.node, r[0].value, {}, rename={'fuel_flow': 'K_TIMES_FF'})
        lin = all(dict(mm).get('fuel_flow', 0) == 1 for mm in nf.num) and not any('fuel_flow' in dict(mm) for mm in nf.den)
    except AlgebraError as e:
        ctx.undecided('C12-R3', fi, 'linearity', str(e))
    ctx.ob('C12-R3', fi, 'Wf_SL is linear in the measured fuel flow', lin, 'degree 1 in fuel_flow' if lin else
           'sea-level fuel flow is not proportional to the measured fuel flow')
    cat = m.func('get_thrust_cat_cruise')
    # R4 by evaluation: the category of one fuel flow, for calibration flows in every order, at and around both
    # mid-points.  Documented rule: idle up to and including the idle/approach mid-point, climb strictly above the
    # approach/climb mid-point, approach for the remainder - the first rule that applies wins, which is what keeps the
    # category single-valued and ascending when the calibration flows are not monotone.  np.select, nested np.where,
    # boolean masks, named conditions: all are the same function of the point.
    if len(cat.params) < 2:
        ctx.undecided('C12-R4', cat, 'thrust categories', 'parameters (fuel flows, calibration flows) not found')
    p_ff, p_cal = cat.params[0], cat.params[1]
    wrappers = set()
    for c in calls_in(cat.node):
        if isinstance(c.func, ast.Name):
            ci = prog.resolve_name(m, c.func.id)
            if ci is not None and hasattr(ci, 'annotated_fields') and len(list(ci.annotated_fields())) == 1:
                wrappers.add(c.func.id)
    bad = None
    n = 0
    seen = set()
    recs = record_classes(prog, m)
    try:
        for idle, app, climb in ((1, 3, 7), (7, 3, 1), (2, 2, 2), (1, 5, 3), (5, 1, 3), (3, 1, 5)):
            low, appr = Fraction(idle + app, 2), Fraction(app + climb, 2)
            cal = {'IDLE': Fraction(idle), 'APPROACH': Fraction(app), 'CLIMB': Fraction(climb), 'TAKEOFF': Fraction(max(idle, app, climb) + 2)}
            for ff in sorted({Fraction(0), low, appr, (low + appr) / 2, low - Fraction(1, 4), low + Fraction(1, 4),
                              appr - Fraction(1, 4), appr + Fraction(1, 4), Fraction(9)}):
                want = 'ThrustMode.IDLE' if ff <= low else 'ThrustMode.CLIMB' if ff > appr else 'ThrustMode.APPROACH'
                run = ScalarRun(cat.node, {p_cal: cal}, vis, env={p_ff: ff}, enums={'ThrustMode': THRUST_MODES}, wrappers=wrappers,
                                module_tree=m.tree, helpers={k: v for k, v in plain_functions(m).items() if v is not cat.node},
                                records=recs)
                run.run()
                got = run.returned
                n += 1
                seen.add(want)
                if not isinstance(got, str):
                    raise Undecidable(f'the category of a point is not decided by comparisons of the fuel flow with the '
                                      f'calibration flows (returned {got!r})')
                if got != want and bad is None:
                    bad = (idle, app, climb, ff, low, appr, want, got, run.notes)
    except Undecidable as ex:
        ctx.undecided('C12-R4', cat, 'thrust categories', str(ex))
    ctx.floor('C12-R4', len(seen), 3, 'thrust categories reached by the evaluation points')
    ok = bad is None
    why = (f'low ≤ mid(idle, approach) < approach ≤ mid(approach, climb) < high at all {n} evaluation points (calibration flows '
           'in every order): total, single-valued, ascending in fuel flow')
    if bad is not None:
        idle, app, climb, ff, low, appr, want, got, notes = bad
        why = (f'thrust categories are no longer the documented partition of the fuel-flow axis: with calibration flows idle {idle}, approach {app}, '
               f'climb {climb} (mid-points {float(low):g} and {float(appr):g}) a fuel flow of {float(ff):g} is {got.split(".")[-1]}, documented {want.split(".")[-1]}')
        if notes:
            why += f' [`{norm(notes[0][0])[:70]}`: {notes[0][1]}]'
    sel = [c for c in calls_in(cat.node) if call_name(c).split('.')[-1] in ('select', 'where', 'digitize', 'searchsorted')]
    if bad is not None and bad[8]:
        sel = [bad[8][0][0]]
    ctx.ob('C12-R4', cat, 'thrust category of a fuel flow: idle / approach / climb by the two mid-points', ok, why,
           line=(sel[0].lineno if sel else cat.node.lineno))
    for nm, a_, b_ in (('lowLimit', 'IDLE', 'APPROACH'), ('approachLimit', 'APPROACH', 'CLIMB')):
        d = single_def_value(cat.node, nm)
        if d is not None:
            _cmp(ctx, 'C12-R4', cat, nm, d, f'(A + B) / 2', {}, rename={f'ff_cal[ThrustMode.{a_}]': 'A', f'ff_cal[ThrustMode.{b_}]': 'B'})


def plain_functions(m):
    """name -> FunctionDef of the undecorated top-level functions of module m"""
    return {f.name: f.node for f in m.functions.values() if '.' not in f.qualname and not f.node.decorator_list
            and not isinstance(f.node, ast.AsyncFunctionDef)}


def same_module_opener(m):
    """opener for ValueCase: calls of plain (undecorated) top-level functions of module m are read as what they return"""
    fns = {f.name: f for f in m.functions.values() if '.' not in f.qualname}

    def opener(call):
        if isinstance(call.func, ast.Name) and call.func.id in fns and not fns[call.func.id].node.decorator_list:
            return fns[call.func.id].node
        return None
    return opener


def record_fields(prog, m, vc, ret):
    """({field: expression}, CFG node where they are evaluated) of `return Record(a, b, f=c)` (or of a local bound once
    to such a call): positional arguments take the names of the record class's annotated fields"""
    r, at = ret.value, vc.node_of(ret)
    if isinstance(r, ast.Name) and at is not None:
        b = vc.binding(r.id, at)
        if b is not None and b[2] is None:
            r, at = b[0], b[1]
    if not isinstance(r, ast.Call) or any(isinstance(a_, ast.Starred) for a_ in r.args) or not all(k.arg for k in r.keywords):
        return {}, at
    ci = prog.resolve_name(m, call_name(r)) if isinstance(r.func, ast.Name) else None
    names_ = list(ci.annotated_fields()) if ci is not None and hasattr(ci, 'annotated_fields') else []
    fields_ = dict(zip(names_, r.args))
    fields_.update({k.arg: k.value for k in r.keywords})
    return fields_, at


def product_factors(e):
    """[(factor, +1 | -1)]: the expression as a product of factors and reciprocals of factors"""
    if isinstance(e, ast.BinOp) and isinstance(e.op, ast.Mult):
        return product_factors(e.left) + product_factors(e.right)
    if isinstance(e, ast.BinOp) and isinstance(e.op, ast.Div):
        return product_factors(e.left) + [(f, -s_) for f, s_ in product_factors(e.right)]
    if isinstance(e, ast.UnaryOp) and isinstance(e.op, ast.USub):
        return [(ast.Constant(-1), 1)] + product_factors(e.operand)
    return [(e, 1)]


def product_of(fs):
    """the inverse of product_factors"""
    num = [f for f, s_ in fs if s_ > 0]
    den = [f for f, s_ in fs if s_ < 0]
    e = ast.Constant(1.0)
    for k, f in enumerate(num):
        e = f if k == 0 else ast.BinOp(e, ast.Mult(), f)
    for f in den:
        e = ast.BinOp(e, ast.Div(), f)
    return ast.fix_missing_locations(e)


def loaded_names(e):
    return {x.id for x in ast.walk(e) if isinstance(x, ast.Name) and isinstance(x.ctx, ast.Load)}


def rule_bffm2(ctx):
    """BFFM2 NOx, read off the value returned.  The NOx index in the result record is followed back through its
    definitions (locals, tuple unpacking, the module's own helper functions opened by substitution, module-level and
    imported constants folded) to one expression; that expression is a product; the factors that depend only on the
    ambient temperature and pressure are the ambient correction (eqs. 44-45: theta, delta, P in psia, beta, Pv, omega, H),
    the rest is the sea-level index of the log-log fit.  Each part is compared with the cited equations as an exact
    canonical form; how many locals or helpers the code uses to get there does not matter."""
    from ..conform import explain_difference
    prog = ctx.prog
    m = prog.module('emissions/ei/nox.py')
    fi = m.func('BFFM2_EINOx')
    vis = visible_constants(prog, m)
    B = REF.BFFM2
    vc = ValueCase(fi.node, module_tree=m.tree, opener=same_module_opener(m), components=True, records=record_classes(prog, m))
    rets = [r for r in walk_no_nested(fi.node) if isinstance(r, ast.Return) and r.value is not None]
    if len(rets) != 1 or vc.node_of(rets[0]) is None:
        ctx.undecided('C12-R1', fi, 'return', f'{len(rets)} return statements')
    fields, at_end = record_fields(prog, m, vc, rets[0])
    need = ('NOxEI', 'NOEI', 'NO2EI', 'HONOEI', 'noProp', 'no2Prop', 'honoProp')
    if not set(need) <= set(fields):
        ctx.undecided('C12-R1', fi, 'result record', f'fields {sorted(set(need) - set(fields))} not found in the returned record')

    def value_of(e, stop=()):
        try:
            vc.unresolved = set()
            v = vc.resolve(e, at_end, stop=stop)
        except Undecidable as ex:
            ctx.undecided('C12-R1', fi, norm(e)[:40], str(ex))
        if vc.unresolved:
            ctx.undecided('C12-R1', fi, norm(e)[:40], f'{sorted(vc.unresolved)} have several definitions reaching the return')
        return v
    amb = [p_ for p_ in fi.params if p_ in ('Tamb', 'Pamb')]
    if len(amb) != 2 or not fi.params:
        ctx.undecided('C12-R1', fi, 'parameters', 'ambient temperature and pressure parameters (Tamb, Pamb) not found')
    p_eval = fi.params[0]
    # the cited method is what the function computes when its optional knobs are left alone: a parameter with a numeric
    # default that is not a symbol of the cited equations enters with its default value
    knobs = {k: v for k, v in param_defaults(fi.node, vis).items() if k not in amb and k not in fi.params[:3]}
    vis = dict(vis)
    for k, v in knobs.items():
        vis.setdefault(k, v)
    E = value_of(fields['NOxEI'])
    corr, sea = [], []
    for f, s_ in product_factors(E):
        reads = (loaded_names(f) & set(fi.params)) - set(knobs)
        (corr if reads <= set(amb) else sea).append((f, s_))
    ok = bool(corr) and bool(sea) and any(loaded_names(f) & set(amb) for f, _ in corr)
    ctx.ob('C12-R1', fi, 'NOxEI = sea-level EI × ambient correction', ok,
           'the returned NOx index is a product of a fuel-flow part and an ambient (Tamb, Pamb) part' if ok else
           'the ambient correction is not applied to the sea-level EI', line=rets[0].lineno)
    # ambient correction: the whole chain of eqs. (44)-(45) at once; a difference is pinned to the innermost cited
    # sub-expression it lies in
    order = ('theta_amb', 'delta_amb', 'Pamb_psia', 'beta', 'Pv', 'omega', 'H', 'correction')
    sym = {'theta_amb': 'THETA', 'delta_amb': 'DELTA', 'Pamb_psia': 'PAMB_PSIA', 'beta': 'BETA', 'Pv': 'PV', 'omega': 'OMEGA', 'H': 'HH'}
    refdefs = {sym[k]: B[k] for k in sym}
    n = 0
    if ok:
        try:
            named = {k: ref_normal_form(B[k], {}, refdefs) for k in order}
            code = normal_form(product_of(corr), {}, vis)
        except AlgebraError as ex:
            ctx.undecided('C12-R1', fi, 'BFFM2 ambient correction', f'cannot normalise: {ex}')
        d = explain_difference(code, named['correction'], named)
        if d is not None and not d[2]:
            ctx.undecided('C12-R1', fi, f'BFFM2 {d[0] or "correction"}', d[1])
        culprit = None if d is None else (d[0] or 'correction')
        for k in order:
            n += 1
            bad = culprit == k
            ctx.ob('C12-R1', fi, f'BFFM2 {k} ≡ {B[k][:70]}', not bad,
                   'as it enters the returned index: equal to the cited equation as an exact canonical form' if not bad else
                   f'differs from the cited equation `{B[k][:90]}`' + (' (with omega = 0.62198·0.6·Pv / (P_psia − 0.6·Pv) and P_psia = '
                   '14.696·Pamb/101325 substituted: one rational expression of Pamb and Pv)' if k == 'H' else '') + f': {d[1]}',
                   line=rets[0].lineno)
    # sea-level index: 10 ** (log10(fuel flow) * slope + intercept), slope and intercept the two results of the fit
    pf = []
    evals = []

    class _Fit(ast.NodeTransformer):
        def visit_Subscript(self, x):
            # component i of the value np.polyfit(...) returns: slope (0) and intercept (1) of the degree-1 fit
            if isinstance(x.value, ast.Call) and call_name(x.value).split('.')[-1] == 'polyfit' and isinstance(x.slice, ast.Constant) \
                    and x.slice.value in (0, 1, -1, -2):
                if norm(x.value) not in [norm(c) for c in pf]:
                    pf.append(x.value)
                return ast.copy_location(ast.Name(('slope', 'intercept')[x.slice.value % 2], ast.Load()), x)
            return self.generic_visit(x)

        def visit_Call(self, x):
            if call_name(x).split('.')[-1] == 'log10' and len(x.args) == 1 and p_eval in loaded_names(x.args[0]):
                evals.append(x.args[0])
                return ast.copy_location(ast.Name('x_eval', ast.Load()), x)
            return self.generic_visit(x)
    if ok:
        n += 1
        S = _Fit().visit(_cp(product_of(sea)))
        try:
            code = normal_form(S, {}, vis)
            want = ref_normal_form(B['NOxEI_sl'], {})
        except AlgebraError as ex:
            ctx.undecided('C12-R1', fi, 'BFFM2 NOxEI_sl', f'cannot normalise: {ex}')
        d = explain_difference(code, want)
        if d is not None and not d[2]:
            ctx.undecided('C12-R1', fi, 'BFFM2 NOxEI_sl', d[1])
        ctx.ob('C12-R1', fi, f'BFFM2 NOxEI_sl ≡ {B["NOxEI_sl"]}', d is None,
               'equal to the cited equation as an exact canonical form' if d is None else
               f'differs from the cited equation `{B["NOxEI_sl"]}`: {d[1]}', line=rets[0].lineno)
    ctx.floor('C12-R1/bffm2', n, 9, 'BFFM2 sub-expressions')
    # the fit: np.polyfit(log10 <calibration fuel flows>, log10 <certification indices>, 1), evaluated at log10 <fuel flow>
    ok = len(pf) == 1
    detail = 'np.polyfit(log10 ff, log10 EI, 1)'
    if ok:
        a_ = dict(zip(('x', 'y', 'deg'), pf[0].args))
        a_.update({k.arg: k.value for k in pf[0].keywords})
        xs, ys = a_.get('x'), a_.get('y')          # already resolved: the call is part of the resolved result

        def log10_of(e):
            return e.args[0] if isinstance(e, ast.Call) and call_name(e).split('.')[-1] == 'log10' and len(e.args) == 1 else None
        lx, ly = (log10_of(e) if e is not None else None for e in (xs, ys))
        le = evals[0] if evals else None
        ids = lambda e: {t for x in ast.walk(e) for t in (re.split(r'[^a-z]+', (x.id if isinstance(x, ast.Name) else x.attr if isinstance(x, ast.Attribute) else '').lower())) if t}
        ok = lx is not None and ly is not None and le is not None and set(a_) == {'x', 'y', 'deg'} and const_value(a_['deg']) == 1
        if ok:
            flow, index, evalf = ids(lx), ids(ly), ids(le)
            ok = bool(flow & {'fuelflow', 'ff', 'fuel', 'flow'}) and not (flow & {'ei', 'nox'}) and bool(index & {'ei', 'nox'}) \
                and not (index & {'fuelflow', 'ff', 'flow'}) and bool(evalf & {'fuel', 'flow', 'ff'})
            detail = f'np.polyfit(log10 {norm(lx)[:30]}, log10 {norm(ly)[:30]}, 1) at log10 {norm(le)[:30]}'
    ctx.ob('C12-R1', fi, 'log10–log10 linear fit of EI against fuel flow', ok, detail if ok else
           'the log-log fit changed (axes, base or degree)')
    # the fit is made from, and evaluated at, the fuel flows passed in: every positive flow reaches its logarithm
    # unchanged; only a non-positive flow is replaced (by something positive, so that the logarithm is defined).  Decided
    # element-wise: the function's own statements are run for one element of each array argument (ScalarRun, points).
    lits = sorted({abs(Fraction(repr(x.value))) for x in ast.walk(fi.node) if isinstance(x, ast.Constant)
                   and isinstance(x.value, (int, float)) and not isinstance(x.value, bool) and 0 < abs(x.value) < 10 ** 6})
    small = (min(lits) if lits else Fraction(1)) / 7
    samples = [small, Fraction(5, 3)] + [q for l_ in lits for q in (l_ * Fraction(9, 10), l_, l_ * Fraction(11, 10))] + [Fraction(0), Fraction(-2)]
    bad = None
    seen_logs = 0
    try:
        for k, f_ in enumerate(samples):
            pts = {p_eval: f_, fi.params[2]: f_ * 3 if len(fi.params) > 2 else None, fi.params[1]: abs(f_) * 11 + 1}
            run = ScalarRun(fi.node, {}, vis, points={k_: v for k_, v in pts.items() if v is not None}, helpers=plain_functions(m),
                            records=record_classes(prog, m))
            run.run()
            seen_logs = max(seen_logs, len(run.log_args))
            inputs = set(pts.values())
            for node, v in run.log_args:
                okv = (v in inputs) if f_ > 0 else v > 0
                if not okv and bad is None:
                    bad = (f_, v, node)
    except Undecidable as ex:
        ctx.undecided('C12-R1', fi, 'fuel flows entering the fit', str(ex))
    ctx.floor('C12-R1/bffm2-flows', seen_logs, 3, 'logarithms of the fuel flows / indices followed element-wise')
    ctx.ob('C12-R1', fi, 'the fit uses the fuel flows passed in (only non-positive flows are replaced)', bad is None,
           f'checked element-wise for {len(samples)} flows on both sides of every literal of the function' if bad is None else
           (f'a fuel flow of {float(bad[0]):g} kg/s (or a calibration flow / index proportional to it) enters `{norm(bad[2])[:40]}` as {float(bad[1]):g}: '
            + ('the log-log fit is not made from / evaluated at the flow passed in, so the returned index is not the cited fit at that flow'
               if bad[0] > 0 else 'the logarithm of a non-positive flow is taken')), line=(bad[2].lineno if bad else fi.node.lineno))
    # speciation: each species' field is the NOx field times its own fraction field, by value
    try:
        nox = normal_form(E, {}, vis)
        for out, prop in (('NOEI', 'noProp'), ('NO2EI', 'no2Prop'), ('HONOEI', 'honoProp')):
            # the fraction as the record carries it is one value (a symbol): the locals it is written with are not opened
            keep = tuple(set().union(*(loaded_names(fields[q]) for q in ('noProp', 'no2Prop', 'honoProp'))) & vc.locals)
            got = normal_form(value_of(fields[out], stop=keep), {}, vis)
            frac = normal_form(fields[prop], {}, vis)
            ok = poly_equal(got, nox * frac)
            ctx.ob('C12-R3', fi, f'{out} = NOxEI × {prop}', ok, 'speciation scales linearly with the NOx index' if ok else
                   f'{out} is not the NOx index times its own fraction')
    except AlgebraError as ex:
        ctx.undecided('C12-R3', fi, 'speciation', f'cannot normalise: {ex}')


# ---------------------------------------------------------------------------------------------------------------------
# R5: the scalar decision prelude of the HC/CO fit, run exactly over every sign / position case
# ---------------------------------------------------------------------------------------------------------------------
#
# The bilinear fit is decided by five scalars that the function computes before it touches the evaluation points:
# the break point x_intercept, the high-power level x_horzline and the slanted line (slope, base_log_fuel,
# base_log_EI).  Which of the documented SAGE v1.5 rules (a) (b) (c) shapes them depends only on order relations
# between a handful of quantities (slope against zero, the raw intersection against the approach and climb flows, the
# two flows against each other).  So the rule is decided the way a reader decides it: by running the prelude for a
# representative of *every* region of that order partition and comparing the resulting fit with the documented rule
# table run on the same inputs.  The run is a partial evaluation of the function's own statements (assignments,
# if / elif / else in any nesting, conditional expressions, and / or, guard flags, np.where on scalars), in exact
# rational arithmetic over the log10 values of the eight certification numbers - the only inputs the prelude has.
# Thresholds are not assumed: every numeric literal the prelude compares with, and every isclose tolerance, becomes a
# break point of the grid, so a region introduced by the code itself is sampled too.  Whatever the spelling - merged
# steps, reordered tests, flags, nested ifs - the verdict only depends on which fit each region gets.

THRUST_MODES = ('IDLE', 'APPROACH', 'CLIMB', 'TAKEOFF')


class _OpaqueValue:
    def __repr__(self):
        return '<opaque>'


OPQ = _OpaqueValue()


class Pos:
    """a positive real known by its log10 (an entry of the certification tables)"""

    def __init__(self, log):
        self.log = Fraction(log)


class _EarlyExit(Exception):
    pass


class RecVal(tuple):
    """a plain record built by the code under evaluation: the tuple of its field values, with the field names"""
    names: list = []
    props: dict = {}
    methods: dict = {}       # plain methods of the class (name -> FunctionDef)
    is_dataclass = False

    def replaced(self, kw):
        """the record with the named fields overridden (dataclasses.replace / NamedTuple._replace), None for an unknown field"""
        if any(k not in self.names for k in kw):
            return None
        out = RecVal(kw.get(n, v) for n, v in zip(self.names, self))
        out.names, out.props, out.methods, out.is_dataclass = self.names, self.props, self.methods, self.is_dataclass
        return out


class ModeTable(dict):
    """a ThrustModeValues built in the code itself: {member name: value}.  Positional construction assigns in the order
    of the enumeration (C12-R6 checks the constructor), a missing mode reads as 0.0 (ThrustModeValues.__getitem__)"""


MODE_TABLE_USES: list = []        # calls of ThrustModeValues.broadcast a ScalarRun has read as a per-point look-up


def _lin_interp(x, xp, fp, left=None, right=None, extrapolate=False):
    """np.interp(x, xp, fp) for ascending xp, exactly: end values held outside the table unless told otherwise"""
    if len(xp) != len(fp) or len(xp) < 2 or any(a >= b for a, b in zip(xp, xp[1:])):
        raise Undecidable('interpolation table is not strictly ascending')
    if x < xp[0] and not extrapolate:
        return fp[0] if left is None else left
    if x > xp[-1] and not extrapolate:
        return fp[-1] if right is None else right
    i = 0 if x < xp[0] else len(xp) - 2 if x > xp[-1] else next(j for j in range(len(xp) - 1) if xp[j] <= x <= xp[j + 1])
    return fp[i] + (fp[i + 1] - fp[i]) * (x - xp[i]) / (xp[i + 1] - xp[i])


class Interp1d:
    """scipy.interpolate.interp1d(x, y, kind='linear', bounds_error=..., fill_value=...) as a value"""

    def __init__(self, xp, fp, extrapolate, fill):
        self.xp, self.fp, self.extrapolate, self.fill = xp, fp, extrapolate, fill

    def __call__(self, x):
        if self.extrapolate:
            return _lin_interp(x, self.xp, self.fp, extrapolate=True)
        if x < self.xp[0] or x > self.xp[-1]:
            if self.fill is None:
                raise Undecidable('interp1d refuses values outside its table (bounds_error)')
            lo, hi = self.fill if isinstance(self.fill, tuple) else (self.fill, self.fill)
            return lo if x < self.xp[0] else hi
        return _lin_interp(x, self.xp, self.fp)


def _isclose(a, b, rtol, atol, numpy_style=True):
    if numpy_style:
        return abs(a - b) <= atol + rtol * abs(b)
    return abs(a - b) <= max(rtol * max(abs(a), abs(b)), atol)


class ScalarRun:
    """The scalar statements of `fn` executed for one concrete input: `tables` maps the names of the per-mode
    parameters to {mode: log10 of the entry}.  Numbers are Fractions, table entries and their products / powers are
    `Pos`, everything that depends on anything else (arrays, other parameters, unknown calls) is OPQ.  A test that is
    OPQ makes everything stored under it OPQ; a division by zero or an unsupported construct on the path raises
    Undecidable.  `tracked` names are snapshotted at their first use in an opaque (array) expression; a store to one of
    them after that point is Undecidable."""

    NUM_FUNCS = ('float', 'float64', 'float32', 'asarray', 'array', 'squeeze', 'item', 'double')

    def __init__(self, fn, tables, consts, tracked=(), env=None, enums=None, wrappers=(), module_tree=None, points=None,
                 helpers=None, pointwise=False, _depth=0, records=None):
        # records: record_classes(..) of the module; a plain record built on the way is the tuple of its fields with names
        self.records = records
        self.fn, self.tables, self.consts, self.tracked = fn, tables, consts, tuple(tracked)
        # helpers: name -> FunctionDef of plain functions of the same module; a call of one is run the same way (arguments
        # bound to its parameters, per-mode tables passed by name follow) and its returned value is the call's value
        self.helpers = dict(helpers or {})
        self.pointwise = bool(points) or pointwise
        self._depth = _depth
        # points: parameter name -> number.  The element-wise view of an array argument: the run follows *one element*
        # of it.  `P.as_array()`, np.asarray(P), copies and dtype conversions are that element; `X[mask] = v` with the
        # mask evaluated at the element replaces it or leaves it; every number whose log10 is taken is recorded in
        # `log_args` (the run itself cannot represent the logarithm of an arbitrary rational).
        self.points = dict(points or {})
        self.log_args = []
        self.module_tree = module_tree
        self._mod = {}
        self.env = dict(env or {})
        self.env.update(self.points)
        self.enums = enums or {}
        self.wrappers = set(wrappers)
        self.returned = OPQ
        self.notes = []          # (node, remark) about library behaviour that shaped this run's result
        self.snapshot = None
        self.snap_line = 0
        self.exited = False
        self.roles = None        # role-based reading of the fit (see role_use): {'breaks': [], 'levels': [], 'lines': []}

    # -- expressions --------------------------------------------------------
    def ev(self, e):
        m = getattr(self, 'ev_' + type(e).__name__, None)
        return OPQ if m is None else m(e)

    def ev_Constant(self, e):
        v = e.value
        if isinstance(v, bool) or v is None:
            return v
        if isinstance(v, (int, float)):
            return Fraction(repr(v))
        if isinstance(v, str):
            return v
        return OPQ

    def ev_Name(self, e):
        if e.id in self.env:
            return self.env[e.id]
        if e.id in self.consts:
            return Fraction(self.consts[e.id])
        if self.module_tree is not None:
            # a module-level name bound once (a table, an interpolant built at import): its value, evaluated once
            if e.id not in self._mod:
                self._mod[e.id] = OPQ
                defs = [st for st in self.module_tree.body if isinstance(st, (ast.Assign, ast.AnnAssign)) and getattr(st, 'value', None) is not None
                        and any(isinstance(t, ast.Name) and t.id == e.id for t in (st.targets if isinstance(st, ast.Assign) else [st.target]))]
                if len(defs) == 1:
                    saved, self.env = self.env, {}
                    try:
                        self._mod[e.id] = self.ev(defs[0].value)
                    finally:
                        self.env = saved
            return self._mod[e.id]
        return {'True': True, 'False': False}.get(e.id, OPQ)

    def ev_Attribute(self, e):
        t = norm(e)
        if t in self.consts:
            return Fraction(self.consts[t])
        if not (isinstance(e.value, ast.Name) and e.value.id not in self.env):
            rv = self.ev(e.value)
            if isinstance(rv, RecVal):
                if e.attr in rv.names:
                    return rv[rv.names.index(e.attr)]
                if e.attr in rv.props:
                    me_, body = rv.props[e.attr]
                    saved, self.env = self.env, {me_: rv}
                    try:
                        return self.ev(body)
                    finally:
                        self.env = saved
                return OPQ
        if isinstance(e.value, ast.Name) and e.attr in self.enums.get(e.value.id, ()) and e.value.id not in self.env:
            return t                      # a member of an enumeration: a token that only compares equal to itself
        if e.attr in ('value', 'data') and isinstance(self.ev(e.value), str):
            return self.ev(e.value)
        return OPQ

    def ev_NamedExpr(self, e):
        v = self.ev(e.value)
        self.bind(e.target, v, e)
        return v

    def ev_Tuple(self, e):
        return tuple(self.ev(x) for x in e.elts)

    ev_List = ev_Tuple

    def ev_GeneratorExp(self, e):
        """(f(x) for x in <tuple value or enumeration>): the tuple of its elements, in order (it is only ever consumed
        whole - tuple(), list(), np.array(), unpacking); anything else about it is OPQ"""
        if len(e.generators) != 1 or e.generators[0].is_async or not isinstance(e.generators[0].target, ast.Name):
            return OPQ
        g = e.generators[0]
        it = g.iter
        if isinstance(it, ast.Call) and call_name(it) in ('list', 'tuple', 'iter') and len(it.args) == 1 and not it.keywords:
            it = it.args[0]
        backwards = False
        while isinstance(it, ast.Call) and call_name(it) in ('reversed', 'list', 'tuple', 'iter') and len(it.args) == 1 and not it.keywords:
            backwards ^= call_name(it) == 'reversed'
            it = it.args[0]
        if isinstance(it, ast.Name) and it.id in self.enums and it.id not in self.env:
            items = tuple(f'{it.id}.{m}' for m in self.enums[it.id])
        else:
            items = self.ev(it)
        if not isinstance(items, tuple):
            return OPQ
        if backwards:
            items = items[::-1]
        name = g.target.id
        missing = object()
        saved = self.env.get(name, missing)
        out = []
        try:
            for x in items:
                self.env[name] = x
                keep = True
                for c in g.ifs:
                    t = self.truth(self.ev(c))
                    if t is OPQ:
                        return OPQ
                    keep = keep and t
                if keep:
                    out.append(self.ev(e.elt))
        finally:
            if saved is missing:
                self.env.pop(name, None)
            else:
                self.env[name] = saved
        return tuple(out)

    ev_ListComp = ev_GeneratorExp

    def ev_Subscript(self, e):
        if isinstance(e.value, ast.Name) and e.value.id in self.tables and e.value.id not in self.env:
            k = e.slice
            if isinstance(k, ast.Attribute) and k.attr in self.tables[e.value.id]:
                return self.tables[e.value.id][k.attr]
            kv = self.ev(k)
            if isinstance(kv, str) and kv.split('.')[-1] in self.tables[e.value.id]:
                return self.tables[e.value.id][kv.split('.')[-1]]
            return OPQ
        v = self.ev(e.value)
        if isinstance(v, tuple) and isinstance(e.slice, ast.Slice):
            bounds = [None if b_ is None else self.ev(b_) for b_ in (e.slice.lower, e.slice.upper, e.slice.step)]
            if all(b_ is None or (isinstance(b_, Fraction) and b_.denominator == 1) for b_ in bounds) and bounds[2] != 0:
                return v[slice(*(None if b_ is None else int(b_) for b_ in bounds))]
            return OPQ
        if isinstance(v, tuple):
            i = self.ev(e.slice)
            if isinstance(i, bool):
                return OPQ
            if isinstance(i, Fraction) and i.denominator == 1 and -len(v) <= i < len(v):
                return v[int(i)]
        if isinstance(v, ModeTable):
            k = self._mode_of(self.ev(e.slice))
            return OPQ if k is None else v.get(k, Fraction(0))
        return OPQ

    def _mode_of(self, v):
        """member name when v is a token of the ThrustMode enumeration"""
        if isinstance(v, str) and v.startswith('ThrustMode.') and v.split('.')[-1] in self.enums.get('ThrustMode', ()):
            return v.split('.')[-1]
        return None

    def ev_Dict(self, e):
        if None in e.keys:
            return OPQ
        ks = [self._mode_of(self.ev(k)) for k in e.keys]
        if e.keys and all(k is not None for k in ks) and len(set(ks)) == len(ks):
            return ModeTable(zip(ks, (self.ev(v) for v in e.values)))
        return OPQ

    def ev_UnaryOp(self, e):
        v = self.ev(e.operand)
        if isinstance(e.op, ast.Not):
            return (not v) if isinstance(v, bool) else (v == 0 if isinstance(v, Fraction) else OPQ)
        if isinstance(e.op, ast.Invert):
            return (not v) if isinstance(v, bool) else OPQ          # ~mask, element-wise
        if isinstance(v, bool):
            v = Fraction(int(v))
        if isinstance(v, Fraction):
            return -v if isinstance(e.op, ast.USub) else v if isinstance(e.op, ast.UAdd) else OPQ
        return OPQ

    def ev_BinOp(self, e):
        a, b = self.ev(e.left), self.ev(e.right)
        return self.arith(e.op, a, b, e)

    def arith(self, op, a, b, where):
        if isinstance(a, bool) and isinstance(b, bool) and isinstance(op, (ast.BitAnd, ast.BitOr, ast.BitXor)):
            return (a and b) if isinstance(op, ast.BitAnd) else (a or b) if isinstance(op, ast.BitOr) else (a != b)   # masks
        if isinstance(a, bool):
            a = Fraction(int(a))
        if isinstance(b, bool):
            b = Fraction(int(b))
        fa, fb = isinstance(a, Fraction), isinstance(b, Fraction)
        if fa and fb:
            if isinstance(op, ast.Add):
                return a + b
            if isinstance(op, ast.Sub):
                return a - b
            if isinstance(op, ast.Mult):
                return a * b
            if isinstance(op, ast.Div):
                if b == 0:
                    raise Undecidable(f'`{norm(where)[:60]}` divides by zero on this path')
                return a / b
            if isinstance(op, ast.Pow):
                if a == 10:
                    return Pos(b)
                if b.denominator == 1 and (a != 0 or b >= 0):
                    return a ** int(b)
            return OPQ
        if isinstance(a, Pos) and isinstance(b, Pos):
            if isinstance(op, ast.Mult):
                return Pos(a.log + b.log)
            if isinstance(op, ast.Div):
                return Pos(a.log - b.log)
            return OPQ
        if isinstance(a, Pos) and fb and isinstance(op, ast.Pow):
            return Pos(a.log * b)
        return OPQ

    def ev_Compare(self, e):
        left = self.ev(e.left)
        for op, c in zip(e.ops, e.comparators):
            right = self.ev(c)
            a, b = left, right
            if isinstance(a, Pos) and isinstance(b, Pos):
                a, b = a.log, b.log
            elif isinstance(a, Pos) and isinstance(b, Fraction) and b <= 0:
                a, b = Fraction(1), Fraction(0)
            elif isinstance(b, Pos) and isinstance(a, Fraction) and a <= 0:
                a, b = Fraction(0), Fraction(1)
            if isinstance(op, (ast.Is, ast.IsNot)) and (a is None or b is None) and a is not OPQ and b is not OPQ:
                r = (a is b) == isinstance(op, ast.Is)
            elif isinstance(a, str) and isinstance(b, str) and isinstance(op, (ast.Eq, ast.NotEq, ast.Is, ast.IsNot)):
                r = (a == b) == isinstance(op, (ast.Eq, ast.Is))
            elif isinstance(a, (Fraction, bool)) and isinstance(b, (Fraction, bool)):
                r = {ast.Eq: a == b, ast.NotEq: a != b, ast.Lt: a < b, ast.LtE: a <= b, ast.Gt: a > b,
                     ast.GtE: a >= b}.get(type(op), OPQ)
            else:
                r = OPQ
            if r is OPQ:
                return OPQ
            if not r:
                return False
            left = right
        return True

    def truth(self, v):
        if isinstance(v, bool):
            return v
        if isinstance(v, Fraction):
            return v != 0
        if v is None:
            return False
        if isinstance(v, Pos):
            return True
        return OPQ

    def ev_BoolOp(self, e):
        short = isinstance(e.op, ast.Or)
        last = OPQ
        for x in e.values:
            last = self.ev(x)
            t = self.truth(last)
            if t is OPQ:
                return OPQ
            if t is short:
                return last
        return last

    def ev_IfExp(self, e):
        t = self.truth(self.ev(e.test))
        if t is OPQ:
            return OPQ
        return self.ev(e.body if t else e.orelse)

    def ev_Call(self, e):
        f = call_name(e).split('.')[-1]
        if isinstance(e.func, ast.Attribute) and f in ('item', 'squeeze', 'copy') and not e.args:
            return self.ev(e.func.value)
        if isinstance(e.func, ast.Attribute) and f in ('astype', 'view') and len(e.args) == 1 and not e.keywords \
                and isinstance(self.ev(e.func.value), bool):
            # a mask counted as a number: True is 1, False is 0
            to = norm(e.args[0]).split('.')[-1].strip('\'"')
            b_ = self.ev(e.func.value)
            return b_ if to in ('bool', 'bool_') else Fraction(int(b_)) if to.startswith(('int', 'uint', 'float')) or to in ('int', 'float', 'intp') else OPQ
        if self.pointwise and isinstance(e.func, ast.Attribute) and f in ('as_array', 'astype', 'to_numpy', 'ravel', 'flatten') \
                and isinstance(self.ev(e.func.value), Fraction):
            return self.ev(e.func.value)
        if isinstance(e.func, ast.Attribute) and f == 'as_array' and not e.args and isinstance(e.func.value, ast.Name) \
                and e.func.value.id in self.tables and e.func.value.id not in self.env:
            return tuple(self.tables[e.func.value.id][m] for m in THRUST_MODES)   # enumeration order: C12-R6
        args = [self.ev(a.value) if isinstance(a, ast.Starred) else self.ev(a) for a in e.args]
        kw = {k.arg: self.ev(k.value) for k in e.keywords if k.arg}
        if any(k.arg is None for k in e.keywords):
            return OPQ
        if any(isinstance(a, ast.Starred) for a in e.args):
            # f(*t) with t a tuple of known length is f(t0, t1, ..)
            flat = []
            for a, v in zip(e.args, args):
                if isinstance(a, ast.Starred):
                    if not isinstance(v, tuple):
                        return OPQ
                    flat += list(v)
                else:
                    flat.append(v)
            args = flat
        decl = self.records.declared(e) if self.records is not None and not (isinstance(e.func, ast.Name) and e.func.id in self.env) else None
        if decl is not None:
            fs, props = decl[:2]
            names = [f_ for f_, _ in fs]
            if len(args) > len(names) or any(k not in names[len(args):] for k in kw):
                return OPQ
            vals = dict(zip(names, args))
            vals.update(kw)
            for f_, d_ in fs:
                if f_ not in vals:
                    if d_ is None:
                        return OPQ
                    saved, self.env = self.env, {}
                    try:
                        vals[f_] = self.ev(d_)
                    finally:
                        self.env = saved
            rv = RecVal(vals[f_] for f_ in names)
            rv.names, rv.props, rv.methods, rv.is_dataclass = names, props, decl[2], decl[3]
            return rv
        if self.records is not None and f == 'replace' and len(args) == 1 and isinstance(args[0], RecVal) and args[0].is_dataclass \
                and call_name(e).split('.')[0] not in self.env:
            return args[0].replaced(kw) or OPQ           # dataclasses.replace(record, field=value, ..)
        if self.records is not None and isinstance(e.func, ast.Attribute) and not (isinstance(e.func.value, ast.Name) and e.func.value.id not in self.env
                                                                                   and e.func.value.id not in self.tables):
            recv = self.ev(e.func.value)
            if isinstance(recv, RecVal):
                if f == '_replace' and not args and not recv.is_dataclass:
                    return recv.replaced(kw) or OPQ
                meth = recv.methods.get(f)
                if meth is None or self._depth >= 3:
                    return OPQ
                me_ = meth.args.args[0].arg
                if any(isinstance(x, ast.Attribute) and not isinstance(x.ctx, ast.Load) for x in ast.walk(meth)) or \
                        any(isinstance(x, ast.Name) and x.id == me_ and not isinstance(x.ctx, ast.Load) for x in ast.walk(meth)):
                    return OPQ                            # a method that changes its record is not a function of it
                return self.call_helper(meth, e, args, kw, receiver=recv)
        modes = self.enums.get('ThrustMode', ())
        if f == 'ThrustModeValues' and modes and f not in self.env and set(kw) <= {'mutable'}:
            # the repository's per-mode container built in place: four positional values in the order of the
            # enumeration, one array / tuple of four, or a {mode: value} display
            vals = args[0] if len(args) == 1 and isinstance(args[0], tuple) else tuple(args)
            if len(args) == 1 and isinstance(args[0], ModeTable):
                return ModeTable(args[0])
            if len(vals) == len(modes) and (len(args) == len(modes) or len(args) == 1):
                return ModeTable(zip(modes, vals))
            return OPQ
        if isinstance(e.func, ast.Attribute) and f in ('broadcast', 'as_array', 'copy', 'get') and isinstance(self.ev(e.func.value), ModeTable):
            tb = self.ev(e.func.value)
            if f == 'copy':
                return ModeTable(tb)
            if f == 'as_array' and not args:
                return tuple(tb.get(m_, Fraction(0)) for m_ in modes)       # enumeration order: C12-R6
            if f == 'broadcast' and len(args) == 1 and not kw:
                # element-wise: the value of the mode the point is in (C12-R6 checks the method)
                k = self._mode_of(args[0])
                if k is None:
                    return OPQ
                MODE_TABLE_USES.append(e)
                return tb.get(k, Fraction(0))
            return OPQ
        if isinstance(e.func, ast.Name) and e.func.id in self.helpers and e.func.id not in self.env and self._depth < 3:
            return self.call_helper(self.helpers[e.func.id], e, args, kw)
        num = lambda v: isinstance(v, Fraction)
        table = lambda v: isinstance(v, tuple) and len(v) >= 2 and all(num(x) for x in v)
        if isinstance(e.func, ast.Name):
            fobj = self.ev(e.func)
            if isinstance(fobj, Interp1d) and len(args) == 1 and num(args[0]) and not kw:
                return fobj(args[0])
        if f == 'interp' and len(args) + len(kw) >= 3:
            a = dict(zip(('x', 'xp', 'fp', 'left', 'right'), args))
            a.update(kw)
            if num(a.get('x')) and table(a.get('xp')) and table(a.get('fp')) and set(a) <= {'x', 'xp', 'fp', 'left', 'right'} \
                    and all(a.get(k) is None or num(a.get(k)) for k in ('left', 'right')):
                return _lin_interp(a['x'], a['xp'], a['fp'], a.get('left'), a.get('right'))
            return OPQ
        if f == 'interp1d' and len(args) >= 2 and table(args[0]) and table(args[1]):
            kind = args[2] if len(args) > 2 else kw.get('kind', 'linear')
            fill = kw.get('fill_value', None)
            be = kw.get('bounds_error', None)
            if kind != 'linear' or len(args) > 3 or not set(kw) <= {'kind', 'fill_value', 'bounds_error', 'assume_sorted', 'copy'}:
                return OPQ
            if fill == 'extrapolate':
                return Interp1d(args[0], args[1], True, None)
            if fill is None or be is True:
                return Interp1d(args[0], args[1], False, None)
            if num(fill) or (isinstance(fill, tuple) and len(fill) == 2 and all(num(x) for x in fill)):
                return Interp1d(args[0], args[1], False, fill)
            return OPQ
        if f in ('full_like', 'full', 'broadcast_to', 'tile') and len(args) >= 2:
            v = args[1] if f in ('full_like', 'full') else args[0]
            return v if num(v) or isinstance(v, (Pos, str)) else OPQ
        if f in ('zeros_like', 'ones_like') and len(args) >= 1:
            return Fraction(0 if f == 'zeros_like' else 1)
        if f == 'log10' and len(args) == 1 and isinstance(args[0], Pos):
            return args[0].log
        if f in ('log10', 'log', 'log2') and len(args) == 1 and isinstance(args[0], Fraction) and self.pointwise:
            self.log_args.append((e, args[0]))
            return OPQ
        if f == 'log10' and len(args) == 1 and isinstance(args[0], tuple) and all(isinstance(a, Pos) for a in args[0]):
            return tuple(a.log for a in args[0])
        if f in ('mean', 'average') and len(args) == 1 and isinstance(args[0], tuple) and args[0] and all(num(a) for a in args[0]):
            return sum(args[0]) / len(args[0])
        if f in ('sum', 'fsum') and len(args) == 1 and isinstance(args[0], tuple) and all(isinstance(a, (Fraction, bool)) for a in args[0]):
            return sum((Fraction(int(a)) if isinstance(a, bool) else a for a in args[0]), Fraction(0))
        if f == 'sqrt' and len(args) == 1 and isinstance(args[0], Pos):
            return Pos(args[0].log / 2)
        if f == 'power' and len(args) == 2:
            return self.arith(ast.Pow(), args[0], args[1], e)
        if f in self.NUM_FUNCS and len(args) == 1 and (num(args[0]) or isinstance(args[0], (Pos, bool))):
            return args[0]
        if f in ('abs', 'fabs', 'absolute') and len(args) == 1 and num(args[0]):
            return abs(args[0])
        if f in ('min', 'max', 'minimum', 'maximum', 'fmin', 'fmax') and len(args) >= 2 and all(num(a) for a in args):
            return (min if 'min' in f else max)(args)
        if f == 'clip' and len(args) + len(kw) == 3 and not (set(kw) - {'a_min', 'a_max', 'min', 'max'}):
            a = dict(zip(('a', 'lo', 'hi'), args))
            a.update({'lo' if k in ('a_min', 'min') else 'hi': v for k, v in kw.items()})
            if num(a.get('a')) and all(a.get(k) is None or num(a.get(k)) for k in ('lo', 'hi')):
                v = a['a']
                v = v if a.get('lo') is None else max(v, a['lo'])
                return v if a.get('hi') is None else min(v, a['hi'])
            return OPQ
        if f == 'sign' and len(args) == 1 and num(args[0]):
            return Fraction((args[0] > 0) - (args[0] < 0))
        if f == 'bool' and len(args) == 1:
            return self.truth(args[0])
        if f in ('isfinite',) and len(args) == 1 and num(args[0]):
            return True
        if f in ('isnan', 'isinf') and len(args) == 1 and num(args[0]):
            return False
        if f == 'where' and len(args) == 3:
            t = self.truth(args[0])
            return OPQ if t is OPQ else (args[1] if t else args[2])
        if f == 'select' and len(args) >= 2 and isinstance(args[0], tuple) and isinstance(args[1], tuple) \
                and len(args[0]) == len(args[1]):
            for c_, v_ in zip(args[0], args[1]):       # the first condition that holds selects
                t = self.truth(c_)
                if t is OPQ:
                    return OPQ
                if t:
                    return v_
            return args[2] if len(args) > 2 else kw.get('default', Fraction(0))
        if f in self.wrappers and len(args) == 1 and not kw:
            return args[0]                 # a one-field record around the data
        if f in ('array', 'asarray', 'list', 'tuple') and len(args) == 1 and isinstance(args[0], tuple):
            return args[0]
        if f in ('take', 'choose') and len(args) == 2 and not kw:
            tb, ix = (args[0], args[1]) if f == 'take' else (args[1], args[0])
            if isinstance(tb, tuple) and isinstance(ix, Fraction) and not isinstance(ix, bool) and ix.denominator == 1 and -len(tb) <= ix < len(tb) \
                    and (f == 'take' or ix >= 0):
                return tb[int(ix)]
            return OPQ
        if f == 'accumulate' and len(args) == 1 and not kw and table(args[0]) and call_name(e).split('.')[-2:-1] in (['maximum'], ['minimum'], ['fmax'], ['fmin']):
            pick_, acc = (max if 'max' in call_name(e).split('.')[-2] else min), []
            for x_ in args[0]:
                acc.append(x_ if not acc else pick_(acc[-1], x_))      # running maximum / minimum
            return tuple(acc)
        if f in ('sort', 'sorted') and len(args) == 1 and not kw and isinstance(args[0], tuple) and all(num(x_) for x_ in args[0]) \
                and not (isinstance(e.func, ast.Attribute) and not call_name(e).startswith(('np.', 'numpy.'))):
            return tuple(sorted(args[0]))
        if f in ('cumsum',) and len(args) == 1 and not kw and table(args[0]):
            return tuple(sum(args[0][:k_ + 1], Fraction(0)) for k_ in range(len(args[0])))
        if f in ('count_nonzero',) and len(args) == 1 and not kw and isinstance(args[0], tuple) and all(isinstance(x_, (bool, Fraction)) for x_ in args[0]):
            return Fraction(sum(1 for x_ in args[0] if x_))
        if f in ('digitize', 'searchsorted') and len(args) >= 2:
            x, bins = (args[0], args[1]) if f == 'digitize' else (args[1], args[0])
            right = args[2] if len(args) > 2 else kw.get('right', False) if f == 'digitize' else (kw.get('side', 'left') == 'left')
            if f == 'searchsorted' and isinstance(kw.get('side', None), _OpaqueValue):
                return OPQ
            if not (num(x) and isinstance(bins, tuple) and bins and all(num(b_) for b_ in bins) and isinstance(right, bool)):
                return OPQ
            inc = all(a_ <= b_ for a_, b_ in zip(bins, bins[1:]))
            dec = all(a_ >= b_ for a_, b_ in zip(bins, bins[1:]))
            if f == 'searchsorted' and not inc:
                raise Undecidable('np.searchsorted over thresholds that are not ascending has no defined result')
            if inc:      # numpy: bins[i-1] < x <= bins[i] (right) / bins[i-1] <= x < bins[i]
                return Fraction(sum(1 for b_ in bins if (b_ < x if right else b_ <= x)))
            if dec:      # numpy: bins[i-1] >= x > bins[i] (right) / bins[i-1] > x >= bins[i]; numbered from the top
                self.notes.append((e, 'np.digitize reads thresholds that are out of ascending order as *descending* bins and numbers them '
                                      'from the top, so the looked-up position runs backwards'))
                return Fraction(sum(1 for b_ in bins if (b_ >= x if right else b_ > x)))
            raise Undecidable('np.digitize needs monotonic bins (numpy raises ValueError otherwise)')
        if f in ('logical_and', 'logical_or') and len(args) == 2:
            a, b = self.truth(args[0]), self.truth(args[1])
            if a is OPQ or b is OPQ:
                return OPQ
            return (a and b) if f == 'logical_and' else (a or b)
        if f == 'logical_not' and len(args) == 1:
            t = self.truth(args[0])
            return OPQ if t is OPQ else not t
        if f == 'isclose' and len(args) >= 2 and num(args[0]) and num(args[1]):
            np_style = not call_name(e).startswith('math.')
            names = ('rtol', 'atol') if np_style else ('rel_tol', 'abs_tol')
            dfl = (Fraction(1, 10 ** 5), Fraction(1, 10 ** 8)) if np_style else (Fraction(1, 10 ** 9), Fraction(0))
            rtol = args[2] if len(args) > 2 and np_style else kw.get(names[0], dfl[0])
            atol = args[3] if len(args) > 3 and np_style else kw.get(names[1], dfl[1])
            if not (num(rtol) and num(atol)):
                return OPQ
            return _isclose(args[0], args[1], rtol, atol, np_style)
        return OPQ

    def call_helper(self, callee, e, args, kw, receiver=None):
        """receiver: the record a method is called on (bound to the method's first parameter)"""
        a = callee.args
        if a.vararg or a.kwarg or isinstance(callee, ast.AsyncFunctionDef):
            return OPQ
        names = [p_.arg for p_ in a.posonlyargs + a.args]
        if receiver is not None:
            me_, names = names[0], names[1:]
            if me_ in names or me_ in kw:
                return OPQ
        if len(args) > len(names) or any(k not in names + [p_.arg for p_ in a.kwonlyargs] for k in kw):
            return OPQ
        env = dict(zip(names, args))
        srcs = dict(zip(names, e.args))
        srcs.update({k.arg: k.value for k in e.keywords})
        env.update(kw)
        if receiver is not None:
            env[me_] = receiver
        pos = a.posonlyargs + a.args
        for p_, d in list(zip(pos[len(pos) - len(a.defaults):], a.defaults)) + [(p_, d) for p_, d in zip(a.kwonlyargs, a.kw_defaults) if d is not None]:
            if p_.arg not in env:
                saved, self.env = self.env, {}
                try:
                    env[p_.arg] = self.ev(d)
                finally:
                    self.env = saved
        # a per-mode table handed over by name is the same table under the callee's parameter name
        tables = {p_: self.tables[x.id] for p_, x in srcs.items() if isinstance(x, ast.Name) and x.id in self.tables and x.id not in self.env}
        for p_ in tables:
            env.pop(p_, None)
        sub = ScalarRun(callee, tables, self.consts, env=env, enums=self.enums, wrappers=self.wrappers, module_tree=self.module_tree,
                        helpers=self.helpers, pointwise=self.pointwise, _depth=self._depth + 1, records=self.records)
        sub.log_args = self.log_args
        sub.notes = self.notes
        sub.roles = self.roles
        sub.run()
        return sub.returned

    # -- statements ---------------------------------------------------------
    def bind(self, target, v, st):
        if isinstance(target, ast.Name):
            if self.snapshot is not None and target.id in self.tracked:
                raise Undecidable(f'`{target.id}` is rebound at line {st.lineno} after the evaluation points were '
                                  f'first classified with it (line {self.snap_line})')
            self.env[target.id] = v
        elif isinstance(target, (ast.Tuple, ast.List)):
            if isinstance(v, tuple) and len(v) == len(target.elts) and not any(isinstance(t, ast.Starred) for t in target.elts):
                for t, x in zip(target.elts, v):
                    self.bind(t, x, st)
            else:
                for t in target.elts:
                    self.bind(t.value if isinstance(t, ast.Starred) else t, OPQ, st)
        elif isinstance(target, ast.Subscript) and self.pointwise and isinstance(target.value, ast.Name) \
                and isinstance(self.env.get(target.value.id), Fraction):
            # element-wise view: `X[mask] = v` replaces the element where the mask holds for it
            mk = self.truth(self.ev(target.slice))
            if mk is OPQ:
                self.env[target.value.id] = OPQ
            elif mk:
                self.env[target.value.id] = v if isinstance(v, Fraction) else OPQ
        # any other store into a subscript / attribute changes an object, not a scalar of ours

    def cloud(self, stmts, st):
        """everything stored under a test (or loop) this input does not decide becomes unknown"""
        for s in stmts:
            for x in walk_no_nested(s):
                tg = []
                if isinstance(x, ast.Assign):
                    tg = x.targets
                elif isinstance(x, (ast.AugAssign, ast.AnnAssign, ast.For, ast.NamedExpr)):
                    tg = [x.target]
                elif isinstance(x, ast.withitem) and x.optional_vars is not None:
                    tg = [x.optional_vars]
                for t in tg:
                    for n in ast.walk(t):
                        if isinstance(n, ast.Name) and isinstance(n.ctx, ast.Store):
                            self.bind(n, OPQ, st)

    def note_use(self, expr, value, st):
        """the first array expression that reads one of the tracked scalars fixes the fit"""
        if self.roles is not None and value is OPQ and expr is not None:
            self.role_use(expr, st)
        if self.snapshot is None and value is OPQ and expr is not None:
            if any(isinstance(n, ast.Name) and isinstance(n.ctx, ast.Load) and n.id in self.tracked for n in ast.walk(expr)):
                self.snapshot = {k: self.env.get(k) for k in self.tracked}
                self.snap_line = getattr(st, 'lineno', 0)

    def _data_scalar(self, e):
        """the number `e` is here when it is a scalar of the certification data (not the same number whatever the data)"""
        v = self.ev(e)
        if not isinstance(v, Fraction):
            return None
        saved = self.env, self.tables
        self.env, self.tables = {}, {}
        try:
            bare = self.ev(e)
        except Undecidable:
            bare = OPQ
        finally:
            self.env, self.tables = saved
        return None if isinstance(bare, Fraction) else v

    def _affine(self, e, atoms):
        """`e` as a * L + b, L the one per-point quantity it reads (its spellings collected in `atoms`)"""
        v = self.ev(e)
        if isinstance(v, bool):
            v = Fraction(int(v))
        if isinstance(v, Fraction):
            return Fraction(0), v
        if v is not OPQ:
            raise Undecidable(f'`{norm(e)[:60]}` in the exponent of a fitted segment is not a number of the log-log plane')
        if isinstance(e, ast.BinOp) and isinstance(e.op, (ast.Add, ast.Sub, ast.Mult, ast.Div)):
            (la, lb), (ra, rb) = self._affine(e.left, atoms), self._affine(e.right, atoms)
            if isinstance(e.op, ast.Add):
                return la + ra, lb + rb
            if isinstance(e.op, ast.Sub):
                return la - ra, lb - rb
            if isinstance(e.op, ast.Mult):
                if la == 0:
                    return lb * ra, lb * rb
                if ra == 0:
                    return la * rb, lb * rb
            elif ra == 0 and rb != 0:
                return la / rb, lb / rb
            raise Undecidable(f'`{norm(e)[:60]}`: the exponent of a fitted segment is not a straight line in the per-point quantity')
        if isinstance(e, ast.UnaryOp) and isinstance(e.op, (ast.USub, ast.UAdd)):
            a, b = self._affine(e.operand, atoms)
            return (-a, -b) if isinstance(e.op, ast.USub) else (a, b)
        if isinstance(e, (ast.Name, ast.Subscript, ast.Attribute, ast.Call)):
            base = e
            while isinstance(base, ast.Subscript):
                base = base.value
            atoms.add(norm(base))
            return Fraction(1), Fraction(0)
        raise Undecidable(f'`{norm(e)[:60]}`: the exponent of a fitted segment is not a straight line in the per-point quantity')

    def role_use(self, expr, st):
        """The fit read off the per-point expressions by what each scalar *does* there, whatever carries it (a local, a
        field or position of a record, a tuple): a scalar of the certification data an order comparison holds a
        per-point quantity against is the break point; `10 ** e` with e such a scalar is the horizontal level; `10 ** e`
        with e = a * L + b, L per-point, is the slanted line of slope a and offset b."""
        for x in ast.walk(expr):
            if isinstance(x, ast.Compare) and len(x.ops) == 1 and isinstance(x.ops[0], (ast.Lt, ast.LtE, ast.Gt, ast.GtE)):
                l, r = x.left, x.comparators[0]
                for sc, other in ((l, r), (r, l)):
                    if self.ev(other) is OPQ:
                        v = self._data_scalar(sc)
                        if v is not None:
                            self.roles['breaks'].append((v, getattr(st, 'lineno', 0)))
            elif isinstance(x, ast.Call) and call_name(x).split('.')[-1] in ('less', 'less_equal', 'greater', 'greater_equal') \
                    and len(x.args) == 2 and not x.keywords:
                for sc, other in ((x.args[0], x.args[1]), (x.args[1], x.args[0])):
                    if self.ev(other) is OPQ:
                        v = self._data_scalar(sc)
                        if v is not None:
                            self.roles['breaks'].append((v, getattr(st, 'lineno', 0)))
            elif (isinstance(x, ast.BinOp) and isinstance(x.op, ast.Pow) and self.ev(x.left) == Fraction(10)) \
                    or (isinstance(x, ast.Call) and call_name(x).split('.')[-1] == 'power' and len(x.args) == 2 and not x.keywords
                        and self.ev(x.args[0]) == Fraction(10)):
                ex = x.right if isinstance(x, ast.BinOp) else x.args[1]
                v = self.ev(ex)
                if isinstance(v, Fraction):
                    if self._data_scalar(ex) is not None:
                        self.roles['levels'].append((v, getattr(st, 'lineno', 0)))
                elif v is OPQ:
                    atoms = set()
                    a, b = self._affine(ex, atoms)
                    if len(atoms) != 1:
                        raise Undecidable(f'the exponent `{norm(ex)[:60]}` reads {len(atoms)} per-point quantities')
                    self.roles['lines'].append(((a, b), getattr(st, 'lineno', 0)))

    def scan_uses(self, stmts):
        """statements that are not executed (their test or loop is not a scalar matter): what they read still counts"""
        for s in stmts:
            for x in walk_no_nested(s):
                if isinstance(x, ast.stmt):
                    for f_ in ('value', 'test', 'iter'):
                        v = getattr(x, f_, None)
                        if isinstance(v, ast.expr):
                            self.note_use(v, OPQ, x)

    def run(self):
        try:
            self.block(self.fn.body)
        except _EarlyExit:
            self.exited = True
        return self.snapshot

    def block(self, stmts):
        for st in stmts:
            self.stmt(st)

    def stmt(self, st):
        if isinstance(st, ast.Assign):
            v = self.ev(st.value)
            self.note_use(st.value, v, st)
            if self.roles is not None and v is not OPQ and any(isinstance(t, ast.Subscript) for t in st.targets):
                self.role_use(st.value, st)          # `A[mask] = 10 ** level`: a scalar written to the points
            for t in st.targets:
                self.bind(t, v, st)
        elif isinstance(st, ast.AnnAssign):
            if st.value is not None:
                v = self.ev(st.value)
                self.note_use(st.value, v, st)
                self.bind(st.target, v, st)
        elif isinstance(st, ast.AugAssign):
            if isinstance(st.target, ast.Name):
                v = self.arith(st.op, self.ev(ast.Name(st.target.id, ast.Load())), self.ev(st.value), st)
                self.note_use(st.value, v, st)
                self.bind(st.target, v, st)
            else:
                self.note_use(st.value, self.ev(st.value), st)
        elif isinstance(st, ast.If):
            t = self.truth(self.ev(st.test))
            if t is OPQ:
                self.note_use(st.test, OPQ, st)
                self.scan_uses(st.body + st.orelse)
                self.cloud(st.body + st.orelse, st)
            else:
                self.block(st.body if t else st.orelse)
        elif isinstance(st, (ast.Return, ast.Raise, ast.Continue, ast.Break)):
            if isinstance(st, ast.Return) and st.value is not None:
                self.returned = self.ev(st.value)
            raise _EarlyExit()
        elif isinstance(st, (ast.For, ast.While, ast.With, ast.Try, ast.Match)):
            self.scan_uses([st])
            self.cloud([st], st)
        elif isinstance(st, ast.Expr):
            if not isinstance(st.value, ast.Constant):
                self.note_use(st.value, self.ev(st.value), st)
        # assert / pass / nested definitions / imports / del: nothing a scalar depends on


HCCO_TRACKED = ('x_intercept', 'x_horzline', 'slope', 'base_log_fuel', 'base_log_EI')


def hcco_documented_fit(ei, ff, zero):
    """The BFFM2 HC/CO bilinear fit as documented (DuBois & Paynter 2006 / SAGE v1.5 rules, transcribed from the
    cited rule table, independently of the repository's control flow).  `ei`, `ff`: log10 of the certification
    indices / fuel flows per mode; `zero(x)`: the reading of "slope == 0".  Returns the fit as (break point, level,
    slope, value of the slanted line at log10 flow 0) and the rule that shaped it."""
    den = ff['APPROACH'] - ff['IDLE']
    s = Fraction(0) if zero(den) else (ei['APPROACH'] - ei['IDLE']) / den
    bf, be = ff['IDLE'], ei['IDLE']
    level = (ei['CLIMB'] + ei['TAKEOFF']) / 2
    x = ff['APPROACH'] if zero(s) else bf + (level - be) / s
    rule = 'none'
    if x > ff['CLIMB']:                                  # (a)
        x, rule = ff['CLIMB'], 'a'
    elif x < ff['APPROACH'] and s < 0:                   # (b)
        level, x, rule = ei['APPROACH'], ff['APPROACH'], 'b'
    elif s >= 0:                                         # (c)
        s, bf, be, x, rule = Fraction(0), Fraction(0), level, ff['APPROACH'], 'c'
    return (x, level, s, be - s * bf), rule


def hcco_grid(breaks):
    """Certification data (as log10 values) with one representative for every region of: slope against each break
    point, idle/approach flows equal / nearly equal / ordered / reversed, approach against climb flow, and the raw
    intersection of the two segments below / at / between / at / above the approach and climb flows.  Offsets are
    generic rationals so that two different fits never coincide by accident."""
    bs = sorted({abs(Fraction(b)) for b in breaks} | {Fraction(0)})
    svals = set()
    for i, b in enumerate(bs):
        svals |= {b, -b}
        nxt = bs[i + 1] if i + 1 < len(bs) else 2 * b + 1
        svals |= {(b + nxt) / 2, -(b + nxt) / 2}
    svals |= {2 * bs[-1] + 1 + Fraction(1, 3), -(2 * bs[-1] + 1 + Fraction(1, 3))}
    tiny = min([b for b in bs if b > 0] or [Fraction(1, 10 ** 8)]) / 2
    li, e_i = Fraction(3, 11), Fraction(5, 13)
    for den_label, den in (('', Fraction(1, 2) + Fraction(1, 17)), ('idle and approach flows equal', Fraction(0)),
                           ('idle and approach flows nearly equal', tiny), ('approach flow below idle flow', -Fraction(1, 2) - Fraction(1, 19))):
        la = li + den
        for ord_label, lc in (('', la + 1 + Fraction(1, 23)), ('climb flow below approach flow', la - 1 - Fraction(1, 29)),
                              ('climb and approach flows equal', la)):
            lo, hi = min(la, lc), max(la, lc)
            for s in sorted(svals):
                ea = e_i + s * den if den != 0 else e_i + Fraction(1, 3)
                for t_label, t in (('below', lo - Fraction(1, 2)), ('at-low', lo), ('between', (lo + hi) / 2),
                                   ('at-high', hi), ('above', hi + Fraction(1, 2))):
                    if t_label == 'between' and lo == hi:
                        continue
                    s_eff = (ea - e_i) / den if den != 0 else Fraction(0)
                    h = e_i + s_eff * (t - li) if s_eff != 0 else e_i + (t - li)
                    ei = {'IDLE': e_i, 'APPROACH': ea, 'CLIMB': h + Fraction(1, 7), 'TAKEOFF': h - Fraction(1, 7)}
                    ff = {'IDLE': li, 'APPROACH': la, 'CLIMB': lc, 'TAKEOFF': max(la, lc) + Fraction(1, 5)}
                    yield {'ei': ei, 'ff': ff, 's': s_eff, 't': t, 'la': la, 'lc': lc,
                           'special': [x for x in (den_label, ord_label) if x]}


def _describe_case(c, zero):
    s, t, la, lc = c['s'], c['t'], c['la'], c['lc']
    sl = 'zero slope' if s == 0 else ('slope within the zero tolerance' if zero(s) else
                                      ('positive idle→approach slope' if s > 0 else 'negative idle→approach slope'))
    if zero(s):
        pos = ''
    else:
        rel = []
        rel.append('above the climb flow' if t > lc else 'at the climb flow' if t == lc else 'below the climb flow')
        rel.append('below the approach flow' if t < la else 'at the approach flow' if t == la else 'above the approach flow')
        pos = ', segments intersecting ' + ' and '.join(rel)
    return sl + pos + (' [' + '; '.join(c['special']) + ']' if c['special'] else '')


def _fit_words(f):
    x, level, s, c0 = f
    return f'break point {float(x):.4g}, level {float(level):.4g}, slope {float(s):.4g}, line offset {float(c0):.4g}'


def hcco_breaks(fn, consts):
    """numeric literals the prelude compares with, and isclose tolerances: the break points the code itself introduces"""
    out = {Fraction(0), Fraction(1, 10 ** 8)}
    for x in walk_no_nested(fn):
        if isinstance(x, ast.Compare):
            for e in [x.left] + list(x.comparators):
                v = const_value(e)
                if isinstance(v, (int, float)) and not isinstance(v, bool):
                    out.add(abs(Fraction(repr(v))))
        elif isinstance(x, ast.Call) and call_name(x).split('.')[-1] == 'isclose':
            for e in list(x.args) + [k.value for k in x.keywords]:
                v = const_value(e)
                if isinstance(v, (int, float)) and not isinstance(v, bool):
                    out.add(abs(Fraction(repr(v))))
    return {b for b in out if b < 10 ** 6}


def hcco_evaluate(fn, consts, tables=('x_EI', 'ff_cal'), helpers=None, records=None):
    """Run the prelude of `fn` over the grid; returns (cases, regions hit by the documented rules, mismatches under the
    tolerance reading of "slope == 0", mismatches under the exact reading)."""
    breaks = hcco_breaks(fn, consts)
    results = {}
    n = 0
    for exact in (False, True):
        zero = (lambda v: v == 0) if exact else (lambda v: _isclose(v, Fraction(0), Fraction(1, 10 ** 5), Fraction(1, 10 ** 8)))
        bad, rules = [], set()
        n = 0
        for c in hcco_grid(breaks):
            n += 1
            want, rule = hcco_documented_fit(c['ei'], c['ff'], zero)
            rules.add(rule)
            run = ScalarRun(fn, {tables[0]: {k: Pos(v) for k, v in c['ei'].items()},
                                 tables[1]: {k: Pos(v) for k, v in c['ff'].items()}}, consts, HCCO_TRACKED, helpers=helpers,
                            enums={'ThrustMode': THRUST_MODES}, records=records)
            snap = run.run()
            if snap is None:
                # no per-point expression reads the five scalars under their documented names (they travel in a record,
                # a tuple, under other names): the fit is read off the per-point expressions by role instead
                run = ScalarRun(fn, run.tables, consts, (), helpers=helpers, enums={'ThrustMode': THRUST_MODES}, records=records)
                run.roles = {'breaks': [], 'levels': [], 'lines': []}
                run.run()
                seen = {k: sorted({v for v, _ in vs}) for k, vs in run.roles.items()}
                words = {'breaks': 'break point compared with the per-point flows', 'levels': 'horizontal level 10 ** e',
                         'lines': 'slanted line 10 ** (a * L + b)'}
                for k in ('breaks', 'levels', 'lines'):
                    if len(seen[k]) != 1:
                        raise Undecidable(f'the fit parameters {", ".join(HCCO_TRACKED)} are not read by name where the evaluation points '
                                          f'are classified, and the per-point expressions show {len(seen[k])} different values in the '
                                          f'role "{words[k]}" (lines {sorted({ln for _, ln in run.roles[k]})}) for: {_describe_case(c, zero)}')
                got = (seen['breaks'][0], seen['levels'][0]) + seen['lines'][0]
                if got != want:
                    bad.append((c, rule, want, got, zero))
                continue
            miss = [k for k in HCCO_TRACKED if not isinstance(snap.get(k), Fraction)]
            if miss:
                raise Undecidable(f'{", ".join(miss)} not a scalar of the certification data where the evaluation points '
                                  f'are classified (line {run.snap_line}) for: {_describe_case(c, zero)}')
            got = (snap['x_intercept'], snap['x_horzline'], snap['slope'],
                   snap['base_log_EI'] - snap['slope'] * snap['base_log_fuel'])
            if got != want:
                bad.append((c, rule, want, got, zero))
        results[exact] = (bad, rules)
        if not bad:
            break
    return n, results


def rule_hcco(ctx):
    prog = ctx.prog
    m = prog.module('emissions/ei/hcco.py')
    fi = m.func('EI_HCCO')
    H = REF.HCCO
    vis = visible_constants(prog, m)
    # the ambient factor: what is returned is the array of fitted indices times theta^3.3 / delta^1.02, at every point.
    # Read off the value itself: the returned expression with single-definition locals inlined, times every unguarded
    # whole-array scaling `A *= e` / `A /= e` of the array it is made of - `A *= factor; return A`, `return A * factor`,
    # `out = A * theta ** 3.3 / delta ** 1.02; return out` are the same value.
    rets = [r for r in walk_no_nested(fi.node) if isinstance(r, ast.Return) and r.value is not None]
    if len(rets) != 1:
        ctx.undecided('C12-R1', fi, 'HC/CO ambient factor', f'{len(rets)} return statements')
    arrays = {t.value.id for t, st, how in stores_to(fi.node) if isinstance(t, ast.Subscript) and isinstance(t.value, ast.Name)}
    from ..conform import _inline_env
    env_ = _inline_env(fi.node)

    def array_names(e, depth=0):
        out = set()
        for x in ast.walk(e):
            if isinstance(x, ast.Name):
                if x.id in arrays:
                    out.add(x.id)
                elif x.id in env_ and depth < 8:
                    out |= array_names(env_[x.id], depth + 1)
        return out
    arr = array_names(rets[0].value)
    if len(arr) != 1:
        ctx.undecided('C12-R1', fi, 'HC/CO ambient factor', f'the returned value is built from {sorted(arr) or "no"} element-wise filled array(s)')
    A = arr.pop()
    # Everything that happens to the returned array after it is filled, read by value (locals through their reaching
    # definitions, the module's own helpers opened, constants folded):
    #   whole-array scalings  `A *= f`, `A = A * f`, `return A * f`           -> the ambient factor
    #   masked corrections    `A[M] = g(A[M])`, `A[M] *= f`, `A *= np.where(M, f, 1)`, `A = np.where(M, g(A), A)`
    #                                                                          -> the ACRP low-thrust rule
    vc = ValueCase(fi.node, module_tree=m.tree, opener=same_module_opener(m), records=record_classes(prog, m))
    p_ff = fi.params[0] if fi.params else None
    IDLE_FLOW = 'ff_cal[ThrustMode.IDLE]'

    def val(e, st):
        at = vc.node_of(st)
        if at is None:
            return None
        try:
            return vc.resolve(e, at, stop=(A,), quiet=True)
        except Undecidable as ex:
            ctx.undecided('C12-R1', fi, norm(e)[:40], str(ex))

    def where3(e):
        return e.args if isinstance(e, ast.Call) and call_name(e).split('.')[-1] == 'where' and len(e.args) == 3 and not e.keywords else None

    def is_one(e):
        return isinstance(e, ast.Constant) and not isinstance(e.value, bool) and e.value == 1

    class _At(ast.NodeTransformer):
        """values at the masked points: A[M] -> XEI, ff[M] -> FF (M the mask of the correction, or the whole array)"""
        def __init__(self, mask):
            self.mask = norm(mask) if mask is not None else None

        def visit_Subscript(self, n):
            if self.mask is not None and norm(n.slice) == self.mask and isinstance(n.value, ast.Name) and n.value.id in (A, p_ff):
                return ast.copy_location(ast.Name('XEI' if n.value.id == A else 'FF', ast.Load()), n)
            return self.generic_visit(n)

        def visit_Name(self, n):
            if self.mask is None and n.id in (A, p_ff):
                return ast.copy_location(ast.Name('XEI' if n.id == A else 'FF', ast.Load()), n)
            return n
    def nan_to_zero(t, st):
        """`A[np.isnan(A)] = 0`: commutes with every scaling (0·f = 0, NaN·f = NaN), before or after it"""
        return isinstance(t.slice, ast.Call) and call_name(t.slice).split('.')[-1] == 'isnan' and len(t.slice.args) == 1 \
            and norm(t.slice.args[0]) == A and isinstance(st.value, ast.Constant) and st.value.value == 0 and not isinstance(st.value.value, bool)
    total = val(rets[0].value, rets[0])
    partial = None
    corrections = []          # (mask, new value over XEI / FF, statement)
    fills = []                # (statement, resolved value) of element-wise assignments that do not read the array
    for t, st, how in stores_to(fi.node):
        if vc.node_of(st) is None:
            continue
        if isinstance(t, ast.Name) and t.id == A and how == 'aug':
            if not isinstance(st.op, (ast.Mult, ast.Div)):
                ctx.undecided('C12-R1', fi, 'HC/CO ambient factor', f'`{norm(st)[:60]}` changes the whole array other than by scaling')
            f = val(st.value, st)
            w = where3(f)
            if w is not None and isinstance(st.op, ast.Mult) and is_one(w[2]) and A not in loaded_names(f):
                corrections.append((w[0], ast.BinOp(ast.Name('XEI', ast.Load()), ast.Mult(), _At(None).visit(_cp(w[1]))), st))
                continue
            if any(where3(x) is not None for x in ast.walk(f)) or A in loaded_names(f):
                ctx.undecided('C12-R1', fi, 'HC/CO ambient factor', f'`{norm(st)[:60]}`: a scaling that is itself a selection between points')
            later = [s2 for t2, s2, h2 in stores_to(fi.node) if isinstance(t2, ast.Subscript) and norm(t2.value) == A and h2 == 'assign'
                     and s2.lineno > st.lineno and A not in loaded_names(s2.value) and not nan_to_zero(t2, s2)]
            if guards_of(st) or later:
                partial = st
            total = ast.copy_location(ast.BinOp(left=total, op=st.op, right=f), st)
        elif isinstance(t, ast.Name) and t.id == A and how in ('assign', 'ann') and A in loaded_names(st.value):
            f = val(st.value, st)
            w = where3(f)
            if w is not None and isinstance(w[2], ast.Name) and w[2].id == A:
                corrections.append((w[0], _At(None).visit(_cp(w[1])), st))
            else:
                ctx.undecided('C12-R1', fi, 'HC/CO ambient factor', f'`{norm(st)[:60]}` rebinds the returned array from itself')
        elif isinstance(t, ast.Subscript) and isinstance(t.value, ast.Name) and t.value.id == A:
            mask = val(t.slice, st)
            v = val(st.value, st)
            if how == 'aug':
                corrections.append((mask, ast.BinOp(ast.Name('XEI', ast.Load()), st.op, _At(mask).visit(_cp(v))), st))
            elif A in loaded_names(v) and not (isinstance(mask, ast.Call) and A in loaded_names(mask) and isinstance(v, ast.Constant)):
                corrections.append((mask, _At(mask).visit(_cp(v)), st))
            elif not nan_to_zero(t, st):
                if A in loaded_names(mask):
                    ctx.undecided('C12-R1', fi, 'HC/CO element-wise assignments', f'`{norm(st)[:60]}` selects points by the values already in the array')
                fills.append((st, v, mask))
    ok = partial is None
    ctx.ob('C12-R1', fi, 'ambient factor multiplies every point', ok, 'whole-array scaling, after the last element-wise assignment' if ok else
           'the ambient factor is not applied to the whole array', line=(partial or rets[0]).lineno)
    _cmp(ctx, 'C12-R1', fi, 'HC/CO ambient factor', total, 'XEI * (' + H['factor'] + ')', vis, rename={A: 'XEI'}, line=rets[0].lineno)
    # the ACRP low-thrust rule: the one correction of the values already in the array, below idle fuel flow
    if not corrections:
        reads_idle = False
        for st, v, mask in fills:
            for e in (v, mask):
                logs = {id(y) for x in ast.walk(e) if isinstance(x, ast.Call) and call_name(x).split('.')[-1] in ('log10', 'log')
                        for y in ast.walk(x)}
                reads_idle = reads_idle or any(isinstance(x, ast.Subscript) and norm(x) == IDLE_FLOW and id(x) not in logs for x in ast.walk(e))
        if reads_idle:
            ctx.undecided('C12-R1', fi, 'ACRP low-thrust correction', 'no correction of the filled array found, but the idle fuel flow enters the values written')
        ctx.ob('C12-R1', fi, 'ACRP low-thrust correction', False,
               'nothing written to the returned array reads the idle calibration fuel flow itself: the documented low-thrust rule '
               'xEI·(1 − 52·(ff − ff_idle)) below idle fuel flow is not applied', line=rets[0].lineno)
    elif len(corrections) > 1:
        ctx.undecided('C12-R1', fi, 'ACRP low-thrust correction', f'{len(corrections)} corrections of values already in the returned array '
                      f'(lines {[c[2].lineno for c in corrections]})')
    else:
        mask, newv, st = corrections[0]
        if A in loaded_names(newv) or p_ff in loaded_names(newv):
            ctx.undecided('C12-R1', fi, 'ACRP low-thrust correction', f'`{norm(st)[:60]}` reads the array or the fuel flows at other points than those it corrects')
        _cmp(ctx, 'C12-R1', fi, 'ACRP low-thrust correction', newv, H['acrp'], vis, rename={IDLE_FLOW: 'FF_IDLE'}, stop=('XEI', 'FF'), line=st.lineno)
        # below idle: ff < ff_idle; at ff == ff_idle the factor is exactly 1, so `<=` selects the same values
        cm = mask
        if isinstance(cm, ast.Call) and call_name(cm).split('.')[-1] in ('less', 'less_equal', 'greater', 'greater_equal') and len(cm.args) == 2:
            op = {'less': ast.Lt, 'less_equal': ast.LtE, 'greater': ast.Gt, 'greater_equal': ast.GtE}[call_name(cm).split('.')[-1]]
            cm = ast.Compare(cm.args[0], [op()], [cm.args[1]])
        okm, whym = None, ''
        if isinstance(cm, ast.Compare) and len(cm.ops) == 1:
            l, op, r = cm.left, type(cm.ops[0]), cm.comparators[0]
            if op in (ast.Gt, ast.GtE):
                l, op, r = r, {ast.Gt: ast.Lt, ast.GtE: ast.LtE}[op], l
            if op in (ast.Lt, ast.LtE) and norm(l) == p_ff and norm(r) == IDLE_FLOW:
                okm = True
            elif norm(l) == p_ff or norm(r) == p_ff or IDLE_FLOW in (norm(l), norm(r)):
                okm, whym = False, f'the correction is applied where `{norm(cm)[:60]}`, not below the idle fuel flow'
        if okm is None:
            ctx.undecided('C12-R1', fi, 'ACRP low-thrust correction', f'mask `{norm(mask)[:60]}` is not a comparison of the fuel flow with the idle flow')
        ctx.ob('C12-R1', fi, 'low-thrust rule applies below idle fuel flow', okm, norm(cm) if okm else whym, line=st.lineno)
        later = [s2 for s2, v2, m2 in fills if s2.lineno > st.lineno]
        ctx.ob('C12-R1', fi, 'low-thrust rule applied to the fitted values', not later, 'after the last element-wise assignment' if not later else
               f'values are written into the array (line {later[0].lineno}) after the low-thrust correction: it is lost at those points',
               line=st.lineno, nontrivial=False)
    ren = {f'x_EI[ThrustMode.{k}]': f'EI_{k}' for k in ('IDLE', 'APPROACH', 'CLIMB', 'TAKEOFF')}
    ren.update({f'ff_cal[ThrustMode.{k}]': f'FF_{k}' for k in ('IDLE', 'APPROACH', 'CLIMB', 'TAKEOFF')})
    # the straight-line pieces of the prelude, each read where it is computed: names are followed to the definition that
    # reaches the statement (base_log_fuel, base_log_EI are rebound by the flatten rule), through records and per-mode
    # tuples that only carry the logarithms (`logs = tuple(np.log10(x[m]) for m in ThrustMode)`, `logs[2]`)
    vcp = ValueCase(fi.node, module_tree=m.tree, opener=same_module_opener(m), records=record_classes(prog, m),
                    enums={'ThrustMode': THRUST_MODES})

    def where_computed(name, stop=()):
        sts = [s for t, s, how in stores_to(fi.node) if isinstance(t, ast.Name) and t.id == name and how in ('assign', 'ann')
               and getattr(s, 'value', None) is not None]
        if not sts:
            return None
        at = vcp.node_of(sts[0])
        if at is None:
            return sts[0].value
        try:
            return ast.copy_location(vcp.resolve(sts[0].value, at, stop=stop, quiet=True), sts[0].value)
        except Undecidable:
            return sts[0].value
    hz = where_computed('x_horzline')
    if hz is None:
        ctx.undecided('C12-R1', fi, 'horizontal level', 'no assignment to x_horzline')
    _cmp(ctx, 'C12-R1', fi, 'horizontal level', hz, H['x_horzline'], {}, rename=ren)
    if single_def_value(fi.node, 'numerator') is not None:
        _cmp(ctx, 'C12-R1', fi, 'intercept numerator', where_computed('numerator', stop=('slope',)), H['x_intercept_num'], {},
             rename=ren, stop=('slope',))
    if single_def_value(fi.node, 'slope_num') is not None and single_def_value(fi.node, 'slope_den') is not None:
        _cmp(ctx, 'C12-R1', fi, 'slope numerator', where_computed('slope_num'), 'log10(EI_APPROACH) - log10(EI_IDLE)', {}, rename=ren)
        _cmp(ctx, 'C12-R1', fi, 'slope denominator', where_computed('slope_den'), 'log10(FF_APPROACH) - log10(FF_IDLE)', {}, rename=ren)
    # R5: the clamping rules, decided by running the scalar prelude over every sign / position case
    for label, src, expect_bad in (('documented chain', HCCO_CONTROL, False), ('flatten rule tested first', HCCO_CONTROL_REORDERED, True)):
        cfn = ast.parse(src).body[0]
        _, cres = hcco_evaluate(cfn, {})
        cbad = cres[False][0]
        hit = bool(cbad) and any(r == 'a' and c['s'] > 0 for c, r, *_ in cbad)
        ctx.control('C12-R5', hit if expect_bad else not cbad, f'embedded HC/CO prelude ({label}) is '
                    + ('refused in the region of rule (a) with a positive slope' if expect_bad else 'accepted in every region'))
    try:
        ncases, res = hcco_evaluate(fi.node, vis, helpers={k: v for k, v in plain_functions(m).items() if v is not fi.node},
                                    records=record_classes(prog, m))
    except Undecidable as ex:
        ctx.undecided('C12-R5', fi, 'HC/CO clamping rules', str(ex))
    bad, regions = res[False]
    ctx.floor('C12-R5', len(regions), 4, 'regions of the documented rule table (a) (b) (c) none reached by the case grid')
    if bad and True in res and not res[True][0]:
        bad = []          # "slope == 0" read exactly instead of within np.isclose's tolerance: the documented wording
    chain_line = min([x.lineno for x in walk_no_nested(fi.node) if isinstance(x, ast.If)
                      and any(isinstance(n_, ast.Name) and n_.id in HCCO_TRACKED for n_ in ast.walk(x.test))] or [fi.node.lineno])
    ctx.stats['C12-R5 cases'] = ncases
    if not bad:
        ctx.ob('C12-R5', fi, 'HC/CO clamping rules (a) (b) (c) over slope sign x intercept position', True,
               f'the fit parameters equal the documented rule table in all {ncases} sign / position cases '
               '((a) clamp to climb flow, else (b) below approach with negative slope, else (c) non-negative slope)',
               line=chain_line)
    else:
        plain = [b for b in bad if not b[0]['special'] and not b[4](b[0]['s'])] or [b for b in bad if not b[0]['special']] or bad
        c, rule, want, got, zero = plain[0]
        names = {'a': '(a) intercept above the climb flow: clamp the break point to the climb flow',
                 'b': '(b) intercept below the approach flow with negative slope: level := approach EI, break point := approach flow',
                 'c': '(c) non-negative slope: flat fit at the high-power level', 'none': 'no clamping rule applies'}
        # which certification number the code's fit sits on where the documented one does not (a clamp to the wrong mode)
        hint = []
        for i_, (label_, src_) in enumerate((('break point', 'ff'), ('level', 'ei'))):
            if got[i_] != want[i_]:
                on = [k for k, v in c[src_].items() if v == got[i_]]
                was = [k for k, v in c[src_].items() if v == want[i_]]
                if on and rule != 'none':
                    hint.append(f"the code's {label_} is the {on[0]} calibration {'flow' if src_ == 'ff' else 'index'}"
                                + (f', documented the {was[0]} one' if was else ''))
        ctx.ob('C12-R5', fi, 'HC/CO clamping rules (a) (b) (c) over slope sign x intercept position', False,
               f'the fit does not follow the documented clamping rules (a) (b) (c), applied in that order: for {_describe_case(c, zero)} '
               f'the rule table says {names[rule]} -> {_fit_words(want)}; the code yields {_fit_words(got)}'
               + (' [' + '; '.join(hint) + ']' if hint else '') +
               f' ({len(bad)} of {ncases} cases differ)', line=chain_line)


HCCO_CONTROL = '''
def control(ff_eval, x_EI, ff_cal):
    slope_den = np.log10(ff_cal[ThrustMode.APPROACH]) - np.log10(ff_cal[ThrustMode.IDLE])
    if np.isclose(slope_den, 0.0):
        slope = 0.0
    else:
        slope = (np.log10(x_EI[ThrustMode.APPROACH]) - np.log10(x_EI[ThrustMode.IDLE])) / slope_den
    base_log_fuel = np.log10(ff_cal[ThrustMode.IDLE])
    base_log_EI = np.log10(x_EI[ThrustMode.IDLE])
    x_horzline = 0.5 * (np.log10(x_EI[ThrustMode.CLIMB]) + np.log10(x_EI[ThrustMode.TAKEOFF]))
    if np.isclose(slope, 0.0):
        x_intercept = np.log10(ff_cal[ThrustMode.APPROACH])
    else:
        x_intercept = base_log_fuel + (x_horzline - base_log_EI) / slope
    if x_intercept > np.log10(ff_cal[ThrustMode.CLIMB]):
        x_intercept = np.log10(ff_cal[ThrustMode.CLIMB])
    elif x_intercept < np.log10(ff_cal[ThrustMode.APPROACH]) and slope < 0.0:
        x_horzline = np.log10(x_EI[ThrustMode.APPROACH])
        x_intercept = np.log10(ff_cal[ThrustMode.APPROACH])
    elif slope >= 0.0:
        slope, base_log_fuel, base_log_EI = 0.0, 0.0, x_horzline
        x_intercept = np.log10(ff_cal[ThrustMode.APPROACH])
    lower = np.log10(ff_eval) < x_intercept
    return np.where(lower, 10.0 ** (slope * (np.log10(ff_eval) - base_log_fuel) + base_log_EI), 10.0 ** x_horzline)
'''
HCCO_CONTROL_REORDERED = HCCO_CONTROL.replace('    if x_intercept > np.log10(ff_cal[ThrustMode.CLIMB]):', '    if slope >= 0.0:\n'
    '        slope, base_log_fuel, base_log_EI = 0.0, 0.0, x_horzline\n        x_intercept = np.log10(ff_cal[ThrustMode.APPROACH])\n'
    '    elif x_intercept > np.log10(ff_cal[ThrustMode.CLIMB]):')


def rule_sox(ctx):
    prog = ctx.prog
    m = prog.module('emissions/ei/sox.py')
    fi = m.func('EI_SOx')
    consts = module_constants(m)
    for k, v in REF.SOX['MW'].items():
        ok = consts.get(k) == Fraction(repr(v))
        ctx.ob('C12-R1', (m.relpath, '<module>'), f'{k} = {float(consts.get(k, 0))}', ok, 'molecular weight' if ok else f'{k} ≠ {v}', nontrivial=False)
    ren = {'fuel.fuel_sulfur_content_nom': 'FSC', 'fuel.sulfate_yield_nom': 'EPS'}
    # read off the record returned: each field followed back to one expression over the fuel's sulfur content and
    # sulfate yield (locals, the module's own helpers, constants), whatever the intermediate names
    vc = ValueCase(fi.node, module_tree=m.tree, opener=same_module_opener(m), records=record_classes(prog, m))
    rets = [n for n in walk_no_nested(fi.node) if isinstance(n, ast.Return) and n.value is not None]
    # the return that builds the record is the computed result (a return that hands out a stored record is T-MEMO's business)
    built = [(r, record_fields(prog, m, vc, r)) for r in rets if vc.node_of(r) is not None]
    built = [(r, fa) for r, fa in built if set(fa[0]) >= {'EI_SOx', 'EI_SO2', 'EI_SO4'}]
    if len(built) != 1:
        ctx.undecided('C12-R1', fi, 'EI_SO2/EI_SO4', f'{len(built)} return statements build a record with the fields EI_SOx, EI_SO2, EI_SO4')
    rets = [built[0][0]]
    fields_, at = built[0][1]
    try:
        vals = {}
        for k in ('EI_SOx', 'EI_SO2', 'EI_SO4'):
            vc.unresolved = set()
            vals[k] = vc.resolve(fields_[k], at)
            if vc.unresolved:
                ctx.undecided('C12-R1', fi, k, f'{sorted(vc.unresolved)} have several definitions reaching the return')
    except Undecidable as ex:
        ctx.undecided('C12-R1', fi, 'EI_SO2/EI_SO4', str(ex))
    d2, d4 = vals['EI_SO2'], vals['EI_SO4']
    _cmp(ctx, 'C12-R1', fi, 'EI_SO2', d2, REF.SOX['EI_SO2'], consts, rename=ren, line=rets[0].lineno)
    _cmp(ctx, 'C12-R1', fi, 'EI_SO4', d4, REF.SOX['EI_SO4'], consts, rename=ren, line=rets[0].lineno)
    try:
        a = nf_code(fi.node, d2, consts, rename=ren)
        b = nf_code(fi.node, d4, consts, rename=ren)
        mw2 = normal_form(ast.Name('MW_SO2', ast.Load()), {}, consts)
        mw4 = normal_form(ast.Name('MW_SO4', ast.Load()), {}, consts)
        s = ref_normal_form('FSC / 1.0e6 * 1.0e3 / 32.0', {})
        ok = poly_equal(a / mw2 + b / mw4, s)
    except AlgebraError as e:
        ctx.undecided('C12-R3', fi, 'sulfur balance', str(e))
    ctx.ob('C12-R3', fi, 'EI_SO2/MW_SO2 + EI_SO4/MW_SO4 ≡ S·10³/MW_S', ok,
           'sulfur atoms conserved identically in the sulfate yield' if ok else 'sulfur atoms are not conserved')
    try:
        got = {k: nf_code(fi.node, vals[k], consts, rename=ren) for k in ('EI_SOx', 'EI_SO2', 'EI_SO4')}
        ok = poly_equal(got['EI_SOx'], a + b) and poly_equal(got['EI_SO2'], a) and poly_equal(got['EI_SO4'], b)
    except AlgebraError as e:
        ctx.undecided('C12-R3', fi, 'result fields', str(e))
    ctx.ob('C12-R3', fi, f'result {({k: norm(v)[:30] for k, v in fields_.items()})}', ok, 'SOx = SO2 + SO4, fields carry their own values' if ok else
           'SOx is not SO2 + SO4 or the result fields are crossed')
    lin = all(dict(mm).get('FSC', 0) == 1 for mm in a.num) and all(dict(mm).get('FSC', 0) == 1 for mm in b.num)
    ctx.ob('C12-R3', fi, 'SOx indices linear in fuel sulfur content', lin, 'degree 1' if lin else 'not proportional to sulfur content')


def rule_pm(ctx):
    prog = ctx.prog
    m = prog.module('emissions/ei/pmvol.py')
    # Both volatile-PM routines are element-wise functions of their arguments: they are run for single points (exact
    # arithmetic, np.interp / interp1d / np.where on scalars, tables written in the function or at module level) and
    # the two values returned are compared with the documented method at that point.
    vis = visible_constants(prog, m)
    f3 = m.func('EI_PMvol_FOA3')
    if len(f3.params) != 2:
        ctx.undecided('C12-R1', f3, 'parameters', 'expected (thrust percentages, HC index)')
    thr_t = [Fraction(repr(v)) for v in REF.FOA3['thrust']]
    dl_t = [Fraction(repr(v)) for v in REF.FOA3['delta']]
    bad = None
    lin = True
    n = 0
    try:
        for thr in (0, 3, 7, Fraction(37, 2), 30, 50, 85, Fraction(185, 2), 100, 120):
            vals = []
            for hc in (Fraction(2), Fraction(4)):
                run = ScalarRun(f3.node, {}, vis, env={f3.params[0]: Fraction(thr), f3.params[1]: hc}, module_tree=m.tree)
                run.run()
                got = run.returned
                if not (isinstance(got, tuple) and len(got) == 2 and all(isinstance(x, Fraction) for x in got)):
                    raise Undecidable(f'at thrust {float(thr):g} % the result is {got!r}, not two numbers computed from the arguments')
                vals.append(got)
                n += 1
                want = _lin_interp(Fraction(thr), thr_t, dl_t) * hc / 1000
                if got != (want, want) and bad is None:
                    bad = (thr, hc, want, got)
            lin = lin and vals[1] == tuple(2 * x for x in vals[0])
    except Undecidable as ex:
        ctx.undecided('C12-R1', f3, 'FOA3 PMvol', str(ex))
    ctx.floor('C12-R1/foa3', n, 20, 'FOA3 evaluation points')
    ok = bad is None
    ctx.ob('C12-R1', f3, 'FOA3 PMvol = δ(thrust %) · EI_HC / 1000, δ interpolated in the FOA3 table and held at its ends', ok,
           f'equal at all {n} points (below, at, between and above the 7 / 30 / 85 / 100 % table entries)' if ok else
           f'at thrust {float(bad[0]):g} % and EI_HC {float(bad[1]):g} g/kg the method gives {float(bad[2]):.6g}, the code {tuple(float(x) for x in bad[3])}')
    ctx.ob('C12-R3', f3, 'FOA3 PMvol linear in the HC index', lin, 'doubling EI_HC doubles the result' if lin else 'not proportional to the HC index')
    ff = m.func('EI_PMvol_FuelFlow')
    P = REF.PMVOL_FF
    if len(ff.params) != 2:
        ctx.undecided('C12-R1', ff, 'parameters', 'expected (fuel flow, thrust modes)')
    bad = None
    n = 0
    try:
        for mode in THRUST_MODES:
            run = ScalarRun(ff.node, {}, vis, env={ff.params[1]: f'ThrustMode.{mode}'}, enums={'ThrustMode': THRUST_MODES}, module_tree=m.tree)
            run.run()
            got = run.returned
            if not (isinstance(got, tuple) and len(got) == 2 and all(isinstance(x, Fraction) for x in got)):
                raise Undecidable(f'for mode {mode} the result is {got!r}, not two numbers')
            n += 1
            oc = Fraction(repr(P['OCic']))
            lube = Fraction(repr(P['lube_low'] if mode == 'IDLE' else P['lube_high']))
            want = (oc / (1 - lube), oc)
            if got != want and bad is None:
                bad = (mode, want, got)
    except Undecidable as ex:
        ctx.undecided('C12-R1', ff, 'fuel-flow PMvol', str(ex))
    ctx.floor('C12-R1/pmvol-ff', n, 4, 'thrust modes evaluated')
    ok = bad is None
    ctx.ob('C12-R1', ff, 'fuel-flow PMvol = OC_ic / (1 − lube share): 15 % at idle, 50 % above; OC_ic = 20 mg/kg', ok,
           'equal for every thrust mode' if ok else
           f'for mode {bad[0]} the method gives (PMvol, OCic) = {tuple(float(x) for x in bad[1])}, the code {tuple(float(x) for x in bad[2])}')
    # SCOPE11
    m2 = prog.module('emissions/ei/pmnvol.py')
    sc = m2.func('calculate_PMnvolEI_scope11')
    S = REF.SCOPE11
    defs = {}
    for t, st, how in stores_to(sc.node):
        if how == 'assign':
            defs.setdefault(norm(t), []).append(st)
    cb = defs.get('CBC_i', [])
    if len(cb) != 1:
        ctx.undecided('C12-R1', sc, 'CBC_i', f'{len(cb)} definitions')
    _cmp(ctx, 'C12-R1', sc, 'SCOPE11 C_BC', cb[0].value, S['C_BC'], {}, stop=('SN',))
    # k_slm and Q have one published formula per engine type.  Which formula the code uses for an engine type is decided
    # by *running the dispatch for that value* (ValueCase): if/elif/else, guard clauses, match/case, conditional
    # expressions and dict look-ups keyed by the engine type all select the same way.
    var = 'engine_type'
    if var not in sc.params:
        ctx.undecided('C12-R1', sc, var, 'SCOPE11 no longer takes the engine type as a parameter')
    n = 0
    keep = ('CBC_i', 'AFR', 'SN')
    for val, ki, qi in (('MTF', 'kslm_mtf', 'Q_mtf'), ('TF', 'kslm_tf', 'Q_tf')):
        try:
            vc = ValueCase(sc.node, var, val, m2.tree)
            todo = []
            for target, ref, what in (('kslm', S[ki], 'k_slm'), ('Q[mode]', S[qi], 'Q')):
                for st in vc.defs(target):
                    vc.unresolved = set()
                    e = vc.resolve(st.value, vc.node_of(st), stop=keep)
                    if vc.unresolved:
                        ctx.undecided('C12-R1', sc, f'{target} for {var} == {val!r}',
                                      f'{sorted(vc.unresolved)} have several definitions reaching `{norm(st)[:60]}`')
                    todo.append((what, e, ref, st))
        except Undecidable as ex:
            ctx.undecided('C12-R1', sc, f'dispatch on {var} == {val!r}', str(ex))
        for what, e, ref, st in todo:
            n += 1
            _cmp(ctx, 'C12-R1', sc, f'SCOPE11 {what} ({val})', e, ref, {},
                 rename={'CBC_i': 'CBC', 'BP_Ratio': 'BPR', 'AFR[mode]': 'AFR'}, stop=keep, line=st.lineno)
    ctx.floor('C12-R1/scope11', n, 4, 'SCOPE11 k_slm / Q definitions (one per engine type each)')
    afr = single_def_value(sc.node, 'AFR')
    vals = [a.value for a in afr.args] if isinstance(afr, ast.Call) else None
    ok = vals == S['AFR']
    ctx.ob('C12-R1', sc, f'air-fuel ratios {vals}', ok, 'idle/approach/climb/take-off AFR' if ok else f'AFR table differs from {S["AFR"]}')
    # the smoke number that enters C_BC is the measured one capped at 40; modes without a measurement (-1, 0) are left out.
    # By evaluation: the per-mode body run for one mode with a known smoke number, read where C_BC is computed.
    loops = [x for x in walk_no_nested(sc.node) if isinstance(x, ast.For) and isinstance(x.target, ast.Name)
             and any(isinstance(t, ast.Name) and t.id == 'SN' for t, _, _ in stores_to(x))]
    if len(loops) != 1 or len(sc.params) < 1:
        ctx.undecided('C12-R1', sc, 'smoke number cap', 'per-mode loop binding SN not found')
    body = ast.FunctionDef(name='per_mode', args=ast.arguments(posonlyargs=[], args=[], kwonlyargs=[], kw_defaults=[], defaults=[]),
                           body=loops[0].body, decorator_list=[], lineno=loops[0].lineno, col_offset=0)
    bad = None
    try:
        for raw in (-1, 0, 1, 12.5, 39, 40, 41, 80):
            run = ScalarRun(body, {sc.params[0]: {m_: Fraction(repr(raw)) for m_ in THRUST_MODES}}, {}, tracked=('SN',),
                            env={loops[0].target.id: 'ThrustMode.CLIMB'}, enums={'ThrustMode': THRUST_MODES})
            snap = run.run()
            want = None if raw in (-1, 0) else min(Fraction(repr(raw)), Fraction(S['SN_cap']))
            got = snap.get('SN') if snap is not None else None
            if snap is not None and not isinstance(got, Fraction):
                raise Undecidable(f'the smoke number used for C_BC is not a number computed from the measured one ({got!r})')
            if got != want and bad is None:
                bad = (raw, want, got)
    except Undecidable as ex:
        ctx.undecided('C12-R1', sc, 'smoke number cap', str(ex))
    ok = bad is None
    ctx.ob('C12-R1', sc, 'smoke number capped at 40', ok, 'min(SN, 40) enters C_BC; modes without a measurement are skipped' if ok else
           f'for a measured smoke number of {bad[0]} the value entering C_BC is {bad[2] if bad[2] is None else float(bad[2])}, '
           f'documented {bad[1] if bad[1] is None else float(bad[1])}')
    ci = defs.get('CI_best[mode]', [])
    ok = len(ci) == 1 and norm(ci[0].value) in ('kslm * CBC_i', 'CBC_i * kslm')
    pe = single_def_value(sc.node, 'PMnvolEI_best')
    pr = single_def_value(sc.node, 'profile')
    ok = ok and pe is not None and norm(pe) in ('CI_best * Q', 'Q * CI_best') and pr is not None and norm(pr) == 'PMnvolEI_best / 1000.0'
    ctx.ob('C12-R1', sc, 'EI = k_slm·C_BC·Q, mg→g', ok, 'CI_best * Q / 1000' if ok else 'SCOPE11 assembly changed')


def rule_mode_layout(ctx):
    """R6: per-mode values cross between "keyed by mode" and "position in an array" in ThrustModeValues; the EI
    routines pair such arrays position by position (fuel flow i with EI i).  Every such crossing must use the order
    of the ThrustMode enumeration itself, never the insertion order of the underlying dict."""
    cls = ctx.prog.cls('performance/types.py', 'ThrustModeValues')
    aa = cls.methods.get('as_array')
    if aa is None:
        ctx.undecided('C12-R6', (cls.file, cls.name), 'as_array', 'method not found')
    rets = [r.value for r in walk_no_nested(aa.node) if isinstance(r, ast.Return) and r.value is not None]
    ctx.floor('C12-R6', len(rets), 1, 'returns of ThrustModeValues.as_array')
    for rv in rets:
        comps = [x for x in ast.walk(rv) if isinstance(x, (ast.ListComp, ast.GeneratorExp))]
        dict_order = [x for x in ast.walk(rv) if isinstance(x, ast.Call) and isinstance(x.func, ast.Attribute)
                      and x.func.attr in ('values', 'items', 'keys') and 'self' in norm(x.func.value)]
        dict_order += [x for x in ast.walk(rv) if isinstance(x, ast.comprehension) and norm(x.iter) in ('self', 'self._data')]
        ok = len(comps) == 1 and len(comps[0].generators) == 1 and norm(comps[0].generators[0].iter) == 'ThrustMode' \
            and not comps[0].generators[0].ifs and norm(comps[0].elt) in (f'self._data[{norm(comps[0].generators[0].target)}]',
                                                                         f'self[{norm(comps[0].generators[0].target)}]') \
            and not dict_order
        ctx.ob('C12-R6', aa, f'as_array = {norm(rv)[:70]}', ok,
               'one element per member of ThrustMode, in the enumeration\'s order' if ok else
               ('the array follows the insertion order of the underlying dict, not the order of ThrustMode: two value sets with '
                'equal contents built in different key orders give different arrays, and BFFM2 / MEEM pair fuel flows with '
                'emission indices of other modes'), line=rv.lineno)
    ini = cls.methods.get('__init__')
    n = 0
    for st in ast.walk(ini.node):
        if isinstance(st, ast.DictComp) and any('args[' in norm(x) for x in ast.walk(st.value)):
            n += 1
            g0 = st.generators[0]
            ok = norm(g0.iter) == 'enumerate(ThrustMode)' or norm(g0.iter) == 'ThrustMode'
            ctx.ob('C12-R6', ini, f'positional constructor: {norm(st)[:60]}', ok,
                   'position i is the i-th member of ThrustMode' if ok else 'positional data are not assigned in enumeration order',
                   line=st.lineno, nontrivial=False)
    ctx.floor('C12-R6/init', n, 2, 'positional constructors of ThrustModeValues')


def rule_broadcast(ctx):
    """R6, on demand: where an element-wise routine looks a per-mode value up with ThrustModeValues.broadcast(modes), the
    evaluation reads the call as "the value of the mode the point is in".  That is what the method must do: every point
    whose mode is m gets self[m], for every member m of the enumeration."""
    if not MODE_TABLE_USES:
        return
    cls = ctx.prog.cls('performance/types.py', 'ThrustModeValues')
    b = cls.methods.get('broadcast')
    if b is None or len(b.params) != 2:
        ctx.undecided('C12-R6', (cls.file, cls.name), 'broadcast', 'method broadcast(self, modes) not found')
    me, modes = b.params

    def own_value(v, key):
        """self[key] / self._data[key] / self._data.get(key, 0.0)"""
        if isinstance(v, ast.Subscript) and norm(v.value) in (me, f'{me}._data'):
            return norm(v.slice) == key
        if isinstance(v, ast.Call) and isinstance(v.func, ast.Attribute) and v.func.attr == 'get' and norm(v.func.value) in (me, f'{me}._data') \
                and v.args and (len(v.args) == 1 or const_value(v.args[1]) == 0):
            return norm(v.args[0]) == key
        return False
    ok = None
    loops = [x for x in walk_no_nested(b.node) if isinstance(x, ast.For)]
    comps = [x for x in walk_no_nested(b.node) if isinstance(x, (ast.ListComp, ast.GeneratorExp))]
    if len(loops) == 1 and not comps and isinstance(loops[0].target, ast.Name) and norm(loops[0].iter) in ('ThrustMode', 'list(ThrustMode)'):
        mv = loops[0].target.id
        sts = [(t, st) for t, st, how in stores_to(loops[0]) if isinstance(t, ast.Subscript)]
        if len(sts) == 1 and isinstance(sts[0][1], ast.Assign) and isinstance(sts[0][0].slice, ast.Compare) and len(sts[0][0].slice.ops) == 1 \
                and isinstance(sts[0][0].slice.ops[0], ast.Eq):
            t, st = sts[0]
            sides = [norm(t.slice.left), norm(t.slice.comparators[0])]
            arr = [x for x in sides if x.split('.')[0] == modes]
            key = [x for x in sides if x in (mv, f'{mv}.value')]
            rets = [r.value for r in walk_no_nested(b.node) if isinstance(r, ast.Return) and r.value is not None]
            direct = st in loops[0].body
            if len(arr) == 1 and len(key) == 1 and direct and len(rets) == 1 and norm(rets[0]) == norm(t.value):
                ok = own_value(st.value, mv)
    elif not loops and len(comps) == 1 and len(comps[0].generators) == 1 and not comps[0].generators[0].ifs \
            and isinstance(comps[0].generators[0].target, ast.Name) and norm(comps[0].generators[0].iter).split('.')[0].split('(')[0] == modes:
        c = comps[0].generators[0].target.id
        ok = own_value(comps[0].elt, c) or own_value(comps[0].elt, f'ThrustMode({c})')
    if ok is None:
        ctx.undecided('C12-R6', b, 'broadcast', 'the per-point look-up of ThrustModeValues.broadcast is written in a form that is not followed '
                      f'(used by `{norm(MODE_TABLE_USES[0])[:60]}`)')
    ctx.ob('C12-R6', b, 'broadcast gives every point the value of its own mode', ok,
           'result[modes == m] = self[m] for every member of ThrustMode' if ok else
           'a point does not get the value stored for its own thrust mode', line=b.node.lineno, nontrivial=False)


def run(ctx):
    del MODE_TABLE_USES[:]
    rule_isa(ctx)
    rule_mode_layout(ctx)
    rule_ffm2(ctx)
    rule_bffm2(ctx)
    rule_hcco(ctx)
    rule_sox(ctx)
    rule_pm(ctx)
    rule_broadcast(ctx)
    ctx.note('NOT decided: MEEM; numerical behaviour of the HC/CO bilinear fit; finiteness / non-negativity over the input range')
    ctx.assumptions += ['reference_equations.py is a faithful transcription of the cited publications',
                        'numpy elementary functions (exp, log, log10, power) implement the mathematical functions']
