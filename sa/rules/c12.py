"""C12 — emission-index and atmosphere functions follow their cited methods.

Claimed: conformance of coefficients and formula shape of the straight-line
building blocks against /verif/sa/reference_equations.py (an independent
transcription of the cited equations), decided by exact canonical-form
comparison (T-ALG).  The repository's constants are folded on the code side,
the standards' own numbers on the reference side.

R1  canonical-form comparison: ISA temperature / pressure / altitude branches,
    air density, Mach; FFM2 sea-level fuel flow (eq. 40) and its defaults;
    BFFM2 humidity / ambient NOx correction (eqs. 44-45); HC/CO ambient factor,
    ACRP slope, horizontal level and intercept; fuel-sulfur SOx; FOA3 delta
    table and formula; fuel-flow PMvol constants; SCOPE11 C_BC, k_slm, Q, AFR.
R2  inverse pair: pressure(altitude) and altitude(pressure) use mirrored
    branch tests, the same tropopause pressure, and exponents whose product
    is exactly 1.
R3  identities: sulfur atoms conserved (EI_SO2/MW_SO2 + EI_SO4/MW_SO4 ≡
    S·10³/MW_S); EI_SOx = EI_SO2 + EI_SO4; linear scaling where the block is
    homogeneous of degree 1 in the certification symbol.
R4  thrust categories are total and single-valued: np.select with two
    conditions on the same array against the two mid-points of consecutive
    calibration modes, and a default; ascending in fuel flow.
R6  per-mode values become arrays (and back) in the order of the ThrustMode
    enumeration, never in dict insertion order.
R5  HC/CO clamping rules are applied in the documented order (a) (b) (c).

Not decided: MEEM, the HC/CO bilinear fit's numerical behaviour, anything
phrased over the whole real input range (finiteness, sign, monotone in value).
"""

from __future__ import annotations

import ast
from fractions import Fraction

from ..algebra import AlgebraError, module_constants, normal_form, poly_equal
from ..astutil import (call_name, calls_in, guards_of, kwarg, norm, single_def_value, stores_to,
                       walk_no_nested)
from ..conform import compare2, nf_code, ref_normal_form
from .. import reference_equations as REF

ATM = 'utils/standard_atmosphere.py'


def _refconsts():
    return {k: Fraction(repr(v)) for k, v in REF.ISA_CONSTANTS.items()}


def _cmp(ctx, rule, fi, what, code_expr, ref, consts, rename=None, stop=(), refdefs=None, refconsts=None, line=None):
    try:
        code = nf_code(fi.node, code_expr, consts, rename=rename, stop=stop)
        want = ref_normal_form(ref, refconsts if refconsts is not None else {}, refdefs)
    except AlgebraError as e:
        ctx.undecided(rule, fi, what, f'cannot normalise: {e}')
    v, why = compare2(code, want)
    if v == 'undecided':
        ctx.undecided(rule, fi, what, why)
    ctx.ob(rule, fi, f'{what} ≡ {ref[:70]}', v == 'equal',
           'equal to the cited equation as an exact canonical form' if v == 'equal' else
           f'differs from the cited equation `{ref[:90]}`: {why}', line=line or getattr(code_expr, 'lineno', 0))
    return v == 'equal'


def _where(fi, name):
    d = single_def_value(fi.node, name)
    if isinstance(d, ast.Call) and call_name(d) in ('np.where', 'numpy.where') and len(d.args) == 3:
        return d.args
    return None


def rule_isa(ctx):
    prog = ctx.prog
    m = prog.module(ATM)
    cm = prog.module('constants.py')
    consts = module_constants(cm)
    consts.update(module_constants(m, consts))
    rc = _refconsts()
    # module constants against the standard
    for k, v in rc.items():
        if k in consts:
            ok = consts[k] == v
            ctx.ob('C12-R1', (cm.relpath if k in module_constants(cm) else m.relpath, '<module>'), f'{k} = {float(consts[k])}', ok,
                   'ISA / BADA value' if ok else f'{k} differs from the standard atmosphere value {float(v)}', nontrivial=False)
    # results are real-valued whatever the dtype of the altitude / pressure passed in: no result array may be
    # allocated "like" an argument (np.full_like / zeros_like / empty_like / ones_like inherit an integer dtype and
    # truncate the kelvins and pascals stored into them)
    ctl = ast.parse('np.full_like(altitude, T)').body[0].value
    ctx.control('C12-R1', call_name(ctl).split('.')[-1].endswith('_like') and not any(k.arg == 'dtype' for k in ctl.keywords),
                'embedded np.full_like(altitude, T) is recognised as dtype-inheriting')
    for fi in m.functions.values():
        from .own import alias_of
        aliases = {p_: p_ for p_ in fi.params}
        for t, st, how in stores_to(fi.node):
            if isinstance(t, ast.Name) and getattr(st, 'value', None) is not None:
                r = alias_of(st.value, aliases)
                if r:
                    aliases[t.id] = r
        for c in calls_in(fi.node):
            if call_name(c).split('.')[-1] in ('full_like', 'zeros_like', 'empty_like', 'ones_like') and c.args \
                    and alias_of(c.args[0], aliases) and not any(k.arg == 'dtype' for k in c.keywords):
                ctx.ob('C12-R1', fi, f'{norm(c)[:60]}', False,
                       (f'the result array takes the dtype of `{norm(c.args[0])}`: for an integer altitude (or pressure) the '
                        'temperatures / pressures written into it are truncated to whole numbers (228.7 K → 228 K), and everything '
                        'derived from them (pressure level, density, speed of sound) is off by a per cent or two'), line=c.lineno)
    tf = m.func('temperature_at_altitude_isa_bada4')
    w = _where(tf, 'temperature')
    if w is None:
        ctx.undecided('C12-R1', tf, 'temperature', 'not an np.where(cond, tropo, strat) definition')
    ok = norm(w[0]) == 'altitude <= h_p_tropo'
    ctx.ob('C12-R2', tf, f'temperature branch test {norm(w[0])}', ok, 'troposphere up to and including the tropopause' if ok else
           'branch test of the temperature profile changed')
    _cmp(ctx, 'C12-R1', tf, 'T (troposphere)', w[1], REF.ISA['T_tropo_branch'], consts, refconsts=rc)
    _cmp(ctx, 'C12-R1', tf, 'T (stratosphere)', w[2], REF.ISA['T_strat_branch'], consts, refconsts=rc)

    pf = m.func('pressure_at_altitude_isa_bada4')
    w = _where(pf, 'pressure')
    if w is None:
        ctx.undecided('C12-R1', pf, 'pressure', 'not an np.where(cond, tropo, strat) definition')
    okp = norm(w[0]) == 'altitude <= h_p_tropo'
    ctx.ob('C12-R2', pf, f'pressure branch test {norm(w[0])}', okp, 'same split as the temperature profile' if okp else
           'branch test of the pressure profile changed')
    pt = single_def_value(pf.node, 'p_tropo')
    if pt is None:
        # tropopause pressure may be a module constant after a refactor
        pt = m.constants.get('p_tropo')
    if pt is None:
        ctx.undecided('C12-R1', pf, 'p_tropo', 'tropopause pressure definition not found')
    _cmp(ctx, 'C12-R1', pf, 'p at tropopause', pt, REF.ISA['p_tropopause'], consts, refconsts=rc)
    _cmp(ctx, 'C12-R1', pf, 'p (troposphere)', w[1], REF.ISA['p_tropo_branch'], consts, refconsts=rc,
         rename={'temperature_at_altitude_isa_bada4(altitude)': 'TEMPERATURE', 'temperature': 'TEMPERATURE'})
    _cmp(ctx, 'C12-R1', pf, 'p (stratosphere)', w[2], REF.ISA['p_strat_branch'], consts, refconsts=rc,
         rename={'p_tropo': 'P_TROPO'}, stop=('p_tropo',))
    td = single_def_value(pf.node, 'temperature')
    ok = td is not None and norm(td) == 'temperature_at_altitude_isa_bada4(altitude)'
    ctx.ob('C12-R1', pf, 'pressure uses the ISA temperature at the same altitude', ok, norm(td) if ok else
           'temperature fed to the pressure law is not T(altitude)', nontrivial=False)

    af = m.func('altitude_from_pressure_isa_bada4')
    w2 = _where(af, 'altitude')
    if w2 is None:
        ctx.undecided('C12-R1', af, 'altitude', 'not an np.where(cond, tropo, strat) definition')
    ok = norm(w2[0]) == 'pressure >= pressure_tropo'
    ctx.ob('C12-R2', af, f'inverse branch test {norm(w2[0])}', ok,
           'mirror image of `altitude <= h_p_tropo` (pressure decreases with altitude)' if ok else
           'the inverse function splits at a different point than the forward function')
    ptd = single_def_value(af.node, 'pressure_tropo')
    if ptd is None:
        ptd = m.constants.get('p_tropo')
    tt = single_def_value(af.node, 'temperature_tropo')
    ren = {'temperature_tropo': 'TT'}
    if tt is not None:
        okt = norm(tt) == 'temperature_at_altitude_isa_bada4(h_p_tropo)'
        ctx.ob('C12-R2', af, f'temperature_tropo = {norm(tt)}', okt, 'T at the tropopause' if okt else
               'tropopause temperature of the inverse is not T(h_tropo)')
    if ptd is not None:
        _cmp(ctx, 'C12-R2', af, 'p at tropopause (inverse)', ptd, 'p0 * (TT / T0) ** (-g0 / (beta_tropo * R_air))', consts,
             refconsts=rc, rename=ren, stop=('temperature_tropo',),
             refdefs={'TT': 'T0 + beta_tropo * h_p_tropo'} if tt is None else None)
    _cmp(ctx, 'C12-R1', af, 'h (troposphere)', w2[1], REF.ISA['h_tropo_branch'], consts, refconsts=rc)
    _cmp(ctx, 'C12-R1', af, 'h (stratosphere)', w2[2], REF.ISA['h_strat_branch'], consts, refconsts=rc,
         rename={'pressure_tropo': 'P_TROPO', 'p_tropo': 'P_TROPO'}, stop=('pressure_tropo', 'p_tropo'))
    # exponents multiply to one
    try:
        pw = [x for x in ast.walk(w[1]) if isinstance(x, ast.BinOp) and isinstance(x.op, ast.Pow)]
        iw = [x for x in ast.walk(w2[1]) if isinstance(x, ast.BinOp) and isinstance(x.op, ast.Pow)]
        e1 = normal_form(pw[0].right, {}, consts)
        e2 = normal_form(iw[0].right, {}, consts)
        ok = (e1 * e2).is_const() and (e1 * e2).const() == 1
    except Exception as e:
        ctx.undecided('C12-R2', af, 'exponents', str(e))
    ctx.ob('C12-R2', af, f'exponents {norm(pw[0].right)} · {norm(iw[0].right)} = 1', ok,
           'forward and inverse power laws are exact inverses' if ok else
           'pressure→altitude does not invert altitude→pressure (exponent product ≠ 1)')
    rng = [n for n in walk_no_nested(tf.node) if isinstance(n, ast.Raise)]
    okr = bool(rng) and any('altitude > 25000' in norm(t) for t, _, _ in guards_of(rng[0]))
    ctx.ob('C12-R1', tf, 'altitudes above 25 km refused', okr, 'raise above 25000 m' if okr else 'range refusal changed', nontrivial=False)
    d = m.func('calculate_air_density')
    r = [n for n in walk_no_nested(d.node) if isinstance(n, ast.Return)][0].value
    _cmp(ctx, 'C12-R1', d, 'air density', r, REF.ISA['density'], consts, refconsts=rc)
    tm = prog.module('emissions/types.py')
    st = tm.func('AtmosphericState.__init__')
    mach = [s for t, s, how in stores_to(st.node) if norm(t) == 'self.mach']
    consts_t = dict(consts)
    if mach:
        _cmp(ctx, 'C12-R1', st, 'Mach number', mach[0].value, REF.ISA['mach'], consts_t, refconsts=rc,
             rename={'self.temperature': 'TEMPERATURE'})
    for attr, fn_ in (('temperature', 'temperature_at_altitude_isa_bada4(altitude)'), ('pressure', 'np.array(pressure_at_altitude_isa_bada4(altitude))')):
        s = [x for t, x, how in stores_to(st.node) if norm(t) == f'self.{attr}']
        ok = bool(s) and norm(s[0].value) == fn_
        ctx.ob('C12-R1', st, f'atmospheric state {attr} from the ISA function', ok, fn_ if ok else f'{attr} no longer comes from the ISA model', nontrivial=False)


def rule_ffm2(ctx):
    prog = ctx.prog
    m = prog.module('emissions/utils.py')
    fi = m.func('get_SLS_equivalent_fuel_flow')
    r = [n for n in walk_no_nested(fi.node) if isinstance(n, ast.Return)]
    _cmp(ctx, 'C12-R1', fi, 'FFM2 Wf_SL', r[0].value, REF.FFM2['Wf_SL'], {})
    a = fi.node.args
    dflt = {x.arg: norm(d) for x, d in zip(a.args[-len(a.defaults):], a.defaults)}
    for k, v in REF.FFM2['defaults'].items():
        ok = k in dflt and Fraction(dflt[k].replace('_', '')) == Fraction(repr(v))
        ctx.ob('C12-R1', fi, f'default {k} = {dflt.get(k)}', ok, 'FFM2 reference condition' if ok else
               f'default {k} differs from {v}')
    # homogeneous of degree 1 in fuel flow
    try:
        nf = nf_code(fi.node, r[0].value, {})
        nf0 = nf_code(fi.node, r[0].value, {}, rename={'fuel_flow': 'K_TIMES_FF'})
        lin = all(dict(mm).get('fuel_flow', 0) == 1 for mm in nf.num) and not any('fuel_flow' in dict(mm) for mm in nf.den)
    except AlgebraError as e:
        ctx.undecided('C12-R3', fi, 'linearity', str(e))
    ctx.ob('C12-R3', fi, 'Wf_SL is linear in the measured fuel flow', lin, 'degree 1 in fuel_flow' if lin else
           'sea-level fuel flow is not proportional to the measured fuel flow')
    cat = m.func('get_thrust_cat_cruise')
    sel = [c for c in calls_in(cat.node) if call_name(c) in ('np.select', 'numpy.select')]
    if len(sel) != 1:
        dg = [c for c in calls_in(cat.node) if call_name(c).split('.')[-1] in ('digitize', 'searchsorted')]
        if dg:
            ctx.ob('C12-R4', cat, f'categories by {call_name(dg[0])}({", ".join(norm(a)[:30] for a in dg[0].args)})', False,
                   'bin look-ups assume ordered thresholds: for non-monotone calibration flows (idle/approach mid-point '
                   'above approach/climb mid-point) the bins are numbered from the top and the category is anti-monotone '
                   'in fuel flow, contradicting the documented rule', line=dg[0].lineno)
            return
        ctx.undecided('C12-R4', cat, 'np.select', f'{len(sel)} np.select calls')
    s = sel[0]
    conds = [norm(e) for e in s.args[0].elts] if isinstance(s.args[0], ast.List) else []
    vals = [norm(e) for e in s.args[1].elts] if isinstance(s.args[1], ast.List) else []
    dfl = kwarg(s, 'default')
    ok = conds == ['ff_eval <= lowLimit', 'ff_eval > approachLimit'] and vals == ['ThrustMode.IDLE', 'ThrustMode.CLIMB'] \
        and dfl is not None and norm(dfl) == 'ThrustMode.APPROACH'
    ctx.ob('C12-R4', cat, f'categories: {list(zip(conds, vals))} default {norm(dfl) if dfl is not None else None}', ok,
           'low ≤ lowLimit < approach ≤ approachLimit < high: total, single-valued, ascending in fuel flow' if ok else
           'thrust categories are no longer a total, monotone partition of the fuel-flow axis')
    for nm, a_, b_ in (('lowLimit', 'IDLE', 'APPROACH'), ('approachLimit', 'APPROACH', 'CLIMB')):
        d = single_def_value(cat.node, nm)
        if d is None:
            ctx.undecided('C12-R4', cat, nm, 'threshold definition not found')
        _cmp(ctx, 'C12-R4', cat, nm, d, f'(A + B) / 2', {}, rename={f'ff_cal[ThrustMode.{a_}]': 'A', f'ff_cal[ThrustMode.{b_}]': 'B'})


def rule_bffm2(ctx):
    prog = ctx.prog
    m = prog.module('emissions/ei/nox.py')
    fi = m.func('BFFM2_EINOx')
    B = REF.BFFM2
    chain = [('theta_amb', B['theta_amb'], {}, ()), ('delta_amb', B['delta_amb'], {}, ()),
             ('Pamb_psia', B['Pamb_psia'], {}, ()),
             ('beta', B['beta'], {}, ()),
             ('Pv', B['Pv'], {'beta': 'BETA'}, ('beta',)),
             ('omega', B['omega'], {'Pv': 'PV', 'Pamb_psia': 'PAMB_PSIA'}, ('Pv', 'Pamb_psia')),
             ('H', B['H'], {'omega': 'OMEGA'}, ('omega',)),
             ('correction', B['correction'], {'H': 'HH', 'delta_amb': 'DELTA', 'theta_amb': 'THETA'}, ('H', 'delta_amb', 'theta_amb')),
             ('NOxEI_sl', B['NOxEI_sl'], {}, ('x_eval', 'slope', 'intercept'))]
    n = 0
    for name, ref, ren, stop in chain:
        d = single_def_value(fi.node, name)
        if d is None:
            ctx.undecided('C12-R1', fi, name, 'definition not found (or defined more than once)')
        n += 1
        _cmp(ctx, 'C12-R1', fi, f'BFFM2 {name}', d, ref, {}, rename=ren, stop=stop)
    ctx.floor('C12-R1/bffm2', n, 9, 'BFFM2 sub-expressions')
    d = single_def_value(fi.node, 'NOxEI')
    ok = d is not None and norm(d) in ('NOxEI_sl * correction', 'correction * NOxEI_sl')
    ctx.ob('C12-R1', fi, 'NOxEI = sea-level EI × ambient correction', ok, norm(d) if ok else 'the ambient correction is not applied to the sea-level EI')
    ok = all(single_def_value(fi.node, v) is not None and norm(single_def_value(fi.node, v)) == f'np.log10({s})'
             for v, s in (('x_cal', 'ff_cal'), ('y_cal', 'ei_cal'), ('x_eval', 'ff_eval')))
    pf = [c for c in calls_in(fi.node) if call_name(c) == 'np.polyfit']
    ok = ok and len(pf) == 1 and [norm(a) for a in pf[0].args] == ['x_cal', 'y_cal', '1']
    ctx.ob('C12-R1', fi, 'log10–log10 linear fit of EI against fuel flow', ok, 'np.polyfit(log10 ff, log10 EI, 1)' if ok else
           'the log-log fit changed (axes, base or degree)')
    # linear in the certification EI? (log-log fit: not polynomial) — speciation products are linear in NOxEI
    for out, prop in (('NOEI', 'noProp'), ('NO2EI', 'no2Prop'), ('HONOEI', 'honoProp')):
        d = single_def_value(fi.node, out)
        ok = d is not None and norm(d) in (f'NOxEI * {prop}', f'{prop} * NOxEI')
        ctx.ob('C12-R3', fi, f'{out} = NOxEI × {prop}', ok, 'speciation scales linearly with the NOx index' if ok else
               f'{out} is not the NOx index times its own fraction')


def rule_hcco(ctx):
    prog = ctx.prog
    m = prog.module('emissions/ei/hcco.py')
    fi = m.func('EI_HCCO')
    H = REF.HCCO
    f = single_def_value(fi.node, 'factor')
    if f is None:
        ctx.undecided('C12-R1', fi, 'factor', 'ambient factor not found')
    _cmp(ctx, 'C12-R1', fi, 'HC/CO ambient factor', f, H['factor'], {})
    ap = [s for t, s, how in stores_to(fi.node) if isinstance(t, ast.Name) and t.id == 'xEI_out' and how == 'aug']
    ok = len(ap) == 1 and isinstance(ap[0].op, ast.Mult) and norm(ap[0].value) == 'factor' and not guards_of(ap[0])
    ctx.ob('C12-R1', fi, 'ambient factor multiplies every point', ok, 'xEI_out *= factor' if ok else 'the ambient factor is not applied to the whole array')
    ac = single_def_value(fi.node, 'xEI_acrp')
    if ac is None:
        ctx.undecided('C12-R1', fi, 'xEI_acrp', 'ACRP correction not found')
    _cmp(ctx, 'C12-R1', fi, 'ACRP low-thrust correction', ac, H['acrp'], {},
         rename={'xEI_out[low_thrust_mask]': 'XEI', 'ff_eval[low_thrust_mask]': 'FF', 'ff_cal[ThrustMode.IDLE]': 'FF_IDLE'})
    lm = single_def_value(fi.node, 'low_thrust_mask')
    ok = lm is not None and norm(lm) == 'ff_eval < ff_cal[ThrustMode.IDLE]'
    ctx.ob('C12-R1', fi, 'low-thrust rule applies below idle fuel flow', ok, norm(lm) if ok else 'low-thrust mask changed')
    ren = {f'x_EI[ThrustMode.{k}]': f'EI_{k}' for k in ('IDLE', 'APPROACH', 'CLIMB', 'TAKEOFF')}
    ren.update({f'ff_cal[ThrustMode.{k}]': f'FF_{k}' for k in ('IDLE', 'APPROACH', 'CLIMB', 'TAKEOFF')})
    hz = [s for t, s, how in stores_to(fi.node) if isinstance(t, ast.Name) and t.id == 'x_horzline']
    _cmp(ctx, 'C12-R1', fi, 'horizontal level', hz[0].value, H['x_horzline'], {}, rename=ren)
    nu = single_def_value(fi.node, 'numerator')
    if nu is not None:
        _cmp(ctx, 'C12-R1', fi, 'intercept numerator', nu, H['x_intercept_num'], {}, rename=ren, stop=('slope',))
    sn = single_def_value(fi.node, 'slope_num')
    sd = single_def_value(fi.node, 'slope_den')
    if sn is not None and sd is not None:
        _cmp(ctx, 'C12-R1', fi, 'slope numerator', sn, 'log10(EI_APPROACH) - log10(EI_IDLE)', {}, rename=ren)
        _cmp(ctx, 'C12-R1', fi, 'slope denominator', sd, 'log10(FF_APPROACH) - log10(FF_IDLE)', {}, rename=ren)
    # R5: order of the clamping rules
    chain = None
    for x in walk_no_nested(fi.node):
        if isinstance(x, ast.If) and 'x_intercept >' in norm(x.test) and 'log_ff_cal2' in norm(x.test):
            chain = x
    tests = []
    cur = chain
    while isinstance(cur, ast.If):
        tests.append(norm(cur.test))
        cur = cur.orelse[0] if len(cur.orelse) == 1 and isinstance(cur.orelse[0], ast.If) else None
    want = ['x_intercept > log_ff_cal2', 'x_intercept < log_ff_cal1 and slope < 0.0', 'slope >= 0.0']
    ok = tests == want
    if chain is None:
        # maybe reordered: find any if-chain over these tests
        for x in walk_no_nested(fi.node):
            if isinstance(x, ast.If) and ('slope >= 0' in norm(x.test) or 'x_intercept <' in norm(x.test)) \
                    and not isinstance(getattr(x, '_parent', None), ast.If):
                cur, tests = x, []
                while isinstance(cur, ast.If):
                    tests.append(norm(cur.test))
                    cur = cur.orelse[0] if len(cur.orelse) == 1 and isinstance(cur.orelse[0], ast.If) else None
    ctx.ob('C12-R5', fi, f'clamping rules in order {tests}', ok,
           '(a) clamp to climb flow, else (b) below-approach with negative slope, else (c) non-negative slope' if ok else
           'the documented clamping rules (a)(b)(c) are tested in a different order or with different conditions: '
           'certification sets with non-negative slope and a high intercept take the wrong branch',
           line=(chain.lineno if chain is not None else fi.node.lineno))
    for nm, mode in (('log_ff_cal1', 'APPROACH'), ('log_ff_cal2', 'CLIMB')):
        d = single_def_value(fi.node, nm)
        ok = d is not None and norm(d) == f'np.log10(ff_cal[ThrustMode.{mode}])'
        ctx.ob('C12-R5', fi, f'{nm} = log10 of {mode.lower()} flow', ok, norm(d) if ok else f'{nm} refers to the wrong mode', nontrivial=False)


def rule_sox(ctx):
    prog = ctx.prog
    m = prog.module('emissions/ei/sox.py')
    fi = m.func('EI_SOx')
    consts = module_constants(m)
    for k, v in REF.SOX['MW'].items():
        ok = consts.get(k) == Fraction(repr(v))
        ctx.ob('C12-R1', (m.relpath, '<module>'), f'{k} = {float(consts.get(k, 0))}', ok, 'molecular weight' if ok else f'{k} ≠ {v}', nontrivial=False)
    ren = {'fuel.fuel_sulfur_content_nom': 'FSC', 'fuel.sulfate_yield_nom': 'EPS'}
    d2, d4 = single_def_value(fi.node, 'EI_SO2'), single_def_value(fi.node, 'EI_SO4')
    if d2 is None or d4 is None:
        ctx.undecided('C12-R1', fi, 'EI_SO2/EI_SO4', 'definitions not found')
    _cmp(ctx, 'C12-R1', fi, 'EI_SO2', d2, REF.SOX['EI_SO2'], consts, rename=ren)
    _cmp(ctx, 'C12-R1', fi, 'EI_SO4', d4, REF.SOX['EI_SO4'], consts, rename=ren)
    try:
        a = nf_code(fi.node, d2, consts, rename=ren)
        b = nf_code(fi.node, d4, consts, rename=ren)
        mw2 = normal_form(ast.Name('MW_SO2', ast.Load()), {}, consts)
        mw4 = normal_form(ast.Name('MW_SO4', ast.Load()), {}, consts)
        s = ref_normal_form('FSC / 1.0e6 * 1.0e3 / 32.0', {})
        ok = poly_equal(a / mw2 + b / mw4, s)
    except AlgebraError as e:
        ctx.undecided('C12-R3', fi, 'sulfur balance', str(e))
    ctx.ob('C12-R3', fi, 'EI_SO2/MW_SO2 + EI_SO4/MW_SO4 ≡ S·10³/MW_S', ok,
           'sulfur atoms conserved identically in the sulfate yield' if ok else 'sulfur atoms are not conserved')
    r = [n for n in walk_no_nested(fi.node) if isinstance(n, ast.Return)][0].value
    kw = {k.arg: norm(k.value) for k in r.keywords} if isinstance(r, ast.Call) else {}
    ok = kw.get('EI_SOx') in ('EI_SO2 + EI_SO4', 'EI_SO4 + EI_SO2') and kw.get('EI_SO2') == 'EI_SO2' and kw.get('EI_SO4') == 'EI_SO4'
    ctx.ob('C12-R3', fi, f'result {kw}', ok, 'SOx = SO2 + SO4, fields carry their own values' if ok else
           'SOx is not SO2 + SO4 or the result fields are crossed')
    lin = all(dict(mm).get('FSC', 0) == 1 for mm in a.num) and all(dict(mm).get('FSC', 0) == 1 for mm in b.num)
    ctx.ob('C12-R3', fi, 'SOx indices linear in fuel sulfur content', lin, 'degree 1' if lin else 'not proportional to sulfur content')


def rule_pm(ctx):
    prog = ctx.prog
    m = prog.module('emissions/ei/pmvol.py')
    f3 = m.func('EI_PMvol_FOA3')
    for nm, want in (('ICAO_thrust', REF.FOA3['thrust']), ('delta', REF.FOA3['delta'])):
        d = single_def_value(f3.node, nm)
        vals = [e.value for e in d.args[0].elts] if isinstance(d, ast.Call) and d.args and isinstance(d.args[0], ast.List) else None
        ok = vals is not None and [Fraction(repr(v)) for v in vals] == [Fraction(repr(v)) for v in want]
        ctx.ob('C12-R1', f3, f'FOA3 {nm} = {vals}', ok, 'FOA3 table' if ok else f'FOA3 {nm} differs from {want}')
    dm = single_def_value(f3.node, 'delta_matrix')
    ok = dm is not None and norm(dm) == 'np.interp(thrusts, ICAO_thrust, delta)'
    ctx.ob('C12-R1', f3, 'δ interpolated in thrust percentage', ok, norm(dm) if ok else 'δ look-up changed')
    pv = single_def_value(f3.node, 'PMvoloEI')
    _cmp(ctx, 'C12-R1', f3, 'FOA3 PMvol', pv, REF.FOA3['PMvol'], {}, rename={'delta_matrix': 'DELTA'}, stop=('delta_matrix',))
    try:
        nf = nf_code(f3.node, pv, {}, rename={'delta_matrix': 'DELTA'}, stop=('delta_matrix',))
        lin = all(dict(mm).get('HCEI', 0) == 1 for mm in nf.num)
    except AlgebraError:
        lin = False
    ctx.ob('C12-R3', f3, 'FOA3 PMvol linear in the HC index', lin, 'degree 1 in HCEI' if lin else 'not proportional to the HC index')
    ff = m.func('EI_PMvol_FuelFlow')
    P = REF.PMVOL_FF
    for nm, want in (('OCic_val', P['OCic']), ('lubeContrL', P['lube_low']), ('lubeContrH', P['lube_high'])):
        d = single_def_value(ff.node, nm)
        ok = isinstance(d, ast.Constant) and Fraction(repr(d.value)) == Fraction(repr(want))
        ctx.ob('C12-R1', ff, f'{nm} = {norm(d) if d is not None else None}', ok, 'documented constant' if ok else f'{nm} ≠ {want}')
    pv = single_def_value(ff.node, 'PMvolo_vec')
    _cmp(ctx, 'C12-R1', ff, 'fuel-flow PMvol', pv, P['PMvol'], {}, rename={'OCic_val': 'OCIC', 'lubeContr': 'LUBE'}, stop=('OCic_val', 'lubeContr'))
    lc = single_def_value(ff.node, 'lubeContr')
    ok = lc is not None and norm(lc) == 'np.where(thrustMode.data == ThrustMode.IDLE, lubeContrL, lubeContrH)'
    ctx.ob('C12-R1', ff, 'low lube share at idle, high above', ok, norm(lc) if ok else 'lube-oil share selection changed')
    # SCOPE11
    m2 = prog.module('emissions/ei/pmnvol.py')
    sc = m2.func('calculate_PMnvolEI_scope11')
    S = REF.SCOPE11
    defs = {}
    for t, st, how in stores_to(sc.node):
        if how == 'assign':
            defs.setdefault(norm(t), []).append(st)
    cb = defs.get('CBC_i', [])
    if len(cb) != 1:
        ctx.undecided('C12-R1', sc, 'CBC_i', f'{len(cb)} definitions')
    _cmp(ctx, 'C12-R1', sc, 'SCOPE11 C_BC', cb[0].value, S['C_BC'], {}, stop=('SN',))
    ks = defs.get('kslm', [])
    qs = defs.get('Q[mode]', [])
    for sts, refs, what in ((ks, ('kslm_mtf', 'kslm_tf'), 'k_slm'), (qs, ('Q_mtf', 'Q_tf'), 'Q')):
        for st in sts:
            gs = [(norm(t), pol) for t, pol, _ in guards_of(st)]
            if isinstance(st.value, ast.Constant):
                continue
            mtf = ("engine_type == 'MTF'", True) in gs
            ref = S[refs[0] if mtf else refs[1]]
            _cmp(ctx, 'C12-R1', sc, f'SCOPE11 {what} ({"MTF" if mtf else "TF"})', st.value, ref, {},
                 rename={'CBC_i': 'CBC', 'BP_Ratio': 'BPR', 'AFR[mode]': 'AFR'}, stop=('CBC_i', 'AFR'), line=st.lineno)
    afr = single_def_value(sc.node, 'AFR')
    vals = [a.value for a in afr.args] if isinstance(afr, ast.Call) else None
    ok = vals == S['AFR']
    ctx.ob('C12-R1', sc, f'air-fuel ratios {vals}', ok, 'idle/approach/climb/take-off AFR' if ok else f'AFR table differs from {S["AFR"]}')
    cap = [st for st in defs.get('SN', []) if isinstance(st.value, ast.Call) and call_name(st.value) == 'min']
    ok = len(cap) == 1 and norm(cap[0].value) == f'min(SN, {S["SN_cap"]})'
    ctx.ob('C12-R1', sc, 'smoke number capped at 40', ok, 'min(SN, 40)' if ok else 'smoke number cap changed')
    ci = defs.get('CI_best[mode]', [])
    ok = len(ci) == 1 and norm(ci[0].value) in ('kslm * CBC_i', 'CBC_i * kslm')
    pe = single_def_value(sc.node, 'PMnvolEI_best')
    pr = single_def_value(sc.node, 'profile')
    ok = ok and pe is not None and norm(pe) in ('CI_best * Q', 'Q * CI_best') and pr is not None and norm(pr) == 'PMnvolEI_best / 1000.0'
    ctx.ob('C12-R1', sc, 'EI = k_slm·C_BC·Q, mg→g', ok, 'CI_best * Q / 1000' if ok else 'SCOPE11 assembly changed')


def rule_mode_layout(ctx):
    """R6: per-mode values cross between "keyed by mode" and "position in an array" in ThrustModeValues; the EI
    routines pair such arrays position by position (fuel flow i with EI i).  Every such crossing must use the order
    of the ThrustMode enumeration itself, never the insertion order of the underlying dict."""
    cls = ctx.prog.cls('performance/types.py', 'ThrustModeValues')
    aa = cls.methods.get('as_array')
    if aa is None:
        ctx.undecided('C12-R6', (cls.file, cls.name), 'as_array', 'method not found')
    rets = [r.value for r in walk_no_nested(aa.node) if isinstance(r, ast.Return) and r.value is not None]
    ctx.floor('C12-R6', len(rets), 1, 'returns of ThrustModeValues.as_array')
    for rv in rets:
        comps = [x for x in ast.walk(rv) if isinstance(x, (ast.ListComp, ast.GeneratorExp))]
        dict_order = [x for x in ast.walk(rv) if isinstance(x, ast.Call) and isinstance(x.func, ast.Attribute)
                      and x.func.attr in ('values', 'items', 'keys') and 'self' in norm(x.func.value)]
        dict_order += [x for x in ast.walk(rv) if isinstance(x, ast.comprehension) and norm(x.iter) in ('self', 'self._data')]
        ok = len(comps) == 1 and len(comps[0].generators) == 1 and norm(comps[0].generators[0].iter) == 'ThrustMode' \
            and not comps[0].generators[0].ifs and norm(comps[0].elt) in (f'self._data[{norm(comps[0].generators[0].target)}]',
                                                                         f'self[{norm(comps[0].generators[0].target)}]') \
            and not dict_order
        ctx.ob('C12-R6', aa, f'as_array = {norm(rv)[:70]}', ok,
               'one element per member of ThrustMode, in the enumeration\'s order' if ok else
               ('the array follows the insertion order of the underlying dict, not the order of ThrustMode: two value sets with '
                'equal contents built in different key orders give different arrays, and BFFM2 / MEEM pair fuel flows with '
                'emission indices of other modes'), line=rv.lineno)
    ini = cls.methods.get('__init__')
    n = 0
    for st in ast.walk(ini.node):
        if isinstance(st, ast.DictComp) and any('args[' in norm(x) for x in ast.walk(st.value)):
            n += 1
            g0 = st.generators[0]
            ok = norm(g0.iter) == 'enumerate(ThrustMode)' or norm(g0.iter) == 'ThrustMode'
            ctx.ob('C12-R6', ini, f'positional constructor: {norm(st)[:60]}', ok,
                   'position i is the i-th member of ThrustMode' if ok else 'positional data are not assigned in enumeration order',
                   line=st.lineno, nontrivial=False)
    ctx.floor('C12-R6/init', n, 2, 'positional constructors of ThrustModeValues')


def run(ctx):
    rule_isa(ctx)
    rule_mode_layout(ctx)
    rule_ffm2(ctx)
    rule_bffm2(ctx)
    rule_hcco(ctx)
    rule_sox(ctx)
    rule_pm(ctx)
    ctx.note('NOT decided: MEEM; numerical behaviour of the HC/CO bilinear fit; finiteness / non-negativity over the input range')
    ctx.assumptions += ['reference_equations.py is a faithful transcription of the cited publications',
                        'numpy elementary functions (exp, log, log10, power) implement the mathematical functions']
