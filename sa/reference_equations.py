"""Independent transcription of the published equations the repository cites.

Written from the publications, not from the repository: EUROCONTROL BADA 3
User Manual (rev. 3.x) sections 3.2, 3.6, 3.7, 3.9; ICAO Doc 7488 / BADA
atmosphere model; DuBois & Paynter, "Fuel Flow Method 2" (SAE 2006-01-1987);
ICAO Doc 9889 (FOA3, sulfur); SCOPE11 (Agarwal et al. 2019).  Symbols are
plain names; unit constants are the repository's own module constants (folded
exactly).  Each entry: function -> (formula, local definitions).
"""

# --- BADA-3 (C19) ----------------------------------------------------------
# h_ft : geopotential pressure altitude in feet, v_kt : TAS in knots
BADA3 = {
    # (3.9-1)  eta = Cf1 (1 + V_TAS/Cf2)   [kg/(min kN)] -> /60/1000 [kg/(s N)]
    'Bada3JetEngineModel.calculate_specific_fuel_consumption':
        ('c_f1 * (1 + v_kt / c_f2) / 60 / 1000', {'v_kt': 'v_tas * MPS_TO_KNOTS'}),
    # (3.9-2)  eta = Cf1 (1 - V_TAS/Cf2)(V_TAS/1000)
    'Bada3TurbopropEngineModel.calculate_specific_fuel_consumption':
        ('c_f1 * (1 - v_kt / c_f2) * (v_kt / 1000) / 60 / 1000', {'v_kt': 'v_tas * MPS_TO_KNOTS'}),
    # (3.9-3)  f_nom = eta * Thr
    'Bada3JetEngineModel.calculate_nominal_fuel_flow': ('SFC * thrust', {}),
    'Bada3TurbopropEngineModel.calculate_nominal_fuel_flow': ('SFC * thrust', {}),
    # (3.9-6)  f_cr = eta * Thr * Cfcr
    'Bada3JetEngineModel.calculate_cruise_fuel_flow': ('SFC * thrust * c_fcr', {}),
    'Bada3TurbopropEngineModel.calculate_cruise_fuel_flow': ('SFC * thrust * c_fcr', {}),
    # (3.9-7,-8) piston: f_nom = Cf1, f_cr = Cf1 Cfcr   (unit handling of Cf1 is the parser's business)
    'Bada3PistonEngineModel.calculate_nominal_fuel_flow': ('c_f1', {}),
    'Bada3PistonEngineModel.calculate_cruise_fuel_flow': ('c_f1 * c_fcr', {}),
    # (3.7-1) jet: Thr = Ctc1 (1 - Hp/Ctc2 + Ctc3 Hp^2)
    'Bada3JetEngineModel.calculate_max_climb_thrust_isa':
        ('c_tc1 * (1 - h_ft / c_tc2 + c_tc3 * h_ft ** 2)', {'h_ft': 'altitude * METERS_TO_FEET'}),
    # (3.7-2) turboprop: Thr = Ctc1/V_TAS (1 - Hp/Ctc2) + Ctc3
    'Bada3TurbopropEngineModel.calculate_max_climb_thrust_isa':
        ('c_tc1 / v_kt * (1 - h_ft / c_tc2) + c_tc3',
         {'h_ft': 'altitude * METERS_TO_FEET', 'v_kt': 'v_tas * MPS_TO_KNOTS'}),
    # (3.7-3) piston: Thr = Ctc1 (1 - Hp/Ctc2) + Ctc3/V_TAS
    'Bada3PistonEngineModel.calculate_max_climb_thrust_isa':
        ('c_tc1 * (1 - h_ft / c_tc2) + c_tc3 / v_kt',
         {'h_ft': 'altitude * METERS_TO_FEET', 'v_kt': 'v_tas * MPS_TO_KNOTS'}),
    # (3.7-8) max cruise = Ctcr * max climb ; (3.7-9..12) descent = Ctdes,x * max climb
    'Bada3EngineModel.calculate_max_cruise_thrust': ('MAXCLIMB * c_tcr', {}),
    'Bada3EngineModel.calculate_descent_thrust_high': ('c_tdes_high * MAXCLIMB', {}),
    'Bada3EngineModel.calculate_descent_thrust_low': ('c_tdes_low * MAXCLIMB', {}),
    'Bada3EngineModel.calculate_descent_thrust_app': ('c_tdes_app * MAXCLIMB', {}),
    'Bada3EngineModel.calculate_descent_thrust_land': ('c_tdes_ld * MAXCLIMB', {}),
    # (3.6-1..4)
    'Bada3FuelBurnModel.calculate_cl': ('2 * mass * g0 / (rho * v_tas ** 2 * S_ref)', {}),
    'Bada3FuelBurnModel.calculate_cd': ('c_d0cr + c_d2cr * cl ** 2', {}),
    'Bada3FuelBurnModel.calculate_drag': ('cd * rho * v_tas ** 2 * S_ref / 2', {}),
    # (3.2-1) total energy:  (Thr - D) V = m g0 dh/dt + m V dV/dt
    'Bada3FuelBurnModel.calculate_thrust_by_total_energy':
        ('drag + mass * g0 * rocd / v_tas + mass * acceleration', {}),
}
BADA3_CALLS = {
    'calculate_specific_fuel_consumption': 'SFC',
    'calculate_max_climb_thrust': 'MAXCLIMB',          # temperature-corrected (3.7-4)
    'calculate_max_climb_thrust_isa': 'MAXCLIMB_ISA',  # ISA only (3.7-1..3): a different quantity
}

# --- ISA / BADA atmosphere, emission-index blocks (C12) ---------------------
# Filled in by sa/rules/c12.py from the same sources; see that module.

# Numbers of the standards themselves (NOT read from the repository):
ISA_CONSTANTS = {
    'T0': 288.15, 'p0': 101325.0, 'g0': 9.80665, 'R_air': 287.05287, 'kappa': 1.4,
    'beta_tropo': -0.0065, 'h_p_tropo': 11000.0,
}

# ICAO Doc 7488 / BADA atmosphere model (BADA 3 user manual section 3.1)
ISA = {
    'T_tropo_branch': 'T0 + beta_tropo * altitude',
    'T_strat_branch': 'T0 + beta_tropo * h_p_tropo',
    'p_tropopause': 'p0 * ((T0 + beta_tropo * h_p_tropo) / T0) ** (-g0 / (beta_tropo * R_air))',
    'p_tropo_branch': 'p0 * (TEMPERATURE / T0) ** (-g0 / (beta_tropo * R_air))',
    'p_strat_branch': 'P_TROPO * exp(-g0 / (R_air * (T0 + beta_tropo * h_p_tropo)) * (altitude - h_p_tropo))',
    'h_tropo_branch': 'T0 / beta_tropo * ((pressure / p0) ** (-beta_tropo * R_air / g0) - 1)',
    'h_strat_branch': 'h_p_tropo - R_air * (T0 + beta_tropo * h_p_tropo) / g0 * log(pressure / P_TROPO)',
    'density': 'pressure / (R_air * temperature)',
    'mach': 'tas / sqrt(kappa * R_air * TEMPERATURE)',
}

# DuBois & Paynter 2006, eq. (40): Wf_SL = Wf_alt (theta^3.8 / delta) exp(0.2 M^2), per engine
FFM2 = {
    'Wf_SL': 'fuel_flow / n_eng * (Tamb / T_SL) ** z / (Pamb / P_SL) * exp(0.2 * mach_number ** 2)',
    'defaults': {'z': 3.8, 'P_SL': 101325.0, 'T_SL': 288.15},
}

# BFFM2 NOx humidity / ambient correction, DuBois & Paynter eqs. (44)-(45), 60 % relative humidity.
# (0.62198 and 0.0063 are the roundings used throughout the AEIC lineage of Boeing's 0.62197058 and 0.00634;
# their effect is below 1e-3 relative and they are kept as the repository documents them.)
BFFM2 = {
    'theta_amb': 'Tamb / 288.15',
    'delta_amb': 'Pamb / 101325.0',
    'Pamb_psia': 'Pamb / 101325.0 * 14.696',
    'beta': ('7.90298 * (1.0 - 373.16 / (Tamb + 0.01)) + 3.00571 + 5.02808 * log10(373.16 / (Tamb + 0.01)) '
             '+ 1.3816e-7 * (1.0 - 10.0 ** (11.344 * (1.0 - (Tamb + 0.01) / 373.16))) '
             '+ 8.1328e-3 * (10.0 ** (3.49149 * (1.0 - 373.16 / (Tamb + 0.01))) - 1.0)'),
    'Pv': '0.014504 * 10.0 ** BETA',
    'omega': '0.62198 * 0.6 * PV / (PAMB_PSIA - 0.6 * PV)',
    'H': '-19.0 * (OMEGA - 0.0063)',
    'correction': 'exp(HH) * (DELTA ** 1.02 / THETA ** 3.3) ** 0.5',
    'NOxEI_sl': '10.0 ** (x_eval * slope + intercept)',
}

# BFFM2 HC/CO: ambient factor theta^3.3 / delta^1.02 (inverse of the NOx one, without humidity); ACRP low-thrust slope -52
HCCO = {
    'factor': '(Tamb / 288.15) ** 3.3 / (Pamb / 101325.0) ** 1.02',
    'acrp': 'XEI * (1.0 + -52.0 * (FF - FF_IDLE))',
    'x_horzline': '0.5 * (log10(EI_CLIMB) + log10(EI_TAKEOFF))',
    'x_intercept_num': '2.0 * log10(FF_IDLE) * slope + log10(EI_CLIMB) + log10(EI_TAKEOFF) - 2.0 * log10(EI_IDLE)',
}

# ICAO Doc 9889 / FOA3: fuel sulfur.  EI_SO2 = FSC (1-eps) MW_SO2/MW_S 1e3 ; EI_SO4 = FSC eps MW_SO4/MW_S 1e3  [g/kg], FSC mass fraction
SOX = {
    'EI_SO2': 'FSC / 1.0e6 * (1 - EPS) * 64.0 / 32.0 * 1.0e3',
    'EI_SO4': 'FSC / 1.0e6 * EPS * 96.0 / 32.0 * 1.0e3',
    'MW': {'MW_SO2': 64.0, 'MW_SO4': 96.0, 'MW_S': 32.0},
}

# FOA3 volatile PM: delta(thrust%) [mg/g HC] at 7/30/85/100 % ; PMvol = delta * EI_HC / 1000
FOA3 = {'thrust': [7, 30, 85, 100], 'delta': [6.17, 56.25, 76.0, 115.0], 'PMvol': 'DELTA * HCEI / 1000.0'}
# fuel-flow method: OC_ic = 20 mg/kg, lube oil share 15 % (idle) / 50 % (above)
PMVOL_FF = {'OCic': 20.0e-3, 'lube_low': 0.15, 'lube_high': 0.50, 'PMvol': 'OCIC / (1.0 - LUBE)'}

# SCOPE11 (Agarwal et al. 2019): C_BC, k_slm, Q
SCOPE11 = {
    'C_BC': '0.6484 * exp(0.0766 * SN) / (1 + exp(-1.098 * (SN - 3.064)))',
    'kslm_mtf': 'log((3.219 * CBC * (1 + BPR) * 1000 + 312.5) / (CBC * (1 + BPR) * 1000 + 42.6))',
    'kslm_tf': 'log((3.219 * CBC * 1000 + 312.5) / (CBC * 1000 + 42.6))',
    'Q_mtf': '0.776 * AFR * (1 + BPR) + 0.767',
    'Q_tf': '0.776 * AFR + 0.767',
    'AFR': [106, 83, 51, 45],
    'SN_cap': 40,
}
