"""Independent transcription of the published equations the repository cites.

Written from the publications, not from the repository: EUROCONTROL BADA 3
User Manual (rev. 3.x) sections 3.2, 3.6, 3.7, 3.9; ICAO Doc 7488 / BADA
atmosphere model; DuBois & Paynter, "Fuel Flow Method 2" (SAE 2006-01-1987);
ICAO Doc 9889 (FOA3, sulfur); SCOPE11 (Agarwal et al. 2019).  Symbols are
plain names; unit constants are the repository's own module constants (folded
exactly).  Each entry: function -> (formula, local definitions).
"""

# --- BADA-3 (C19) ----------------------------------------------------------
# h_ft : geopotential pressure altitude in feet, v_kt : TAS in knots
BADA3 = {
    # (3.9-1)  eta = Cf1 (1 + V_TAS/Cf2)   [kg/(min kN)] -> /60/1000 [kg/(s N)]
    'Bada3JetEngineModel.calculate_specific_fuel_consumption':
        ('c_f1 * (1 + v_kt / c_f2) / 60 / 1000', {'v_kt': 'v_tas * MPS_TO_KNOTS'}),
    # (3.9-2)  eta = Cf1 (1 - V_TAS/Cf2)(V_TAS/1000)
    'Bada3TurbopropEngineModel.calculate_specific_fuel_consumption':
        ('c_f1 * (1 - v_kt / c_f2) * (v_kt / 1000) / 60 / 1000', {'v_kt': 'v_tas * MPS_TO_KNOTS'}),
    # (3.9-3)  f_nom = eta * Thr
    'Bada3JetEngineModel.calculate_nominal_fuel_flow': ('SFC * thrust', {}),
    'Bada3TurbopropEngineModel.calculate_nominal_fuel_flow': ('SFC * thrust', {}),
    # (3.9-6)  f_cr = eta * Thr * Cfcr
    'Bada3JetEngineModel.calculate_cruise_fuel_flow': ('SFC * thrust * c_fcr', {}),
    'Bada3TurbopropEngineModel.calculate_cruise_fuel_flow': ('SFC * thrust * c_fcr', {}),
    # (3.9-7,-8) piston: f_nom = Cf1, f_cr = Cf1 Cfcr   (unit handling of Cf1 is the parser's business)
    'Bada3PistonEngineModel.calculate_nominal_fuel_flow': ('c_f1', {}),
    'Bada3PistonEngineModel.calculate_cruise_fuel_flow': ('c_f1 * c_fcr', {}),
    # (3.7-1) jet: Thr = Ctc1 (1 - Hp/Ctc2 + Ctc3 Hp^2)
    'Bada3JetEngineModel.calculate_max_climb_thrust_isa':
        ('c_tc1 * (1 - h_ft / c_tc2 + c_tc3 * h_ft ** 2)', {'h_ft': 'altitude * METERS_TO_FEET'}),
    # (3.7-2) turboprop: Thr = Ctc1/V_TAS (1 - Hp/Ctc2) + Ctc3
    'Bada3TurbopropEngineModel.calculate_max_climb_thrust_isa':
        ('c_tc1 / v_kt * (1 - h_ft / c_tc2) + c_tc3',
         {'h_ft': 'altitude * METERS_TO_FEET', 'v_kt': 'v_tas * MPS_TO_KNOTS'}),
    # (3.7-3) piston: Thr = Ctc1 (1 - Hp/Ctc2) + Ctc3/V_TAS
    'Bada3PistonEngineModel.calculate_max_climb_thrust_isa':
        ('c_tc1 * (1 - h_ft / c_tc2) + c_tc3 / v_kt',
         {'h_ft': 'altitude * METERS_TO_FEET', 'v_kt': 'v_tas * MPS_TO_KNOTS'}),
    # (3.7-8) max cruise = Ctcr * max climb ; (3.7-9..12) descent = Ctdes,x * max climb
    'Bada3EngineModel.calculate_max_cruise_thrust': ('MAXCLIMB * c_tcr', {}),
    'Bada3EngineModel.calculate_descent_thrust_high': ('c_tdes_high * MAXCLIMB', {}),
    'Bada3EngineModel.calculate_descent_thrust_low': ('c_tdes_low * MAXCLIMB', {}),
    'Bada3EngineModel.calculate_descent_thrust_app': ('c_tdes_app * MAXCLIMB', {}),
    'Bada3EngineModel.calculate_descent_thrust_land': ('c_tdes_ld * MAXCLIMB', {}),
    # (3.6-1..4)
    'Bada3FuelBurnModel.calculate_cl': ('2 * mass * g0 / (rho * v_tas ** 2 * S_ref)', {}),
    'Bada3FuelBurnModel.calculate_cd': ('c_d0cr + c_d2cr * cl ** 2', {}),
    'Bada3FuelBurnModel.calculate_drag': ('cd * rho * v_tas ** 2 * S_ref / 2', {}),
    # (3.2-1) total energy:  (Thr - D) V = m g0 dh/dt + m V dV/dt
    'Bada3FuelBurnModel.calculate_thrust_by_total_energy':
        ('drag + mass * g0 * rocd / v_tas + mass * acceleration', {}),
}
BADA3_CALLS = {
    'calculate_specific_fuel_consumption': 'SFC',
    'calculate_max_climb_thrust': 'MAXCLIMB',
}

# --- ISA / BADA atmosphere, emission-index blocks (C12) ---------------------
# Filled in by sa/rules/c12.py from the same sources; see that module.
