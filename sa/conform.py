"""Canonical-form comparison of a function's returned expression against a
reference formula (T-ALG conformance).

The code side: the returned expression, single-assignment locals inlined by
def-use, accesses to the parameter object mapped to plain symbols.  The
reference side: a formula string from reference_equations.py (transcribed from
the cited publications, independently of the repository).  Both are brought to
exact rational normal form; equality is decided by cross-multiplication.

Verdicts:  equal -> holds;  different with the same opaque atoms -> violation
(two different rational functions of the same symbols are different
functions);  different opaque atoms -> undecided (a restructuring the algebra
cannot see through is never guessed at).
"""

from __future__ import annotations

import ast
import copy
import re

from .algebra import AlgebraError, Rat, normal_form, poly_equal
from .astutil import local_defs, norm, walk_no_nested


def _inline_env(fn: ast.AST) -> dict[str, ast.AST]:
    """name -> value for locals bound exactly once by a plain assignment"""
    env = {}
    counts = {}
    for x in walk_no_nested(fn):
        if isinstance(x, ast.Assign):
            for t in x.targets:
                for n in ast.walk(t):
                    if isinstance(n, ast.Name):
                        counts[n.id] = counts.get(n.id, 0) + 1
            if len(x.targets) == 1 and isinstance(x.targets[0], ast.Name):
                env[x.targets[0].id] = x.value
        elif isinstance(x, (ast.AugAssign, ast.AnnAssign, ast.For)):
            tgt = x.target
            for n in ast.walk(tgt):
                if isinstance(n, ast.Name):
                    counts[n.id] = counts.get(n.id, 0) + 2
            if isinstance(x, ast.AnnAssign) and isinstance(x.target, ast.Name) and x.value is not None:
                counts[x.target.id] -= 1
                env[x.target.id] = x.value
    params = set()
    if isinstance(fn, (ast.FunctionDef, ast.AsyncFunctionDef)):
        a = fn.args
        params = {p.arg for p in a.posonlyargs + a.args + a.kwonlyargs}
    return {k: v for k, v in env.items() if counts.get(k, 0) == 1 and k not in params}


class _Mapper(ast.NodeTransformer):
    def __init__(self, param_objs, call_map):
        self.param_objs = param_objs
        self.call_map = call_map

    def visit_Subscript(self, n):
        if norm(n.value) in self.param_objs and isinstance(n.slice, ast.Constant) and isinstance(n.slice.value, str):
            return ast.copy_location(ast.Name(n.slice.value, ast.Load()), n)
        return self.generic_visit(n)

    def visit_Attribute(self, n):
        if norm(n.value) in self.param_objs:
            return ast.copy_location(ast.Name(n.attr, ast.Load()), n)
        return self.generic_visit(n)

    def visit_Call(self, n):
        fn = norm(n.func)
        for pat, sym in self.call_map.items():
            if fn == pat or fn.endswith('.' + pat):
                return ast.copy_location(ast.Name(sym, ast.Load()), n)
        return self.generic_visit(n)


def code_normal_form(fn: ast.AST, expr: ast.AST, consts, param_objs=(), call_map=None, extra_env=None) -> Rat:
    env = _inline_env(fn)
    if extra_env:
        env.update(extra_env)
    m = _Mapper(set(param_objs), call_map or {})
    e2 = m.visit(copy.deepcopy(expr))
    env2 = {k: m.visit(copy.deepcopy(v)) for k, v in env.items()}
    return normal_form(e2, env2, consts)


def ref_normal_form(ref: str, consts, defs: dict[str, str] | None = None) -> Rat:
    env = {k: ast.parse(v, mode='eval').body for k, v in (defs or {}).items()}
    return normal_form(ast.parse(ref, mode='eval').body, env, consts)


def opaque_atoms(r: Rat) -> set[str]:
    return {a for a in r.atoms() if not re.fullmatch(r'[A-Za-z_][\w.]*', a)}


def compare(code: Rat, ref: Rat) -> tuple[str, str]:
    """('equal'|'different'|'undecided', explanation)"""
    if poly_equal(code, ref):
        return 'equal', 'normal forms are identical'
    oa, ob = opaque_atoms(code), opaque_atoms(ref)
    if oa == ob:
        diff = code - ref
        return 'different', f'code − reference = {str(diff)[:200]}'
    return 'undecided', f'opaque sub-expressions differ: code {sorted(oa)[:3]} vs reference {sorted(ob)[:3]}'


def returned_expr(fn: ast.AST) -> ast.AST | None:
    rets = [n for n in walk_no_nested(fn) if isinstance(n, ast.Return) and n.value is not None]
    return rets[0].value if len(rets) == 1 else None


class _Renamer(ast.NodeTransformer):
    def __init__(self, rename):
        self.rename = rename

    def visit_Name(self, n):
        if n.id in self.rename:
            return ast.copy_location(ast.Name(self.rename[n.id], ast.Load()), n)
        return n

    def visit_Attribute(self, n):
        t = norm(n)
        if t in self.rename:
            return ast.copy_location(ast.Name(self.rename[t], ast.Load()), n)
        return self.generic_visit(n)

    def visit_Subscript(self, n):
        t = norm(n)
        if t in self.rename:
            return ast.copy_location(ast.Name(self.rename[t], ast.Load()), n)
        return self.generic_visit(n)

    def visit_Call(self, n):
        t = norm(n)
        if t in self.rename:
            return ast.copy_location(ast.Name(self.rename[t], ast.Load()), n)
        return self.generic_visit(n)


def nf_code(fn: ast.AST, expr: ast.AST, consts, rename=None, stop=()) -> Rat:
    """Normal form of `expr` inside `fn`: single-def locals inlined except those
    in `stop`/`rename`; names, attribute chains, subscripts and calls listed in
    `rename` (by their source text) become the given symbols."""
    rename = dict(rename or {})
    env = {k: v for k, v in _inline_env(fn).items() if k not in stop and k not in rename}
    r = _Renamer(rename)
    e2 = r.visit(copy.deepcopy(expr))
    env2 = {k: r.visit(copy.deepcopy(v)) for k, v in env.items()}
    return normal_form(e2, env2, consts)


def heads(r: Rat) -> list[str]:
    return sorted(a.split('(')[0] for a in opaque_atoms(r))


def compare2(code: Rat, ref: Rat) -> tuple[str, str]:
    """Like compare(), but opaque atoms with the same function heads (exp vs exp,
    pow vs pow) and different arguments count as a definite difference: only a
    change of *structure* (exp(a)·exp(b) vs exp(a+b)) stays undecided."""
    if poly_equal(code, ref):
        return 'equal', 'normal forms are identical'
    if heads(code) == heads(ref):
        return 'different', f'code − reference = {str(code - ref)[:220]}'
    return 'undecided', f'structure differs: code uses {heads(code)}, reference {heads(ref)}'
