"""Canonical-form comparison of a function's returned expression against a
reference formula (T-ALG conformance).

The code side: the returned expression, single-assignment locals inlined by
def-use, accesses to the parameter object mapped to plain symbols.  The
reference side: a formula string from reference_equations.py (transcribed from
the cited publications, independently of the repository).  Both are brought to
exact rational normal form; equality is decided by cross-multiplication.

Verdicts:  equal -> holds;  different with the same opaque atoms -> violation
(two different rational functions of the same symbols are different
functions);  different opaque atoms -> undecided (a restructuring the algebra
cannot see through is never guessed at).
"""

from __future__ import annotations

import ast
import copy
import re

from .algebra import AlgebraError, Rat, normal_form, poly_equal
from .astutil import local_defs, norm, walk_no_nested


def _inline_env(fn: ast.AST) -> dict[str, ast.AST]:
    """name -> value for locals bound exactly once by a plain assignment"""
    env = {}
    counts = {}
    for x in walk_no_nested(fn):
        if isinstance(x, ast.Assign):
            for t in x.targets:
                for n in ast.walk(t):
                    if isinstance(n, ast.Name):
                        counts[n.id] = counts.get(n.id, 0) + 1
            if len(x.targets) == 1 and isinstance(x.targets[0], ast.Name):
                env[x.targets[0].id] = x.value
        elif isinstance(x, (ast.AugAssign, ast.AnnAssign, ast.For)):
            tgt = x.target
            for n in ast.walk(tgt):
                if isinstance(n, ast.Name):
                    counts[n.id] = counts.get(n.id, 0) + 2
            if isinstance(x, ast.AnnAssign) and isinstance(x.target, ast.Name) and x.value is not None:
                counts[x.target.id] -= 1
                env[x.target.id] = x.value
    params = set()
    if isinstance(fn, (ast.FunctionDef, ast.AsyncFunctionDef)):
        a = fn.args
        params = {p.arg for p in a.posonlyargs + a.args + a.kwonlyargs}
    return {k: v for k, v in env.items() if counts.get(k, 0) == 1 and k not in params}


class _Mapper(ast.NodeTransformer):
    def __init__(self, param_objs, call_map):
        self.param_objs = param_objs
        self.call_map = call_map

    def visit_Subscript(self, n):
        if norm(n.value) in self.param_objs and isinstance(n.slice, ast.Constant) and isinstance(n.slice.value, str):
            return ast.copy_location(ast.Name(n.slice.value, ast.Load()), n)
        return self.generic_visit(n)

    def visit_Attribute(self, n):
        if norm(n.value) in self.param_objs:
            return ast.copy_location(ast.Name(n.attr, ast.Load()), n)
        return self.generic_visit(n)

    def visit_Call(self, n):
        fn = norm(n.func)
        for pat, sym in self.call_map.items():
            if fn == pat or fn.endswith('.' + pat):
                return ast.copy_location(ast.Name(sym, ast.Load()), n)
        return self.generic_visit(n)


def code_normal_form(fn: ast.AST, expr: ast.AST, consts, param_objs=(), call_map=None, extra_env=None) -> Rat:
    env = _inline_env(fn)
    if extra_env:
        env.update(extra_env)
    m = _Mapper(set(param_objs), call_map or {})
    e2 = m.visit(copy.deepcopy(expr))
    env2 = {k: m.visit(copy.deepcopy(v)) for k, v in env.items()}
    return normal_form(e2, env2, consts)


def ref_normal_form(ref: str, consts, defs: dict[str, str] | None = None) -> Rat:
    env = {k: ast.parse(v, mode='eval').body for k, v in (defs or {}).items()}
    return normal_form(ast.parse(ref, mode='eval').body, env, consts)


def opaque_atoms(r: Rat) -> set[str]:
    """atoms that are applications of functions the algebra does not open (exp, log, non-integer powers, ...) or
    conditional expressions; names, attribute chains and subscripts (`ff_cal[ThrustMode.IDLE]`) are symbols"""
    from .algebra import ATOM_PARTS
    return {a for a in r.atoms() if a in ATOM_PARTS or (not re.fullmatch(r'[A-Za-z_][\w.]*', a) and not _is_subscript_symbol(a))}


def _is_subscript_symbol(a: str) -> bool:
    try:
        e = ast.parse(a, mode='eval').body
    except SyntaxError:
        return False
    return isinstance(e, ast.Subscript) and not any(isinstance(x, (ast.Call, ast.IfExp, ast.Lambda, ast.BinOp)) for x in ast.walk(e))


def compare(code: Rat, ref: Rat) -> tuple[str, str]:
    """('equal'|'different'|'undecided', explanation)"""
    if poly_equal(code, ref):
        return 'equal', 'normal forms are identical'
    oa, ob = opaque_atoms(code), opaque_atoms(ref)
    if oa == ob:
        diff = code - ref
        return 'different', f'code − reference = {str(diff)[:200]}'
    return 'undecided', f'opaque sub-expressions differ: code {sorted(oa)[:3]} vs reference {sorted(ob)[:3]}'


def returned_expr(fn: ast.AST) -> ast.AST | None:
    rets = [n for n in walk_no_nested(fn) if isinstance(n, ast.Return) and n.value is not None]
    return rets[0].value if len(rets) == 1 else None


class _Renamer(ast.NodeTransformer):
    def __init__(self, rename):
        self.rename = rename

    def visit_Name(self, n):
        if n.id in self.rename:
            return ast.copy_location(ast.Name(self.rename[n.id], ast.Load()), n)
        return n

    def visit_Attribute(self, n):
        t = norm(n)
        if t in self.rename:
            return ast.copy_location(ast.Name(self.rename[t], ast.Load()), n)
        return self.generic_visit(n)

    def visit_Subscript(self, n):
        t = norm(n)
        if t in self.rename:
            return ast.copy_location(ast.Name(self.rename[t], ast.Load()), n)
        return self.generic_visit(n)

    def visit_Call(self, n):
        t = norm(n)
        if t in self.rename:
            return ast.copy_location(ast.Name(self.rename[t], ast.Load()), n)
        return self.generic_visit(n)


def nf_code(fn: ast.AST, expr: ast.AST, consts, rename=None, stop=()) -> Rat:
    """Normal form of `expr` inside `fn`: single-def locals inlined except those
    in `stop`/`rename`; names, attribute chains, subscripts and calls listed in
    `rename` (by their source text) become the given symbols."""
    rename = dict(rename or {})
    env = {k: v for k, v in _inline_env(fn).items() if k not in stop and k not in rename}
    r = _Renamer(rename)
    e2 = r.visit(copy.deepcopy(expr))
    env2 = {k: r.visit(copy.deepcopy(v)) for k, v in env.items()}
    return normal_form(e2, env2, consts)


def heads(r: Rat) -> list[str]:
    return sorted(a.split('(')[0] for a in opaque_atoms(r))


def compare2(code: Rat, ref: Rat) -> tuple[str, str]:
    """Like compare(), but opaque atoms with the same function heads (exp vs exp,
    pow vs pow) and different arguments count as a definite difference: only a
    change of *structure* (exp(a)·exp(b) vs exp(a+b)) stays undecided."""
    if poly_equal(code, ref):
        return 'equal', 'normal forms are identical'
    if heads(code) == heads(ref):
        return 'different', f'code − reference = {str(code - ref)[:220]}'
    return 'undecided', f'structure differs: code uses {heads(code)}, reference {heads(ref)}'


def explain_difference(code: Rat, ref: Rat, named: dict[str, Rat] | None = None, depth: int = 0):
    """Where two normal forms part, as deep inside their opaque sub-expressions as the difference can be pinned:
    None when they are equal, else (name of the reference sub-expression or None, explanation, decided).  An
    application of a function that occurs on one side only is paired with the one application of the same function that
    occurs on the other side only; when exactly one argument differs the search continues inside it.  `named`: normal
    forms of the reference's named sub-expressions, used to say which of them the difference is in.  `decided` is False
    when, at the place found, the two sides are built from different functions (a restructuring the algebra cannot see
    through) - except that a rational function of the symbols is never equal to one with exp / log / powers of them."""
    from .algebra import ATOM_PARTS, _same_arg
    if poly_equal(code, ref):
        return None

    def name_of(r):
        for k, v in (named or {}).items():
            if poly_equal(r, v):
                return k
        return None
    parts = lambda a: ATOM_PARTS.get(a, (None, [], ()))
    only_c, only_r = opaque_atoms(code) - opaque_atoms(ref), opaque_atoms(ref) - opaque_atoms(code)
    if depth < 12:
        for a in sorted(only_c):
            ha, aa, ka = parts(a)
            same_f = [b for b in only_r if parts(b)[0] == ha and len(parts(b)[1]) == len(aa) and parts(b)[2] == ka]
            mine = [x for x in only_c if parts(x)[0] == ha]
            if ha is None or len(same_f) != 1 or len(mine) != 1:
                continue
            pairs = [(x, y) for x, y in zip(aa, parts(same_f[0])[1]) if not _same_arg(x, y)]
            if len(pairs) == 1 and isinstance(pairs[0][0], Rat) and isinstance(pairs[0][1], Rat):
                inner = explain_difference(pairs[0][0], pairs[0][1], named, depth + 1)
                if inner is not None:
                    if inner[0] is None:
                        return name_of(ref), f'inside {ha}(…): {inner[1]}', inner[2]
                    return inner
    if heads(code) != heads(ref):
        if not heads(code):
            return name_of(ref), f'the code has none of the {heads(ref)} terms of the reference: code = {str(code)[:120]}', True
        # the same formula but for the base of a logarithm / exponential: log(u) = ln10·log10(u) and exp(y) = 10**(y/ln10)
        # are different functions wherever the formula depends on them at all
        for what, swap in (('the natural logarithm where the cited equation has log10', _log_to_log10),
                           ('log10 where the cited equation has the natural logarithm', _log10_to_log),
                           ('exp(…) where the cited equation has 10 ** (…)', _exp_to_pow10),
                           ('10 ** (…) where the cited equation has exp(…)', _pow10_to_exp)):
            alt = _map_atoms(code, swap)
            if alt is not None and poly_equal(alt, ref):
                return name_of(ref), f'the code uses {what} (otherwise the same formula)', True
        return name_of(ref), f'structure differs: code uses {heads(code)}, reference {heads(ref)}', False
    return name_of(ref), f'code − reference = {str(code - ref)[:220]}', True


def _map_atoms(r: Rat, f) -> Rat | None:
    """r with every opaque atom a replaced by f(head, args, kws) (a Rat, or None to keep a); None if nothing changed"""
    from .algebra import ATOM_PARTS, _p_atom
    changed = False
    cache = {}

    def atom(a):
        nonlocal changed
        if a not in cache:
            new = None
            if a in ATOM_PARTS:
                h, args, kws = ATOM_PARTS[a]
                args2 = [(_map_atoms(x, f) or x) if isinstance(x, Rat) else x for x in args]
                new = f(h, args2, kws)
            changed = changed or new is not None
            cache[a] = new if new is not None else Rat(_p_atom(a))
        return cache[a]

    def poly(p_):
        out = Rat({})
        for mono, c in p_.items():
            term = Rat({(): c})
            for a, e in mono:
                base = atom(a)
                for _ in range(e):
                    term = term * base
            out = out + term
        return out
    num, den = poly(r.num), poly(r.den)
    if not changed or den.is_zero():
        return None
    return num / den


def _log_to_log10(h, args, kws):
    from .algebra import opaque_atom
    return opaque_atom('log10', args, kws) if h == 'log' and len(args) == 1 else None


def _log10_to_log(h, args, kws):
    from .algebra import opaque_atom
    return opaque_atom('log', args, kws) if h == 'log10' and len(args) == 1 else None


def _exp_to_pow10(h, args, kws):
    from .algebra import opaque_atom, _p_const
    return opaque_atom('pow', [Rat(_p_const(10)), args[0]]) if h == 'exp' and len(args) == 1 and isinstance(args[0], Rat) else None


def _pow10_to_exp(h, args, kws):
    from .algebra import opaque_atom
    if h == 'pow' and len(args) == 2 and isinstance(args[0], Rat) and args[0].is_const() and args[0].const() == 10:
        return opaque_atom('exp', [args[1]])
    return None
