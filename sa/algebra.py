"""Exact rational-function normal forms over AST arithmetic (T-ALG).

A normal form is a pair of polynomials (numerator, denominator) with
`fractions.Fraction` coefficients over *atoms*.  Atoms are names, attribute
chains, subscripts and applications of functions the algebra does not open
(`np.exp`, `np.log`, non-integer powers, ...) whose arguments are themselves
normalised, so `exp(a+b)` and `exp(b+a)` are the same atom.  Decimal literals
are read exactly (`0.3048` is 381/1250).  No numeric evaluation of repository
code and no solver is involved; equality is decided by cross-multiplication.
"""

from __future__ import annotations

import ast
from fractions import Fraction

Mono = tuple  # sorted tuple of (atom, exponent)
Poly = dict   # Mono -> Fraction


class AlgebraError(Exception):
    pass


def _p_const(c) -> Poly:
    c = Fraction(c)
    return {(): c} if c != 0 else {}


def _p_atom(a: str) -> Poly:
    return {((a, 1),): Fraction(1)}


def _p_add(a: Poly, b: Poly, sign=1) -> Poly:
    out = dict(a)
    for m, c in b.items():
        v = out.get(m, 0) + sign * c
        if v == 0:
            out.pop(m, None)
        else:
            out[m] = v
    return out


def _m_mul(m1: Mono, m2: Mono) -> Mono:
    d = dict(m1)
    for a, e in m2:
        d[a] = d.get(a, 0) + e
    return tuple(sorted((a, e) for a, e in d.items() if e != 0))


def _p_mul(a: Poly, b: Poly) -> Poly:
    out: Poly = {}
    for m1, c1 in a.items():
        for m2, c2 in b.items():
            m = _m_mul(m1, m2)
            v = out.get(m, 0) + c1 * c2
            if v == 0:
                out.pop(m, None)
            else:
                out[m] = v
    return out


def _p_pow(a: Poly, n: int) -> Poly:
    out = _p_const(1)
    for _ in range(n):
        out = _p_mul(out, a)
    return out


def _p_str(p: Poly) -> str:
    if not p:
        return '0'
    parts = []
    for m, c in sorted(p.items(), key=lambda kv: str(kv[0])):
        mono = '*'.join(a if e == 1 else f'{a}^{e}' for a, e in m)
        parts.append(f'{c}' + (f'*{mono}' if mono else ''))
    return ' + '.join(parts)


class Rat:
    def __init__(self, num: Poly, den: Poly | None = None):
        self.num = num
        self.den = den if den is not None else _p_const(1)
        if not self.den:
            raise AlgebraError('division by zero polynomial')
        # normalise constant denominators
        if list(self.den.keys()) == [()]:
            c = self.den[()]
            self.num = {m: v / c for m, v in self.num.items()}
            self.den = _p_const(1)

    def __add__(self, o):
        return Rat(_p_add(_p_mul(self.num, o.den), _p_mul(o.num, self.den)), _p_mul(self.den, o.den))

    def __sub__(self, o):
        return Rat(_p_add(_p_mul(self.num, o.den), _p_mul(o.num, self.den), -1), _p_mul(self.den, o.den))

    def __mul__(self, o):
        return Rat(_p_mul(self.num, o.num), _p_mul(self.den, o.den))

    def __truediv__(self, o):
        if not o.num:
            raise AlgebraError('division by zero')
        return Rat(_p_mul(self.num, o.den), _p_mul(self.den, o.num))

    def is_const(self):
        return (not self.num or list(self.num.keys()) == [()]) and list(self.den.keys()) == [()]

    def const(self) -> Fraction:
        return self.num.get((), Fraction(0)) / self.den[()]

    def is_zero(self):
        return not self.num

    def atoms(self) -> set[str]:
        return {a for p in (self.num, self.den) for m in p for a, _ in m}

    def __str__(self):
        if list(self.den.keys()) == [()] and self.den[()] == 1:
            return _p_str(self.num)
        return f'({_p_str(self.num)}) / ({_p_str(self.den)})'

    __repr__ = __str__


def poly_equal(a: Rat, b: Rat) -> bool:
    return (a - b).is_zero()


# opaque functions that are symmetric in their (positional) arguments: the atom is written with the arguments sorted
OPAQUE_FUNCS_COMMUTATIVE_ARGS = {'maximum', 'minimum', 'fmax', 'fmin', 'hypot'}


# --- opaque atoms are identified by value, not by spelling -----------------------------------------------------
# An application `f(a, b)` of a function the algebra does not open is an atom.  Two applications of the same function
# are the same atom when their arguments are *equal as rational functions* (decided by cross-multiplication), whatever
# the order in which the arguments were built up (`x/2 + x/2`, `(x*y)/y` and `x` print differently but are equal).
# The first spelling met names the atom; ATOM_PARTS keeps (function, arguments) for rules that explain a difference.
_ATOM_TABLE: dict[tuple, list] = {}
ATOM_PARTS: dict[str, tuple] = {}


def _same_arg(a, b) -> bool:
    if isinstance(a, Rat) and isinstance(b, Rat):
        return poly_equal(a, b)
    return isinstance(a, str) and isinstance(b, str) and a == b


def opaque_atom(head: str, args: list, kws: tuple = ()) -> 'Rat':
    """the atom of `head(args…, kws…)`; args are Rat (compared by value) or text (compared as written)"""
    key = (head, len(args), tuple(kws))
    for known, name in _ATOM_TABLE.setdefault(key, []):
        if all(_same_arg(x, y) for x, y in zip(known, args)):
            return Rat(_p_atom(name))
    name = f'{head}({", ".join([str(a) for a in args] + list(kws))})'
    _ATOM_TABLE[key].append((list(args), name))
    ATOM_PARTS[name] = (head, list(args), tuple(kws))
    return Rat(_p_atom(name))


def _lit(v) -> Fraction:
    if isinstance(v, bool):
        raise AlgebraError('boolean in arithmetic')
    if isinstance(v, Fraction):
        return v
    if isinstance(v, int):
        return Fraction(v)
    if isinstance(v, float):
        return Fraction(repr(v))
    raise AlgebraError(f'non-numeric literal {v!r}')


def normal_form(e: ast.AST, env: dict[str, ast.AST] | None = None, consts: dict[str, object] | None = None,
                depth: int = 0) -> Rat:
    """env: local name -> defining expression (inlined); consts: dotted name -> number."""
    env = env or {}
    consts = consts or {}
    if depth > 60:
        raise AlgebraError('expression too deep')
    if isinstance(e, ast.Constant):
        return Rat(_p_const(_lit(e.value)))
    if isinstance(e, ast.Name):
        if e.id in env:
            sub = env[e.id]
            env2 = {k: v for k, v in env.items() if k != e.id}
            return normal_form(sub, env2, consts, depth + 1)
        if e.id in consts:
            return Rat(_p_const(_lit(consts[e.id])))
        return Rat(_p_atom(e.id))
    if isinstance(e, ast.Attribute):
        txt = ast.unparse(e)
        if txt in consts:
            return Rat(_p_const(_lit(consts[txt])))
        return Rat(_p_atom(txt))
    if isinstance(e, ast.UnaryOp):
        v = normal_form(e.operand, env, consts, depth + 1)
        if isinstance(e.op, ast.USub):
            return Rat(_p_const(0)) - v
        if isinstance(e.op, ast.UAdd):
            return v
        raise AlgebraError(f'unary {type(e.op).__name__}')
    if isinstance(e, ast.BinOp):
        if isinstance(e.op, ast.Pow):
            base = normal_form(e.left, env, consts, depth + 1)
            ex = normal_form(e.right, env, consts, depth + 1)
            if ex.is_const() and ex.const().denominator == 1 and abs(ex.const()) <= 12:
                n = int(ex.const())
                if n >= 0:
                    return Rat(_p_pow(base.num, n), _p_pow(base.den, n))
                return Rat(_p_pow(base.den, -n), _p_pow(base.num, -n))
            return opaque_atom('pow', [base, ex])
        a = normal_form(e.left, env, consts, depth + 1)
        b = normal_form(e.right, env, consts, depth + 1)
        if isinstance(e.op, ast.Add):
            return a + b
        if isinstance(e.op, ast.Sub):
            return a - b
        if isinstance(e.op, ast.Mult):
            return a * b
        if isinstance(e.op, ast.Div):
            return a / b
        raise AlgebraError(f'operator {type(e.op).__name__}')
    if isinstance(e, ast.Call):
        fn = ast.unparse(e.func)
        args = []
        for a in e.args:
            try:
                args.append(normal_form(a, env, consts, depth + 1))
            except AlgebraError:
                args.append(_subst_text(a, env))
        kws = [f'{k.arg}={_subst_text(k.value, env)}' for k in e.keywords]
        short = fn.split('.')[-1]
        if short in ('float', 'asarray', 'array') and len(e.args) == 1 and not e.keywords:
            return normal_form(e.args[0], env, consts, depth + 1)
        if short == 'sqrt' and len(e.args) == 1 and isinstance(args[0], Rat):
            return opaque_atom('pow', [args[0], Rat(_p_const(Fraction(1, 2)))])
        if short in OPAQUE_FUNCS_COMMUTATIVE_ARGS and not kws:
            args = sorted(args, key=str)
        return opaque_atom(short, args, tuple(kws))
    if isinstance(e, ast.Subscript):
        return Rat(_p_atom(_subst_text(e, env)))
    if isinstance(e, ast.IfExp):
        return Rat(_p_atom(_subst_text(e, env)))
    raise AlgebraError(f'cannot normalise {type(e).__name__}: {ast.unparse(e)[:60]}')


def _subst_text(e: ast.AST, env) -> str:
    class T(ast.NodeTransformer):
        def visit_Name(self, n):
            if n.id in env:
                return env[n.id]
            return n
    import copy
    return ' '.join(ast.unparse(T().visit(copy.deepcopy(e))).split())


def fold_constant(e: ast.AST, consts: dict[str, object], env=None):
    """Exact value of a constant expression, or None."""
    try:
        r = normal_form(e, env or {}, consts)
    except AlgebraError:
        return None
    return r.const() if r.is_const() else None


def module_constants(mod, extra: dict[str, object] | None = None) -> dict[str, Fraction]:
    """Fold a module's top-level numeric constants in definition order."""
    out: dict[str, Fraction] = dict(extra or {})
    for s in mod.tree.body:
        tgt = val = None
        if isinstance(s, ast.Assign) and len(s.targets) == 1 and isinstance(s.targets[0], ast.Name):
            tgt, val = s.targets[0].id, s.value
        elif isinstance(s, ast.AnnAssign) and isinstance(s.target, ast.Name) and s.value is not None:
            tgt, val = s.target.id, s.value
        if tgt is None:
            continue
        v = fold_constant(val, out)
        if v is not None:
            out[tgt] = v
    return out
