"""Program-level, reference-guided normalisation (runs on the parsed files before any per-file pass).

Undoes three kinds of behaviour-preserving maintenance that move or respell *definitions* (the per-file passes in
alpha.py / temps.py / prenorm.py only deal with what happens inside a function):

  R  renamed identifiers.  An identifier spelling that the reference program has and the current program has not
     ("vanished") is matched with a spelling the current program has and the reference has not ("new") by the
     statements they occur in (statement heads with locals and all vanished/new spellings masked).  A matched new
     spelling is renamed back *everywhere* in the program.  The target spelling occurs nowhere in the current
     program, so the rename is consistent by construction and cannot change behaviour whatever the match was;
     a wrong match can only fail to help.
  K  new named constants.  A module-level name that the reference does not have, bound once to an immutable
     constant expression, is substituted into its uses (the "introduce a constant for a repeated literal"
     refactoring, reversed).
  M  moved functions.  A reference function that is gone from its file while a function of the same name that the
     reference does not have exists elsewhere (other module, or module level instead of a static method) is
     recorded as moved; the loader registers it under its reference name too and normalises it against its
     reference version.

Nothing here executes repository code.
"""

from __future__ import annotations

import ast
import copy
import re
from collections import Counter

IDENT = re.compile(r'[A-Za-z_][A-Za-z0-9_]*')
_SCOPES = (ast.FunctionDef, ast.AsyncFunctionDef, ast.Lambda)


# ------------------------------------------------------------------------------------------------ statement texts

def _locals_and_params(fn) -> set[str]:
    from .alpha import function_locals
    a = fn.args
    ps = {x.arg for x in a.posonlyargs + a.args + a.kwonlyargs}
    if a.vararg:
        ps.add(a.vararg.arg)
    if a.kwarg:
        ps.add(a.kwarg.arg)
    ps -= {'self', 'cls'}
    return function_locals(fn) | ps


class _Mask(ast.NodeTransformer):
    def __init__(self, names):
        self.names = names

    def visit_Name(self, n):
        if n.id in self.names:
            return ast.copy_location(ast.Name(id='_', ctx=n.ctx), n)
        return n

    def visit_arg(self, n):
        return n


def _head_texts(st) -> list[str]:
    """text of what a statement evaluates itself (nested blocks excluded)"""
    if isinstance(st, (ast.FunctionDef, ast.AsyncFunctionDef)):
        a = st.args
        n = len(a.posonlyargs + a.args + a.kwonlyargs)
        decs = ','.join(ast.unparse(d) for d in st.decorator_list)
        return [f'def {st.name}/{n} @{decs}']
    if isinstance(st, ast.ClassDef):
        return [f'class {st.name}({",".join(ast.unparse(b) for b in st.bases)})']
    if isinstance(st, ast.If) or isinstance(st, ast.While):
        return ['if ' + ast.unparse(st.test)]
    if isinstance(st, (ast.For, ast.AsyncFor)):
        return ['for ' + ast.unparse(st.target) + ' in ' + ast.unparse(st.iter)]
    if isinstance(st, (ast.With, ast.AsyncWith)):
        return ['with ' + ', '.join(ast.unparse(i) for i in st.items)]
    if isinstance(st, ast.Try):
        return ['except ' + ast.unparse(h.type) for h in st.handlers if h.type is not None]
    if isinstance(st, ast.Match):
        return ['match ' + ast.unparse(st.subject)] + ['case ' + ast.unparse(c.pattern) for c in st.cases]
    if isinstance(st, (ast.Import, ast.ImportFrom, ast.Global, ast.Nonlocal, ast.Pass, ast.Break, ast.Continue)):
        return [ast.unparse(st)] if isinstance(st, (ast.Import, ast.ImportFrom)) else []
    try:
        return [ast.unparse(st)]
    except Exception:
        return []


def statement_texts(tree) -> list[str]:
    """one text per statement head of the module, locals and parameters of the enclosing function masked as `_`"""
    out = []

    def walk(body, mask):
        for st in body:
            m = mask
            if isinstance(st, (ast.FunctionDef, ast.AsyncFunctionDef)):
                out.extend(_head_texts(st))
                walk(st.body, mask | _locals_and_params(st))
                continue
            if isinstance(st, ast.ClassDef):
                out.extend(_head_texts(st))
                walk(st.body, mask)
                continue
            node = _Mask(m).visit(copy.deepcopy(st)) if m else st
            # nested defs inside expressions (lambdas) stay as they are
            for t in _head_texts(node):
                out.append(' '.join(t.split()))
            for f in ('body', 'orelse', 'finalbody'):
                b = getattr(st, f, None)
                if isinstance(b, list) and b and isinstance(b[0], ast.stmt):
                    walk(b, m)
            for h in getattr(st, 'handlers', None) or []:
                walk(h.body, m)
            for c in getattr(st, 'cases', None) or []:
                walk(c.body, m)
    walk(tree.body, frozenset())
    return out


def identifiers(tree) -> set[str]:
    out = set()
    for n in ast.walk(tree):
        if isinstance(n, ast.Name):
            out.add(n.id)
        elif isinstance(n, ast.Attribute):
            out.add(n.attr)
        elif isinstance(n, (ast.FunctionDef, ast.AsyncFunctionDef, ast.ClassDef)):
            out.add(n.name)
        elif isinstance(n, ast.arg):
            out.add(n.arg)
        elif isinstance(n, ast.keyword) and n.arg:
            out.add(n.arg)
        elif isinstance(n, ast.alias):
            out.add((n.asname or n.name).split('.')[0])
            out.update(n.name.split('.'))
        elif isinstance(n, (ast.MatchAs, ast.MatchStar)) and getattr(n, 'name', None):
            out.add(n.name)
        elif isinstance(n, (ast.Global, ast.Nonlocal)):
            out.update(n.names)
        elif isinstance(n, ast.ExceptHandler) and n.name:
            out.add(n.name)
    return out


def bound_identifiers(tree) -> set[str]:
    """spellings that the program itself binds (definitions, assignment / loop / with targets, parameters, attribute
    stores, class fields, import aliases of repository modules) - as opposed to names of other libraries it only uses"""
    out = set()
    for n in ast.walk(tree):
        if isinstance(n, (ast.FunctionDef, ast.AsyncFunctionDef, ast.ClassDef)):
            out.add(n.name)
        elif isinstance(n, ast.arg):
            out.add(n.arg)
        elif isinstance(n, ast.Name) and isinstance(n.ctx, (ast.Store, ast.Del)):
            out.add(n.id)
        elif isinstance(n, ast.Attribute) and isinstance(n.ctx, (ast.Store, ast.Del)):
            out.add(n.attr)
        elif isinstance(n, ast.ImportFrom):
            own = bool(n.level) or (n.module or '').split('.')[0] == 'AEIC'
            for a in n.names:
                if a.asname:
                    out.add(a.asname)
                elif own:
                    out.add(a.name)
        elif isinstance(n, (ast.MatchAs, ast.MatchStar)) and getattr(n, 'name', None):
            out.add(n.name)
        elif isinstance(n, ast.ExceptHandler) and n.name:
            out.add(n.name)
    return out


def build_reference_part(trees: dict[str, ast.Module]) -> dict:
    """what build_reference stores for this module: statement texts per file and the identifier set"""
    ids = set()
    stm = {}
    params = {}
    from .alpha import _functions
    for rel, tree in trees.items():
        ids |= identifiers(tree)
        stm[rel] = statement_texts(tree)
        for q, fn in _functions(tree):
            a = fn.args
            params.setdefault(rel, {})[q] = [x.arg for x in a.posonlyargs + a.args + a.kwonlyargs]
    bodies = {}
    for rel, tree in trees.items():
        for q, fn in _functions(tree):
            bodies.setdefault(rel, {})[q] = body_hash(fn)
    srcs = {}
    for rel, tree in trees.items():
        for q, fn in _functions(tree):
            if '<locals>' not in q:
                srcs.setdefault(rel, {})[q] = ast.unparse(fn)
    bound = set()
    for tree in trees.values():
        bound |= bound_identifiers(tree)
    from . import structnorm
    return {'__idents__': sorted(ids), '__bound__': sorted(bound), '__stmts__': stm, '__params__': params,
            '__bodyhash__': bodies, '__src__': srcs,
            '__toplevel__': {rel: structnorm.toplevel(tree) for rel, tree in trees.items()},
            '__attrs__': sorted(structnorm.attribute_spellings(trees.values()))}


def body_hash(fn) -> str:
    """digest of a function's statements (docstring, annotations and decorators left out)"""
    import hashlib
    body = [s for i, s in enumerate(fn.body)
            if not (i == 0 and isinstance(s, ast.Expr) and isinstance(s.value, ast.Constant) and isinstance(s.value.value, str))]
    txt = '\n'.join(' '.join(ast.unparse(s).split()) for s in body)
    return hashlib.sha1(txt.encode()).hexdigest()[:16]


# ------------------------------------------------------------------------------------------------ R  renames

def _occurrences(stmts_by_file: dict[str, list[str]], spellings: set[str], mask: set[str]) -> dict[str, Counter]:
    """spelling -> Counter of masked statement texts it occurs in"""
    occ: dict[str, Counter] = {s: Counter() for s in spellings}
    if not spellings:
        return occ
    for rel, texts in stmts_by_file.items():
        for t in texts:
            found = set(IDENT.findall(t))
            hit = found & spellings
            if not hit:
                continue
            masked = IDENT.sub(lambda m: '?' if m.group(0) in mask else m.group(0), t)
            for s in hit:
                occ[s][masked] += 1
    return occ


def match_renames(ref_ids: set[str], ref_stmts, cur_ids: set[str], cur_stmts, ref_bound=None, cur_bound=None) -> dict[str, str]:
    vanished = ref_ids - cur_ids
    new = cur_ids - ref_ids
    # only names the program binds itself can have been renamed by a maintenance commit; a spelling that is merely
    # used (a function of another library, an attribute of an imported module) is a different thing under another name
    if ref_bound is not None:
        vanished &= ref_bound
    if cur_bound is not None:
        new &= cur_bound
    if not vanished or not new:
        return {}
    mask = vanished | new
    ro = _occurrences(ref_stmts, vanished, mask)
    co = _occurrences(cur_stmts, new, mask)
    pairs = []
    for n, cn in co.items():
        tn = sum(cn.values())
        if not tn:
            continue
        for v, cv in ro.items():
            tv = sum(cv.values())
            if not tv:
                continue
            inter = sum((cn & cv).values())
            if not inter:
                continue
            sim = inter / max(tn, tv)
            if sim < 0.5:
                continue
            # equal contexts (two siblings renamed alike): the spelling decides
            import difflib
            pairs.append((sim + 0.3 * difflib.SequenceMatcher(None, n, v).ratio(), n, v))
    pairs.sort(key=lambda p: (-p[0], p[1], p[2]))
    best_n, best_v = {}, {}
    for sim, n, v in pairs:
        best_n.setdefault(n, []).append((sim, v))
        best_v.setdefault(v, []).append((sim, n))
    out, used_v = {}, set()
    for sim, n, v in pairs:
        if n in out or v in used_v:
            continue
        # unambiguous: the runner-up for either side is clearly worse
        r1 = [s for s, x in best_n[n] if x != v and x not in used_v]
        r2 = [s for s, x in best_v[v] if x != n and x not in out]
        if (r1 and r1[0] > sim - 0.04) or (r2 and r2[0] > sim - 0.04):
            continue
        out[n] = v
        used_v.add(v)
    return out


_REFLECT = {'getattr', 'setattr', 'hasattr', 'delattr'}


class _RenameAll(ast.NodeTransformer):
    def __init__(self, mp):
        self.mp = mp
        self.n = 0

    def _r(self, s):
        if s in self.mp:
            self.n += 1
            return self.mp[s]
        return s

    def visit_Name(self, n):
        n.id = self._r(n.id)
        return n

    def visit_Attribute(self, n):
        self.generic_visit(n)
        n.attr = self._r(n.attr)
        return n

    def visit_FunctionDef(self, n):
        n.name = self._r(n.name)
        self.generic_visit(n)
        return n

    visit_AsyncFunctionDef = visit_FunctionDef
    visit_ClassDef = visit_FunctionDef

    def visit_arg(self, n):
        n.arg = self._r(n.arg)
        if n.annotation is not None:
            self.visit(n.annotation)
        return n

    def visit_keyword(self, n):
        if n.arg:
            n.arg = self._r(n.arg)
        self.generic_visit(n)
        return n

    def visit_ImportFrom(self, n):
        own = bool(n.level) or (n.module or '').split('.')[0] == 'AEIC'
        for a in n.names:
            if own and a.name in self.mp:
                a.name = self._r(a.name)
            if a.asname:
                a.asname = self._r(a.asname)
        return n

    def visit_Import(self, n):
        for a in n.names:
            if a.asname:
                a.asname = self._r(a.asname)
        return n

    def visit_Global(self, n):
        n.names = [self._r(x) for x in n.names]
        return n

    visit_Nonlocal = visit_Global

    def visit_ExceptHandler(self, n):
        if n.name:
            n.name = self._r(n.name)
        self.generic_visit(n)
        return n

    def visit_MatchAs(self, n):
        if n.name:
            n.name = self._r(n.name)
        self.generic_visit(n)
        return n

    def visit_Call(self, n):
        self.generic_visit(n)
        # reflection by name
        if isinstance(n.func, ast.Name) and n.func.id in _REFLECT and len(n.args) >= 2 \
                and isinstance(n.args[1], ast.Constant) and isinstance(n.args[1].value, str):
            n.args[1].value = self._r(n.args[1].value)
        return n

    def visit_Subscript(self, n):
        self.generic_visit(n)
        if isinstance(n.value, ast.Attribute) and n.value.attr == '__dict__' and isinstance(n.slice, ast.Constant) \
                and isinstance(n.slice.value, str):
            n.slice.value = self._r(n.slice.value)
        return n

    def visit_Compare(self, n):
        self.generic_visit(n)
        if isinstance(n.left, ast.Constant) and isinstance(n.left.value, str) and len(n.comparators) == 1 \
                and isinstance(n.comparators[0], ast.Attribute) and n.comparators[0].attr == '__dict__':
            n.left.value = self._r(n.left.value)
        return n

    def visit_Assign(self, n):
        self.generic_visit(n)
        # names listed as strings in module / class level tables (FIXED_FIELDS, __slots__, __all__)
        if len(n.targets) == 1 and isinstance(n.targets[0], ast.Name) and \
                (n.targets[0].id.isupper() or n.targets[0].id.startswith('__')) and \
                isinstance(n.value, (ast.List, ast.Tuple, ast.Set)):
            for e in n.value.elts:
                if isinstance(e, ast.Constant) and isinstance(e.value, str):
                    e.value = self._r(e.value)
        return n


# ------------------------------------------------------------------------------------------------ K  new constants

_VALUE_CTORS = {'date', 'datetime', 'timedelta', 'time', 'frozenset', 'Path', 'PurePath', 'Fraction', 'Decimal', 'complex',
                'range', 'int', 'float', 'str', 'bytes', 'bool', 'tuple'}


def _immutable_const(e, known: set[str]) -> bool:
    if isinstance(e, ast.Constant):
        return True
    if isinstance(e, ast.Tuple):
        return all(_immutable_const(x, known) for x in e.elts)
    if isinstance(e, ast.UnaryOp):
        return _immutable_const(e.operand, known)
    if isinstance(e, ast.BinOp):
        return _immutable_const(e.left, known) and _immutable_const(e.right, known)
    if isinstance(e, ast.Name):
        return e.id in known
    if isinstance(e, ast.Call) and isinstance(e.func, ast.Name) and e.func.id in _VALUE_CTORS \
            and not any(k.arg is None for k in e.keywords):
        # constructors of immutable value objects with constant arguments
        return all(_immutable_const(a, known) for a in e.args) and all(_immutable_const(k.value, known) for k in e.keywords)
    if isinstance(e, ast.JoinedStr):
        return all(isinstance(v, ast.Constant) or (isinstance(v, ast.FormattedValue) and _immutable_const(v.value, known))
                   for v in e.values)
    return False


def fold_new_constants(trees: dict[str, ast.Module], ref_ids: set[str], modnames: dict[str, str]) -> int:
    """substitute module-level constants that the reference does not have into their uses"""
    done = 0
    exported: dict[tuple[str, str], ast.expr] = {}
    for rel, tree in trees.items():
        # names bound at module level, how often, and the immutable module constants (old ones may be operands)
        count = Counter()
        for st in tree.body:
            for t in (st.targets if isinstance(st, ast.Assign) else [st.target] if isinstance(st, ast.AnnAssign) else []):
                for x in ast.walk(t):
                    if isinstance(x, ast.Name):
                        count[x.id] += 1
        stored_elsewhere = set()
        for n in ast.walk(tree):
            if isinstance(n, ast.Global):
                stored_elsewhere |= set(n.names)
        imported_caps = {a.asname or a.name for st in tree.body if isinstance(st, ast.ImportFrom) for a in st.names
                         if (a.asname or a.name).isupper()}
        simple = {}
        for st in tree.body:
            if isinstance(st, ast.Assign) and len(st.targets) == 1 and isinstance(st.targets[0], ast.Name):
                simple[st.targets[0].id] = st.value
            elif isinstance(st, ast.AnnAssign) and isinstance(st.target, ast.Name) and st.value is not None:
                simple[st.target.id] = st.value
        old_consts = {k for k, v in simple.items() if count[k] == 1 and k not in stored_elsewhere
                      and _immutable_const(v, imported_caps)} | imported_caps
        new_consts = {}
        for k, v in simple.items():
            if k in ref_ids or count[k] != 1 or k in stored_elsewhere:
                continue
            if _immutable_const(v, old_consts | set(new_consts)):
                new_consts[k] = v
        if not new_consts:
            continue
        # resolve new constants used inside new constants
        for k in list(new_consts):
            new_consts[k] = _SubstConst(new_consts).visit(copy.deepcopy(new_consts[k]))
        # do not substitute where the name is shadowed by a local / parameter
        sub = _SubstConst(new_consts)
        for st in tree.body:
            if isinstance(st, (ast.Assign, ast.AnnAssign)) and any(
                    isinstance(x, ast.Name) and x.id in new_consts and isinstance(x.ctx, ast.Store) for x in ast.walk(st)):
                continue
            sub.visit(st)
        done += sub.n
        for k, v in new_consts.items():
            exported[(modnames.get(rel, ''), k)] = v
    # importers: `from .mod import NEW`
    if exported:
        for rel, tree in trees.items():
            mod = modnames.get(rel, '')
            pkg = mod.split('.')
            is_pkg = rel.endswith('__init__.py')
            local = {}
            for st in tree.body:
                if isinstance(st, ast.ImportFrom):
                    if st.level:
                        base = pkg if is_pkg else pkg[:-1]
                        base = base[: len(base) - (st.level - 1)]
                        src = '.'.join(base + ([st.module] if st.module else []))
                    else:
                        src = st.module or ''
                    for a in st.names:
                        if (src, a.name) in exported:
                            local[a.asname or a.name] = exported[(src, a.name)]
            if local:
                sub = _SubstConst(local)
                for st in tree.body:
                    if not isinstance(st, ast.ImportFrom):
                        sub.visit(st)
                done += sub.n
    return done


class _SubstConst(ast.NodeTransformer):
    def __init__(self, mp):
        self.mp = mp
        self.n = 0
        self.shadow: list[set[str]] = []

    def _visit_fn(self, n):
        self.shadow.append(_locals_and_params(n) if not isinstance(n, ast.Lambda) else
                           {x.arg for x in n.args.args + n.args.kwonlyargs})
        self.generic_visit(n)
        self.shadow.pop()
        return n

    visit_FunctionDef = visit_AsyncFunctionDef = visit_Lambda = _visit_fn

    def visit_Name(self, n):
        if isinstance(n.ctx, ast.Load) and n.id in self.mp and not any(n.id in s for s in self.shadow):
            self.n += 1
            new = copy.deepcopy(self.mp[n.id])
            for x in ast.walk(new):
                if isinstance(x, (ast.expr, ast.stmt)):
                    x.lineno, x.col_offset = getattr(n, 'lineno', 0), getattr(n, 'col_offset', 0)
                    x.end_lineno, x.end_col_offset = getattr(n, 'end_lineno', None), getattr(n, 'end_col_offset', None)
            return new
        return n


# ------------------------------------------------------------------------------------------------ M  moved functions

def moved_functions(trees: dict[str, ast.Module], ref_funcs: dict[str, list[str]], ref_hash=None, ref_src=None):
    """(file A, qualname) of the reference -> (file B, qualname') in the current program.  A function that was
    moved *and* renamed is recognised by its unchanged body and given its old name back first."""
    from .alpha import _functions
    cur = {rel: {q: fn for q, fn in _functions(t)} for rel, t in trees.items()}
    if ref_hash:
        van = {(rel, q): ref_hash.get(rel, {}).get(q) for rel, qs in ref_funcs.items() for q in qs
               if '<locals>' not in q and q not in cur.get(rel, {})}
        allnames = set()
        for t in trees.values():
            allnames |= identifiers(t)
        fresh_h: dict[str, list] = {}
        for rel, fs in cur.items():
            known = set(ref_funcs.get(rel, []))
            for q, fn in fs.items():
                if q not in known and '<locals>' not in q:
                    fresh_h.setdefault(body_hash(fn), []).append((rel, q, fn))
        by_h: dict[str, list] = {}
        for k, h in van.items():
            by_h.setdefault(h, []).append(k)
        ren = {}
        for h, ks in by_h.items():
            fr = fresh_h.get(h or '', [])
            if h and len(ks) == 1 and len(fr) == 1:
                old = ks[0][1].rsplit('.', 1)[-1]
                new = fr[0][2].name
                if old != new and old not in allnames:
                    ren[new] = old
        if ren:
            for t in trees.values():
                _RenameAll(ren).visit(t)
            cur = {rel: {q: fn for q, fn in _functions(t)} for rel, t in trees.items()}
    # moved, renamed *and* edited: a vanished reference function and a new function that share most of their statement
    # heads (locals masked), when the pairing is unambiguous; the new function gets the old name back (it occurs
    # nowhere in the current program, so the rename is consistent whatever the match was)
    if ref_src:
        still = [(rel, q) for rel, qs in ref_funcs.items() for q in qs
                 if '<locals>' not in q and q not in cur.get(rel, {})]
        allnames = set()
        for t in trees.values():
            allnames |= identifiers(t)
        freshf = []
        for rel, fs in cur.items():
            known = set(ref_funcs.get(rel, []))
            for q, fn in fs.items():
                if q not in known and '<locals>' not in q:
                    freshf.append((rel, q, fn))
        still = [(rel, q) for rel, q in still if q.rsplit('.', 1)[-1] not in allnames]
        if still and freshf:
            def heads(fn):
                m = ast.Module(body=[fn], type_ignores=[])
                return Counter(t for t in statement_texts(m) if not t.startswith('def '))
            fh = [(rel, q, fn, heads(fn)) for rel, q, fn in freshf]
            scored = []
            for rel, q in still:
                src = ref_src.get(rel, {}).get(q)
                if not src:
                    continue
                try:
                    rh = heads(ast.parse(src).body[0])
                except (SyntaxError, IndexError):
                    continue
                tot = sum(rh.values())
                if tot < 4:
                    continue
                for frel, fq, fn, ch in fh:
                    inter = sum((rh & ch).values())
                    sim = inter / max(tot, sum(ch.values()) or 1)
                    if sim >= 0.6:
                        scored.append((sim, rel, q, frel, fq, fn))
            scored.sort(key=lambda x: -x[0])
            ren2, used_r, used_f = {}, set(), set()
            for sim, rel, q, frel, fq, fn in scored:
                if (rel, q) in used_r or (frel, fq) in used_f:
                    continue
                rivals = [s2 for s2, r2, q2, fr2, fq2, _ in scored
                          if ((r2, q2) == (rel, q)) != ((fr2, fq2) == (frel, fq)) and s2 > sim - 0.1]
                if rivals:
                    continue
                used_r.add((rel, q))
                used_f.add((frel, fq))
                old_name = q.rsplit('.', 1)[-1]
                if fn.name != old_name and fn.name not in ren2:
                    # the new spelling must not be shared with something else
                    if sum(1 for t in trees.values() for x in ast.walk(t)
                           if isinstance(x, (ast.FunctionDef, ast.AsyncFunctionDef, ast.ClassDef)) and x.name == fn.name) == 1:
                        ren2[fn.name] = old_name
            if ren2:
                for t in trees.values():
                    _RenameAll(ren2).visit(t)
                cur = {rel: {q: fn for q, fn in _functions(t)} for rel, t in trees.items()}
    vanished = [(rel, q) for rel, qs in ref_funcs.items() for q in qs
                if '<locals>' not in q and q not in cur.get(rel, {})]
    if not vanished:
        return {}
    fresh: dict[str, list[tuple[str, str]]] = {}
    for rel, fs in cur.items():
        known = set(ref_funcs.get(rel, []))
        for q in fs:
            if q not in known and '<locals>' not in q:
                fresh.setdefault(q.rsplit('.', 1)[-1], []).append((rel, q))
    out = {}
    want: dict[str, list[tuple[str, str]]] = {}
    for rel, q in vanished:
        want.setdefault(q.rsplit('.', 1)[-1], []).append((rel, q))
    for name, vs in want.items():
        cands = fresh.get(name, [])
        if len(vs) == 1 and len(cands) == 1:
            out[vs[0]] = cands[0]
    return out


# ------------------------------------------------------------------------------------------------ I  inlined helpers

def canonical_form(fn) -> str:
    """a function up to local names, single-use / effect-free temporaries, docstrings and annotations"""
    from . import prenorm, temps
    from .alpha import function_locals
    from .loader import _Canon
    f = copy.deepcopy(fn)
    f.body = [s for i, s in enumerate(f.body)
              if not (i == 0 and isinstance(s, ast.Expr) and isinstance(s.value, ast.Constant)
                      and isinstance(s.value.value, str))] or [ast.Pass()]
    f.returns = None
    for a in ast.walk(f.args):
        if isinstance(a, ast.arg):
            a.annotation = None
    for n in ast.walk(f):
        if isinstance(n, ast.AnnAssign) and n.value is not None and isinstance(n.target, ast.Name):
            pass
    _split_tuple_assigns(f)
    ast.fix_missing_locations(f)
    _renumber(f)
    prenorm.inline_new_locals(f, set(), set(), set())
    temps.flatten(f)
    f = _Canon().visit(f)
    # locals named by order of first binding
    order = []
    for n in _preorder(f):
        if isinstance(n, ast.Name) and isinstance(n.ctx, ast.Store) and n.id not in order:
            order.append(n.id)
    locs = function_locals(f)
    mp = {n: f'L{i}' for i, n in enumerate(x for x in order if x in locs)}
    for n in ast.walk(f):
        if isinstance(n, ast.Name) and n.id in mp:
            n.id = mp[n.id]
    return '\n'.join(' '.join(ast.unparse(s).split()) for s in f.body)


def _preorder(n):
    yield n
    for c in ast.iter_child_nodes(n):
        yield from _preorder(c)


def _renumber(fn):
    """line numbers in source order (the passes order binding sites by line)"""
    for i, n in enumerate(_preorder(fn)):
        if isinstance(n, (ast.stmt, ast.expr, ast.arg, ast.keyword, ast.excepthandler)):
            n.lineno = n.end_lineno = i + 1
            n.col_offset = n.end_col_offset = 0


def _split_tuple_assigns(fn):
    """a, b = x, y  ->  a = x; b = y  when no value reads a target of the same statement"""
    for node in ast.walk(fn):
        for f in ('body', 'orelse', 'finalbody'):
            b = getattr(node, f, None)
            if not (isinstance(b, list) and b and isinstance(b[0], ast.stmt)):
                continue
            nb = []
            for st in b:
                if isinstance(st, ast.Assign) and len(st.targets) == 1 and isinstance(st.targets[0], ast.Tuple) \
                        and isinstance(st.value, ast.Tuple) and len(st.targets[0].elts) == len(st.value.elts) \
                        and all(isinstance(e, ast.Name) for e in st.targets[0].elts) \
                        and not any(isinstance(e, ast.Starred) for e in st.value.elts):
                    tn = {e.id for e in st.targets[0].elts}
                    if not any(isinstance(x, ast.Name) and x.id in tn for v in st.value.elts for x in ast.walk(v)):
                        for t, v in zip(st.targets[0].elts, st.value.elts):
                            nb.append(ast.copy_location(ast.Assign(targets=[t], value=v), st))
                        continue
                nb.append(st)
            setattr(node, f, nb)


def restore_inlined_helpers(trees: dict[str, ast.Module], R: dict, skip: set) -> list[str]:
    """Reference helpers that are gone, while each reference caller now equals (in canonical form) the reference
    caller with the reference helpers inlined: the current caller *is* that inlining, so the reference caller and
    the helpers are put back.  Proof by normal form; anything that does not match is left alone."""
    from . import prenorm
    from .alpha import _functions
    from .loader import _Canon
    done = []
    srcs = R.get('__src__', {})
    calls = R.get('__calls__', {})
    for rel, tree in trees.items():
        ref_here = srcs.get(rel, {})
        if not ref_here:
            continue
        cur = {q: fn for q, fn in _functions(tree)}
        gone = {}
        for q in ref_here:
            if q in cur or (rel, q) in skip or '<locals>' in q:
                continue
            try:
                h = _Canon().visit(ast.parse(ref_here[q])).body[0]
            except SyntaxError:
                continue
            if prenorm._eligible_helper(h):
                gone[q] = h
        if not gone:
            continue
        names = {q.rsplit('.', 1)[-1]: q for q in gone}

        def cls_of(q):
            return ast.ClassDef(name=q.rsplit('.', 2)[-2], bases=[], keywords=[], body=[], decorator_list=[]) if '.' in q else None

        def mentions(cq, seen=()):
            out = set()
            for t in calls.get(rel, {}).get(cq, {}):
                n = t.rsplit('.', 1)[-1]
                if n in names and names[n] not in seen:
                    out.add(names[n])
                    out |= mentions(names[n], tuple(seen) + (names[n],))
            return out

        restored = set()
        for cq, node in cur.items():
            if cq not in ref_here or '<locals>' in cq:
                continue
            used = mentions(cq)
            if not used:
                continue
            refc = _Canon().visit(ast.parse(ref_here[cq])).body[0]
            inl = copy.deepcopy(refc)
            ok = True
            guard = 0
            while ok and guard < 40:
                guard += 1
                progressed = False
                for q in sorted(used):
                    cn = cls_of(q)
                    same = cn is not None and '.' in cq and cq.rsplit('.', 1)[0].rsplit('.', 1)[-1] == cn.name
                    sites = prenorm._sites(inl, q.rsplit('.', 1)[-1], cn, cn if same else None)
                    if sites:
                        body, i, st, c, how, where = sites[0]
                        if not prenorm._inline_call(inl, body, i, st, c, gone[q], how, where):
                            ok = False
                        progressed = True
                        break
                if not progressed:
                    break
            if not ok:
                continue
            try:
                if canonical_form(inl) != canonical_form(node):
                    continue
            except Exception:
                continue
            node.body = refc.body
            node.args = refc.args
            node.decorator_list = refc.decorator_list
            ln = node.lineno
            for x in ast.walk(node):
                if x is not node and isinstance(x, (ast.stmt, ast.expr, ast.arg, ast.keyword, ast.excepthandler)):
                    x.lineno = ln + getattr(x, 'lineno', 1) - 1
                    x.end_lineno = ln + (getattr(x, 'end_lineno', None) or getattr(x, 'lineno', 1)) - 1
            for q in used:
                if q in restored:
                    continue
                restored.add(q)
                helper = gone[q]
                owner = tree.body
                if '.' in q:
                    for n in ast.walk(tree):
                        if isinstance(n, ast.ClassDef) and n.name == q.rsplit('.', 2)[-2]:
                            owner = n.body
                            break
                for x in ast.walk(helper):
                    if isinstance(x, (ast.stmt, ast.expr, ast.arg, ast.keyword, ast.excepthandler)):
                        x.lineno = node.lineno
                        x.end_lineno = node.lineno
                owner.append(helper)
                done.append(f'{rel}:{q}')
    return done


# ------------------------------------------------------------------------------------------------ entry point

def apply(files: list[tuple[str, str, ast.Module, str]], R: dict) -> dict:
    """files: [(rel, modname, tree, src)] of src/AEIC, parsed.  Mutates the trees; returns what was done."""
    import hashlib
    info = {'renamed': {}, 'constants_folded': 0, 'moved': {}}
    if '__idents__' not in R:
        return info
    digests = R.get('__digest__', {})
    changed = [rel for rel, _, _, src in files
               if digests.get(rel) != hashlib.sha256(src.encode()).hexdigest()]
    gone = [rel for rel in digests if rel not in {f[0] for f in files}]
    if not changed and not gone:
        return info
    trees = {rel: tree for rel, _, tree, _ in files}
    modnames = {rel: mod for rel, mod, _, _ in files}
    ref_ids = set(R['__idents__'])
    # R
    cur_ids = set()
    for t in trees.values():
        cur_ids |= identifiers(t)
    cur_stmts = {rel: (R['__stmts__'][rel] if rel not in changed and rel in R['__stmts__'] else statement_texts(t))
                 for rel, t in trees.items()}
    cur_bound = set()
    for t in trees.values():
        cur_bound |= bound_identifiers(t)
    mp = match_renames(ref_ids, R['__stmts__'], cur_ids, cur_stmts,
                       set(R['__bound__']) if '__bound__' in R else None, cur_bound)
    if mp:
        for t in trees.values():
            _RenameAll(mp).visit(t)
        info['renamed'] = mp
    # M
    info['moved'] = moved_functions(trees, R.get('__funcs__', {}), R.get('__bodyhash__'), R.get('__src__'))
    # D X T A (structnorm.py): definitions put back where the reference has them, helpers of other modules pulled in,
    # record classes erased, parameter objects dissolved
    import os
    if os.environ.get('AEIC_VERIF_NO_STRUCTNORM') != '1':
        from . import structnorm
        info['struct'] = structnorm.apply(files, R, info['moved'])
    # names each file's definitions are referred to by from *other* files (pass H must not drop those definitions)
    from . import prenorm
    refs_by_file = {rel: identifiers(t) for rel, t in trees.items()}
    prenorm.EXTERNAL_REFS = {rel: set().union(*[v for r, v in refs_by_file.items() if r != rel]) if len(refs_by_file) > 1 else set()
                             for rel in changed}
    # K
    info['constants_folded'] = fold_new_constants(trees, ref_ids, modnames)
    # I
    info['restored_helpers'] = restore_inlined_helpers(trees, R, set(info['moved']))
    return info
