"""Post-load normalisation of *single-use helper objects* (runs once the program model exists).

A refactoring that moves the state of one function into a small new class - `job = _MergeJob(a, b); job.scan();
x = job.indexable; ...` - leaves every rule that reads the function looking at opaque method calls.  When the class is
one the reference tree does not have, the local is bound once to a new instance, the object is used only through its
attributes and methods and never leaves the function, and no class-level container would be shared between instances,
the object is the set of its attributes kept in locals: the constructor is spliced in at the instantiation, the methods
at their calls, `v.attr` becomes the local `v__attr` (the implementation is `rules/c08.dissolve_local_objects`, written
for C08 in hardening round 10 and lifted here so that every property sees the function as it was before the class was
introduced).  Anything that does not meet the conditions is left as written.
"""

from __future__ import annotations

import os


def apply(prog) -> list[str]:
    if os.environ.get('AEIC_VERIF_NO_OBJNORM') == '1':
        return []
    from . import alpha
    R = alpha._load_ref()
    funcs = R.get('__funcs__') or {}
    bound = set(R.get('__bound__') or [])
    digests = R.get('__digest__') or {}
    if not funcs or not bound:
        return []
    try:
        from .rules.c08 import dissolve_local_objects
    except Exception:
        return []
    done = []
    for rel, m in list(prog.modules.items()):
        if not rel.startswith('src/') or digests.get(rel) == m.digest:
            continue
        new_classes = {k for k, c in m.classes.items() if c.module is m and '.' not in k and k not in bound}
        if not new_classes:
            continue
        known = set(funcs.get(rel, []))
        for q, fi in list(m.functions.items()):
            if q not in known or fi.module is not m:
                continue
            import ast
            if not any(isinstance(x, ast.Call) and isinstance(x.func, ast.Name) and x.func.id in new_classes
                       for x in ast.walk(fi.node)):
                continue
            try:
                names = dissolve_local_objects(prog, m, fi, only=new_classes)
            except Exception:
                names = []
            if names:
                _fold_append_runs(fi.node, {f'{n}__' for n in names})
                _merge_aliases(fi.node, {f'{n}__' for n in names})
            done += [f'{rel}:{q}:{n}' for n in names]
    return done


def _merge_aliases(fn, prefixes) -> int:
    """`L = v__a` where L is bound only there and the attribute-local `v__a` is not stored afterwards: the two names
    stand for one object from then on, and `v__a` was introduced by the dissolution - it takes the name L everywhere
    (when L is not used before the statement) and the statement goes"""
    import ast
    n = 0
    for _ in range(10):
        hit = None
        stores = {}
        for x in ast.walk(fn):
            if isinstance(x, ast.Name) and not isinstance(x.ctx, ast.Load):
                stores.setdefault(x.id, []).append(x)
        for node in ast.walk(fn):
            b = getattr(node, 'body', None)
            if not (isinstance(b, list) and b and isinstance(b[0], ast.stmt)) or node is not fn:
                continue
            for i, st in enumerate(b):
                if isinstance(st, ast.Assign) and len(st.targets) == 1 and isinstance(st.targets[0], ast.Name) \
                        and isinstance(st.value, ast.Name) and any(st.value.id.startswith(p) for p in prefixes):
                    L, A = st.targets[0].id, st.value.id
                    if len(stores.get(L, [])) != 1:
                        continue
                    if any((getattr(y, 'lineno', 0) or 0) > st.lineno for y in stores.get(A, [])):
                        continue
                    # L not mentioned before the statement
                    if any(isinstance(y, ast.Name) and y.id == L and y is not st.targets[0]
                           and (getattr(y, 'lineno', 0) or 0) <= st.lineno for y in ast.walk(fn)):
                        continue
                    if any(isinstance(y, ast.arg) and y.arg == L for y in ast.walk(fn)):
                        continue
                    hit = (b, i, L, A)
                    break
            if hit:
                break
        if not hit:
            break
        b, i, L, A = hit
        del b[i]
        for y in ast.walk(fn):
            if isinstance(y, ast.Name) and y.id == A:
                y.id = L
        n += 1
    return n


def _fold_append_runs(fn, prefixes) -> int:
    """`v = []` directly followed by `v.append(e1)` ... `v.append(en)` (the dissolved form of an accumulator object
    filled by its `add` method) is `v = [e1, .., en]`"""
    import ast
    n = 0
    for node in ast.walk(fn):
        for f in ('body', 'orelse', 'finalbody'):
            b = getattr(node, f, None)
            if not (isinstance(b, list) and b and isinstance(b[0], ast.stmt)):
                continue
            i = 0
            while i < len(b):
                st = b[i]
                if isinstance(st, ast.Assign) and len(st.targets) == 1 and isinstance(st.targets[0], ast.Name) \
                        and isinstance(st.value, ast.List) and not st.value.elts \
                        and any(st.targets[0].id.startswith(p) for p in prefixes):
                    v = st.targets[0].id
                    j = i + 1
                    elts = []
                    while j < len(b):
                        s2 = b[j]
                        if isinstance(s2, ast.Expr) and isinstance(s2.value, ast.Call) and isinstance(s2.value.func, ast.Attribute) \
                                and s2.value.func.attr == 'append' and isinstance(s2.value.func.value, ast.Name) \
                                and s2.value.func.value.id == v and len(s2.value.args) == 1 and not s2.value.keywords \
                                and not any(isinstance(x, ast.Name) and x.id == v for x in ast.walk(s2.value.args[0])):
                            elts.append(s2.value.args[0])
                            j += 1
                        else:
                            break
                    if elts:
                        st.value = ast.copy_location(ast.List(elts=elts, ctx=ast.Load()), st.value)
                        for e in elts:
                            e._parent = st.value
                        st.value._parent = st
                        del b[i + 1:j]
                        n += 1
                i += 1
    return n
