"""T-ROLE: lexical role inference and argument/operand role agreement.

A role is inferred from the *terminal identifier* of an access path
(`origin.airport.latitude` -> lat, `lons[1:]` -> lon).  Only definite role
conflicts are ever reported; unknown roles are counted as unresolved.
"""

from __future__ import annotations

import ast
import re

from .astutil import call_name, calls_in, kwarg, norm, single_def_value, tuple_def_component
from .loader import FunctionInfo, Program, dotted_name

LATLON = {
    'lat': re.compile(r'(^|_)(lat|lats|latitude|latitudes|lat\d|lats\d)($|_)|latitude|^lat', re.I),
    'lon': re.compile(r'(^|_)(lon|lons|lng|long|longitude|longitudes|lon\d|lons\d)($|_)|longitude|^lon', re.I),
}


def ident_role(name: str, lexicon=LATLON) -> str | None:
    hits = [r for r, rx in lexicon.items() if rx.search(name)]
    return hits[0] if len(hits) == 1 else None


def terminal_ident(e: ast.AST) -> str | None:
    while True:
        if isinstance(e, (ast.Subscript, ast.Starred)):
            e = e.value
        elif isinstance(e, ast.Attribute):
            return e.attr
        elif isinstance(e, ast.Name):
            return e.id
        elif isinstance(e, ast.UnaryOp):
            e = e.operand
        elif isinstance(e, ast.Call) and len(e.args) == 1 and not e.keywords and \
                call_name(e).split('.')[-1] in ('float', 'radians', 'deg2rad', 'rad2deg', 'degrees',
                                                'asarray', 'array', 'np.asarray'):
            e = e.args[0]
        elif isinstance(e, ast.BinOp) and isinstance(e.op, (ast.Mult, ast.Div)) and \
                isinstance(e.right, (ast.Constant, ast.Name)) and terminal_ident(e.left):
            e = e.left
        else:
            return None


def expr_role(fi_node: ast.AST | None, e: ast.AST, lexicon=LATLON, depth=0) -> str | None:
    """Definite role of expression e, following single-assignment locals."""
    t = terminal_ident(e)
    if t is None:
        return None
    r = ident_role(t, lexicon)
    if r is not None:
        return r
    if isinstance(e, ast.Name) and fi_node is not None and depth < 4:
        d = single_def_value(fi_node, e.id)
        if d is not None:
            return expr_role(fi_node, d, lexicon, depth + 1)
        td = tuple_def_component(fi_node, e.id)
        if td is not None:
            v, i = td
            if isinstance(v, ast.Call):
                g = _geod_kind(v)
                if g == 'fwd' and i in (0, 1):
                    return ('lon', 'lat')[i]
    return None


GEOD_SIG = {
    'inv': (['lon', 'lat', 'lon', 'lat'], ['lons1', 'lats1', 'lons2', 'lats2']),
    'fwd': (['lon', 'lat', None, None], ['lons', 'lats', 'az', 'dist']),
}


def _geod_kind(c: ast.Call) -> str | None:
    if isinstance(c.func, ast.Attribute) and c.func.attr in GEOD_SIG:
        return c.func.attr
    return None


def is_geod_receiver(prog: Program, fi: FunctionInfo, e: ast.expr) -> bool:
    """Does e denote a pyproj.Geod instance?"""
    if isinstance(e, ast.Call) and call_name(e).split('.')[-1] == 'Geod':
        return True
    if isinstance(e, ast.Name):
        d = single_def_value(fi.node, e.id)
        if d is not None:
            return is_geod_receiver(prog, fi, d)
        r = prog.resolve_name(fi.module, e.id)
        if isinstance(r, tuple) and r[0] == 'const':
            v = r[1].constants[r[2]]
            return isinstance(v, ast.Call) and call_name(v).split('.')[-1] == 'Geod'
        return e.id.upper() == 'GEOD'
    if isinstance(e, ast.Attribute):
        return e.attr.lower() in ('geod', '_geod')
    return False


def geod_calls(prog: Program, fns: list[FunctionInfo]):
    out = []
    for fi in fns:
        for c in calls_in(fi.node):
            k = _geod_kind(c)
            if k and is_geod_receiver(prog, fi, c.func.value):
                out.append((fi, c, k))
    return out


def check_geod_call(fi: FunctionInfo, c: ast.Call, kind: str):
    """[(slot index, slot role, arg text, arg role|None, verdict)]"""
    roles, kwnames = GEOD_SIG[kind]
    out = []
    for i, want in enumerate(roles):
        if want is None:
            continue
        arg = c.args[i] if i < len(c.args) else kwarg(c, kwnames[i])
        if arg is None:
            out.append((i, want, '<missing>', None, 'unresolved'))
            continue
        got = expr_role(fi.node, arg)
        out.append((i, want, norm(arg), got,
                    'unresolved' if got is None else ('ok' if got == want else 'conflict')))
    return out


def wrapper_signature(prog: Program, fi: FunctionInfo):
    """If fi forwards (some of) its parameters to a geodesic call, return
    {param index: role} derived from the slots they are forwarded to."""
    sig = {}
    for f, c, k in geod_calls(prog, [fi]):
        roles, _ = GEOD_SIG[k]
        for i, want in enumerate(roles):
            if want and i < len(c.args) and isinstance(c.args[i], ast.Name) and c.args[i].id in fi.params:
                sig[fi.params.index(c.args[i].id)] = want
    return sig
