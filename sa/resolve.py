"""Call resolution and light-weight type hints, written for this repository.

No type checker is available in the image, so calls are resolved through
imports, the class MRO, `self`/`cls`/`super()` receivers, parameter annotations
and constructor assignments.  Unresolved calls are reported as such; every rule
states how it treats them.
"""

from __future__ import annotations

import ast

from .astutil import call_name, local_defs, walk_no_nested
from .loader import ClassInfo, FunctionInfo, ModuleInfo, Program, dotted_name


def _ann_class(prog: Program, m: ModuleInfo, ann: ast.expr | None) -> ClassInfo | None:
    if ann is None:
        return None
    if isinstance(ann, ast.Constant) and isinstance(ann.value, str):
        try:
            ann = ast.parse(ann.value, mode='eval').body
        except SyntaxError:
            return None
    if isinstance(ann, ast.BinOp) and isinstance(ann.op, ast.BitOr):  # X | None
        for side in (ann.left, ann.right):
            c = _ann_class(prog, m, side)
            if c is not None:
                return c
        return None
    if isinstance(ann, ast.Subscript):
        base = dotted_name(ann.value)
        if base in ('Optional', 'typing.Optional'):
            return _ann_class(prog, m, ann.slice)
        return prog.resolve_class_expr(m, ann.value)
    return prog.resolve_class_expr(m, ann)


def expr_class(prog: Program, fi: FunctionInfo, e: ast.expr, depth: int = 0) -> ClassInfo | None:
    """Best-effort static class of expression e inside function fi."""
    if depth > 4:
        return None
    m = fi.module
    if isinstance(e, ast.Name):
        if e.id == 'self' and fi.cls is not None and fi.params[:1] == ['self']:
            return fi.cls
        if e.id == 'cls' and fi.cls is not None:
            return fi.cls
        a = fi.node.args
        for arg in a.posonlyargs + a.args + a.kwonlyargs:
            if arg.arg == e.id:
                return _ann_class(prog, m, arg.annotation)
        ds = local_defs(fi.node, e.id)
        for d in ds:
            if isinstance(d, ast.AnnAssign):
                c = _ann_class(prog, m, d.annotation)
                if c:
                    return c
            v = getattr(d, 'value', None)
            if isinstance(d, ast.Assign) and isinstance(v, ast.expr) and len(d.targets) == 1 \
                    and isinstance(d.targets[0], ast.Name):
                c = expr_class(prog, fi, v, depth + 1)
                if c:
                    return c
        r = prog.resolve_name(m, e.id)
        if isinstance(r, tuple) and r[0] == 'const':
            v = r[1].constants[r[2]]
            if isinstance(v, ast.Call):
                c = prog.resolve_class_expr(r[1], v.func)
                if c:
                    return c
        return None
    if isinstance(e, ast.Call):
        c = prog.resolve_class_expr(m, e.func)
        if c is not None:
            return c
        callee = resolve_call(prog, fi, e, depth + 1)
        if callee is not None and callee.node.returns is not None:
            return _ann_class(prog, callee.module, callee.node.returns)
        return None
    if isinstance(e, ast.Attribute):
        owner = expr_class(prog, fi, e.value, depth + 1)
        if owner is not None:
            flds = owner.all_fields()
            if e.attr in flds:
                return _ann_class(prog, owner.module, flds[e.attr])
            # self.x = ClassName(...) / self.x: T = ... in any method of owner
            for c in owner.mro():
                for meth in c.methods.values():
                    for n in walk_no_nested(meth.node):
                        if isinstance(n, ast.AnnAssign) and isinstance(n.target, ast.Attribute) \
                                and n.target.attr == e.attr and dotted_name(n.target.value) == 'self':
                            r = _ann_class(prog, c.module, n.annotation)
                            if r:
                                return r
                        if isinstance(n, ast.Assign) and isinstance(n.value, ast.Call):
                            for t in n.targets:
                                if isinstance(t, ast.Attribute) and t.attr == e.attr \
                                        and dotted_name(t.value) == 'self':
                                    r = prog.resolve_class_expr(c.module, n.value.func)
                                    if r:
                                        return r
            # property return annotation
            meth = owner.find_method(e.attr)
            if meth is not None and any('property' in d for d in meth.decorators()):
                return _ann_class(prog, meth.module, meth.node.returns)
        return None
    if isinstance(e, ast.IfExp):
        return expr_class(prog, fi, e.body, depth + 1) or expr_class(prog, fi, e.orelse, depth + 1)
    return None


def resolve_call(prog: Program, fi: FunctionInfo, c: ast.Call, depth: int = 0) -> FunctionInfo | None:
    if depth > 4:
        return None
    m = fi.module
    f = c.func
    if isinstance(f, ast.Name):
        # nested function of the enclosing function chain
        q = fi.qualname
        while q:
            cand = m.functions.get(f'{q}.<locals>.{f.id}')
            if cand:
                return cand
            if '.<locals>.' in q:
                q = q.rsplit('.<locals>.', 1)[0]
            else:
                break
        r = prog.resolve_name(m, f.id)
        if isinstance(r, FunctionInfo):
            return r
        if isinstance(r, ClassInfo):
            return r.find_method('__init__') or r.find_method('__post_init__')
        return None
    if isinstance(f, ast.Attribute):
        # super().m()
        if isinstance(f.value, ast.Call) and call_name(f.value) == 'super' and fi.cls is not None:
            for b in fi.cls.mro()[1:]:
                if f.attr in b.methods:
                    return b.methods[f.attr]
            return None
        owner = None
        if isinstance(f.value, ast.Name) and f.value.id in ('self', 'cls') and fi.cls is not None:
            owner = fi.cls
        else:
            owner = prog.resolve_class_expr(m, f.value)
            if owner is None:
                d = dotted_name(f.value)
                if d:
                    head = d.split('.')[0]
                    if head in m.imports and head not in ('self',):
                        r = prog.resolve_dotted(m.imports[head] + d[len(head):] + '.' + f.attr)
                        if isinstance(r, FunctionInfo):
                            return r
                        if isinstance(r, ClassInfo):
                            return r.find_method('__init__') or r.find_method('__post_init__')
                owner = expr_class(prog, fi, f.value, depth + 1)
        if owner is not None:
            meth = owner.find_method(f.attr)
            if meth is not None:
                return meth
            # nested class constructor: self.NcFiles(...)
            for c2 in owner.mro():
                key = f'{c2.name}.{f.attr}'
                if key in c2.module.classes:
                    inner = c2.module.classes[key]
                    return inner.find_method('__init__') or inner.find_method('__post_init__')
        return None
    return None


def resolve_class_call(prog: Program, fi: FunctionInfo, c: ast.Call) -> ClassInfo | None:
    """If the call constructs a repo class, return that class."""
    m = fi.module
    r = prog.resolve_class_expr(m, c.func)
    if r is not None:
        return r
    f = c.func
    if isinstance(f, ast.Attribute):
        owner = None
        if isinstance(f.value, ast.Name) and f.value.id in ('self', 'cls') and fi.cls is not None:
            owner = fi.cls
        else:
            owner = prog.resolve_class_expr(m, f.value)
        if owner is not None:
            for c2 in owner.mro():
                key = f'{c2.name}.{f.attr}'
                if key in c2.module.classes:
                    return c2.module.classes[key]
    return None


def callees(prog: Program, fi: FunctionInfo) -> list[tuple[ast.Call, FunctionInfo | None]]:
    cache = prog.__dict__.setdefault('_callees_cache', {})
    k = (fi.file, fi.qualname, id(fi.node))
    if k in cache:
        return cache[k]
    out = []
    cache[k] = out
    for n in walk_no_nested(fi.node):
        if isinstance(n, ast.Call):
            out.append((n, resolve_call(prog, fi, n)))
    return out


def closure(prog: Program, roots: list[FunctionInfo], stop: set[str] | None = None) -> list[FunctionInfo]:
    """Functions reachable through resolved calls (roots included)."""
    seen: dict[tuple, FunctionInfo] = {}
    st = list(roots)
    while st:
        f = st.pop()
        k = (f.file, f.qualname)
        if k in seen:
            continue
        seen[k] = f
        if stop and f.qualname in stop:
            continue
        for _, g in callees(prog, f):
            if g is not None:
                st.append(g)
        # nested functions are part of their parent for reachability purposes
        pref = f.qualname + '.<locals>.'
        for q, g in f.module.functions.items():
            if q.startswith(pref):
                st.append(g)
    return list(seen.values())


def call_stats(prog: Program, fns: list[FunctionInfo]) -> dict:
    tot = res = 0
    for f in fns:
        for c, g in callees(prog, f):
            tot += 1
            res += g is not None
    return {'calls': tot, 'resolved_to_repo_functions': res}


def callers_of(prog: Program, target: FunctionInfo) -> list[tuple[FunctionInfo, ast.Call]]:
    out = []
    for f in prog.all_functions():
        for c, g in callees(prog, f):
            if g == target:
                out.append((f, c))
    return out


def self_attr_stores(fi: FunctionInfo, recv: str = 'self'):
    """(attr, stmt, how) for every mutation of recv.<attr> in fi: assignment,
    augmented assignment, delete, element store recv.attr[k] = v, and mutating
    method calls recv.attr.append(...)."""
    from .astutil import MUTATING_METHODS, stores_to
    out = []
    for t, st, how in stores_to(fi.node):
        base = t
        elem = False
        while isinstance(base, ast.Subscript):
            base = base.value
            elem = True
        if isinstance(base, ast.Attribute) and dotted_name(base.value) == recv:
            out.append((base.attr, st, ('elem-' if elem else '') + how))
    for n in walk_no_nested(fi.node):
        if isinstance(n, ast.Call) and isinstance(n.func, ast.Attribute) \
                and n.func.attr in MUTATING_METHODS:
            b = n.func.value
            while isinstance(b, ast.Subscript):
                b = b.value
            if isinstance(b, ast.Attribute) and dotted_name(b.value) == recv:
                s = n
                while not isinstance(s, ast.stmt):
                    s = s._parent
                out.append((b.attr, s, 'call-' + n.func.attr))
    return out
