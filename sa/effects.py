"""Per-function effect summaries propagated over resolved calls."""

from __future__ import annotations

import ast

from .astutil import call_name, const_value, kwarg, norm, walk_no_nested
from .loader import FunctionInfo, Program
from .resolve import closure, resolve_call

FS_CALLS = {
    'os.mkdir', 'os.makedirs', 'os.rename', 'os.replace', 'os.remove', 'os.unlink',
    'os.rmdir', 'shutil.move', 'shutil.copy', 'shutil.copy2', 'shutil.copyfile',
    'shutil.copytree', 'shutil.rmtree',
}
FS_METHODS = {'mkdir', 'rename', 'replace', 'unlink', 'rmdir', 'touch', 'write_text',
              'write_bytes', 'createGroup', 'createVariable', 'createDimension',
              'createVLType'}


def fs_effect_of_call(c: ast.Call) -> str | None:
    """Name of the file-system effect performed directly by this call, if any."""
    cn = call_name(c)
    if cn in FS_CALLS:
        return cn
    if cn == 'open' or cn.endswith('.open') and cn.split('.')[0] in ('io', 'builtins'):
        mode = c.args[1] if len(c.args) > 1 else kwarg(c, 'mode')
        mv = const_value(mode) if mode is not None else 'r'
        if isinstance(mv, str) and any(ch in mv for ch in 'wax+'):
            return f'open(mode={mv!r})'
        return None
    if cn.endswith('Dataset') and cn.split('.')[0] in ('nc4', 'netCDF4', 'Dataset'):
        mode = c.args[1] if len(c.args) > 1 else kwarg(c, 'mode')
        mv = const_value(mode) if mode is not None else 'r'
        if isinstance(mv, str) and any(ch in mv for ch in 'wa+'):
            return f'{cn}(mode={mv!r})'
        if mode is not None and not isinstance(mv, str):
            return f'{cn}(mode=<dynamic>)'
        return None
    if isinstance(c.func, ast.Attribute) and c.func.attr in FS_METHODS:
        # Path(...).mkdir / dataset.createGroup ...
        return '.' + c.func.attr
    return None


class Effects:
    def __init__(self, prog: Program):
        self.prog = prog
        self._fs: dict = {}
        self._raises: dict = {}

    def direct_fs(self, fi: FunctionInfo) -> list[tuple[ast.Call, str]]:
        out = []
        for n in walk_no_nested(fi.node):
            if isinstance(n, ast.Call):
                e = fs_effect_of_call(n)
                if e:
                    out.append((n, e))
        return out

    def fs_effects(self, fi: FunctionInfo) -> list[tuple[FunctionInfo, ast.Call, str]]:
        """All file-system effects in the closure of fi."""
        k = (fi.file, fi.qualname)
        if k not in self._fs:
            out = []
            for g in closure(self.prog, [fi]):
                for c, e in self.direct_fs(g):
                    out.append((g, c, e))
            self._fs[k] = out
        return self._fs[k]

    def explicit_raises(self, fi: FunctionInfo) -> list[tuple[FunctionInfo, ast.Raise]]:
        """Explicit `raise` statements in the closure of fi that are not inside
        a handler that swallows them (re-raise `raise` counts)."""
        k = (fi.file, fi.qualname)
        if k not in self._raises:
            out = []
            for g in closure(self.prog, [fi]):
                for n in walk_no_nested(g.node):
                    if isinstance(n, ast.Raise):
                        out.append((g, n))
            self._raises[k] = out
        return self._raises[k]

    def call_fs(self, fi: FunctionInfo, c: ast.Call) -> list[str]:
        """FS effects a call performs: directly or through its resolved callee."""
        e = fs_effect_of_call(c)
        out = [e] if e else []
        g = resolve_call(self.prog, fi, c)
        if g is not None:
            out += [f'{h.qualname}:{eff}' for h, _, eff in self.fs_effects(g)]
        return out

    def call_raises(self, fi: FunctionInfo, c: ast.Call) -> list[tuple[FunctionInfo, ast.Raise]]:
        g = resolve_call(self.prog, fi, c)
        if g is None:
            return []
        return self.explicit_raises(g)
