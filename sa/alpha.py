"""Alpha-normalisation of local variable names against a reference tree.

Local variable names are free: renaming one changes no behaviour.  Rules,
however, are written against the names the repository uses today.  To keep a
rename from turning into a false alarm, every local is given a *structural
signature* (how it is bound: the normalised right-hand sides of all its binding
sites, with other locals replaced by their own signatures, parameters /
attributes / globals kept by name).  `reference_locals.json` (committed,
generated from the tree the rules were written against) maps signature -> name
per function.  At load time a local whose signature matches a reference
signature uniquely is renamed back to the reference name before any rule runs.
A local whose definition changed matches nothing and keeps its current name,
so the pass never hides a change of behaviour.
"""

from __future__ import annotations

import ast
import hashlib
import json
from pathlib import Path

REF_FILE = Path(__file__).resolve().parent / 'reference_locals.json'


def function_locals(fn) -> set[str]:
    a = fn.args
    params = {x.arg for x in a.posonlyargs + a.args + a.kwonlyargs}
    if a.vararg:
        params.add(a.vararg.arg)
    if a.kwarg:
        params.add(a.kwarg.arg)
    out, banned = set(), set()
    stack = list(fn.body)
    while stack:
        n = stack.pop()
        if isinstance(n, (ast.FunctionDef, ast.AsyncFunctionDef, ast.ClassDef)):
            banned.add(n.name)
            continue
        if isinstance(n, ast.Lambda):
            continue
        if isinstance(n, (ast.Global, ast.Nonlocal)):
            banned |= set(n.names)
        if isinstance(n, ast.Name) and isinstance(n.ctx, (ast.Store, ast.Del)):
            out.add(n.id)
        if isinstance(n, (ast.Import, ast.ImportFrom)):
            for al in n.names:
                banned.add((al.asname or al.name).split('.')[0])
        if isinstance(n, ast.ExceptHandler) and n.name:
            banned.add(n.name)
        if isinstance(n, (ast.MatchAs, ast.MatchStar)) and getattr(n, 'name', None):
            banned.add(n.name)
        stack.extend(ast.iter_child_nodes(n))
    return {x for x in out - params - banned if x != '_'}


def _bindings(fn, names):
    """name -> list of (kind, position, value-expr) in source order"""
    out = {n: [] for n in names}

    def targets(t, prefix=()):
        if isinstance(t, ast.Name):
            yield t.id, prefix
        elif isinstance(t, (ast.Tuple, ast.List)):
            for i, e in enumerate(t.elts):
                yield from targets(e, prefix + (i,))
        elif isinstance(t, ast.Starred):
            yield from targets(t.value, prefix + ('*',))

    stack = list(fn.body)
    nodes = []
    while stack:
        n = stack.pop()
        if isinstance(n, (ast.FunctionDef, ast.AsyncFunctionDef, ast.ClassDef, ast.Lambda)):
            continue
        nodes.append(n)
        stack.extend(ast.iter_child_nodes(n))
    nodes.sort(key=lambda n: (getattr(n, 'lineno', 0), getattr(n, 'col_offset', 0)))
    def base_store(t):
        # X[k] = v / X[k][j] = v / X.attr = v  -> X
        b = t
        while isinstance(b, (ast.Subscript, ast.Attribute)):
            b = b.value
        return b.id if isinstance(b, ast.Name) and b is not t else None

    for n in nodes:
        if isinstance(n, (ast.Assign, ast.AugAssign)):
            for t in (n.targets if isinstance(n, ast.Assign) else [n.target]):
                b = base_store(t)
                if b in out:
                    import copy as _c
                    shape = _c.deepcopy(t)
                    for x in ast.walk(shape):
                        if hasattr(x, 'ctx'):
                            x.ctx = ast.Load()
                    out[b].append(('S', (), ast.Tuple(elts=[shape, n.value], ctx=ast.Load())))
        if isinstance(n, ast.Expr) and isinstance(n.value, ast.Call) and isinstance(n.value.func, ast.Attribute) \
                and isinstance(n.value.func.value, ast.Name) and n.value.func.value.id in out:
            c = n.value
            out[c.func.value.id].append(('M' + c.func.attr, (), ast.Tuple(elts=list(c.args), ctx=ast.Load())))
        if isinstance(n, ast.Assign):
            for t in n.targets:
                for nm, pos in targets(t):
                    if nm in out:
                        out[nm].append(('A', pos, n.value))
        elif isinstance(n, ast.AnnAssign) and n.value is not None:
            for nm, pos in targets(n.target):
                if nm in out:
                    out[nm].append(('A', pos, n.value))
        elif isinstance(n, ast.AugAssign):
            for nm, pos in targets(n.target):
                if nm in out:
                    out[nm].append(('G' + type(n.op).__name__, pos, n.value))
        elif isinstance(n, (ast.For, ast.AsyncFor)):
            for nm, pos in targets(n.target):
                if nm in out:
                    out[nm].append(('F', pos, n.iter))
        elif isinstance(n, ast.comprehension):
            for nm, pos in targets(n.target):
                if nm in out:
                    out[nm].append(('C', pos, n.iter))
        elif isinstance(n, (ast.With, ast.AsyncWith)):
            for it in n.items:
                if it.optional_vars is not None:
                    for nm, pos in targets(it.optional_vars):
                        if nm in out:
                            out[nm].append(('W', pos, it.context_expr))
        elif isinstance(n, ast.NamedExpr):
            if n.target.id in out:
                out[n.target.id].append(('N', (), n.value))
    return out


class _Sub(ast.NodeTransformer):
    def __init__(self, mapping):
        self.mapping = mapping

    def visit_Name(self, n):
        if n.id in self.mapping:
            return ast.copy_location(ast.Name(self.mapping[n.id], n.ctx), n)
        return n


def signatures(fn, rounds: int = 4) -> dict[str, str]:
    """local name -> structural signature hash (colour refinement: each round
    re-describes a local by its binding sites with the other locals replaced
    by their previous-round hashes; polynomial, cycle-safe)."""
    import copy
    names = function_locals(fn)
    binds = _bindings(fn, names)
    uses = {n: [(k, p, v, {x.id for x in ast.walk(v) if isinstance(x, ast.Name) and x.id in names})
                for k, p, v in bl] for n, bl in binds.items()}
    cur = {n: 'L' for n in names}
    for _ in range(rounds):
        nxt = {}
        for n in names:
            parts = []
            for kind, pos, val, used in uses[n]:
                if used:
                    mp = {u: ('SELF' if u == n else 'L' + cur[u]) for u in used}
                    txt = ast.unparse(_Sub(mp).visit(copy.deepcopy(val)))
                else:
                    txt = ast.unparse(val)
                parts.append(f'{kind}{pos}:{" ".join(txt.split())}')
            nxt[n] = hashlib.sha1('|'.join(parts).encode()).hexdigest()[:12]
        cur = nxt
    return {n: cur[n] for n in sorted(names)}


def _functions(tree, prefix=''):
    for s in tree.body if hasattr(tree, 'body') else []:
        if isinstance(s, (ast.FunctionDef, ast.AsyncFunctionDef)):
            q = prefix + s.name
            yield q, s
            yield from _functions(s, q + '.<locals>.')
        elif isinstance(s, ast.ClassDef):
            yield from _functions(s, prefix + s.name + '.')
        elif isinstance(s, (ast.If, ast.Try, ast.With)):
            yield from _functions(s, prefix)


def build_reference(root: Path) -> dict:
    ref = {}
    from . import globalnorm
    ref.update(globalnorm.build_reference_part(
        {str(p.relative_to(root)): ast.parse(p.read_text()) for p in sorted((root / 'src' / 'AEIC').rglob('*.py'))}))
    for p in sorted((root / 'src' / 'AEIC').rglob('*.py')):
        rel = str(p.relative_to(root))
        from .loader import _Canon
        src = p.read_text()
        ref.setdefault('__digest__', {})[rel] = hashlib.sha256(src.encode()).hexdigest()
        tree = _Canon().visit(ast.parse(src))
        from . import temps
        import copy
        for q, fn in _functions(tree):
            dup = q in ref.setdefault('__funcs__', {}).setdefault(rel, [])
            ref['__funcs__'][rel].append(q)
            # as written
            sg = signatures(fn)
            if sg:
                ref.setdefault(rel, {})[q] = sg
            cs = call_shapes(fn)
            if cs:
                ref.setdefault('__calls__', {}).setdefault(rel, {})[q] = cs
            cmps, tests = shapes(fn)
            if cmps or tests:
                ref.setdefault('__shapes__', {}).setdefault(rel, {})[q] = {'cmp': sorted(cmps), 'if': sorted(tests)}
            # flattened (single-use temporaries inlined), see temps.py
            flat = copy.deepcopy(fn)
            steps = temps.flatten(flat, record=True)
            if dup:
                # same qualified name twice (property getter/setter): positions would be ambiguous
                ref.get('__temps__', {}).get(rel, {}).pop(q, None)
            elif steps:
                ref.setdefault('__temps__', {}).setdefault(rel, {})[q] = steps
            sg = signatures(flat)
            if sg:
                ref.setdefault('__flat__', {}).setdefault(rel, {})[q] = sg
            cmps, tests = shapes(flat)
            if cmps or tests:
                ref.setdefault('__flatshapes__', {}).setdefault(rel, {})[q] = {'cmp': sorted(cmps), 'if': sorted(tests)}
    return ref


_FLIP = {ast.Lt: ast.Gt, ast.Gt: ast.Lt, ast.LtE: ast.GtE, ast.GtE: ast.LtE, ast.Eq: ast.Eq, ast.NotEq: ast.NotEq}
_NEG = {ast.Lt: ast.GtE, ast.GtE: ast.Lt, ast.Gt: ast.LtE, ast.LtE: ast.Gt, ast.Eq: ast.NotEq, ast.NotEq: ast.Eq,
        ast.Is: ast.IsNot, ast.IsNot: ast.Is, ast.In: ast.NotIn, ast.NotIn: ast.In}


def _txt(e) -> str:
    return ' '.join(ast.unparse(e).split())


def shapes(fn):
    """(texts of all single-operator comparisons, texts of all if / conditional-expression tests) in fn"""
    cmps, tests = set(), set()
    for n in ast.walk(fn):
        if isinstance(n, ast.Compare) and len(n.ops) == 1:
            cmps.add(_txt(n))
        if isinstance(n, (ast.If, ast.IfExp, ast.While)):
            tests.add(_txt(n.test))
    return cmps, tests


def flipped(c: ast.Compare):
    if len(c.ops) == 1 and type(c.ops[0]) in _FLIP:
        return ast.copy_location(ast.Compare(left=c.comparators[0], ops=[_FLIP[type(c.ops[0])]()], comparators=[c.left]), c)
    return None


def negated(t):
    if isinstance(t, ast.UnaryOp) and isinstance(t.op, ast.Not):
        return t.operand
    if isinstance(t, ast.BoolOp):
        # De Morgan: not (a and b) == (not a) or (not b); operands keep their order, so evaluation order and
        # short-circuiting are the same
        op = ast.Or() if isinstance(t.op, ast.And) else ast.And()
        return ast.copy_location(ast.BoolOp(op=op, values=[negated(v) for v in t.values]), t)
    if isinstance(t, ast.Compare) and len(t.ops) == 1 and type(t.ops[0]) in _NEG:
        return ast.copy_location(ast.Compare(left=t.left, ops=[_NEG[type(t.ops[0])]()], comparators=t.comparators), t)
    return ast.copy_location(ast.UnaryOp(op=ast.Not(), operand=t), t)


class _Reshape(ast.NodeTransformer):
    """Undo behaviour-preserving respellings when (and only when) that reproduces
    a shape the reference function has: a flipped comparison (b > a for a < b), an
    inverted if/else or conditional expression (if not c: B else: A)."""

    def __init__(self, ref_cmp, ref_if):
        self.ref_cmp, self.ref_if, self.n = set(ref_cmp), set(ref_if), 0

    def visit_Compare(self, n):
        self.generic_visit(n)
        if _txt(n) not in self.ref_cmp:
            f = flipped(n)
            if f is not None and _txt(f) in self.ref_cmp:
                self.n += 1
                return f
        return n

    def _maybe_invert(self, n, body, orelse):
        t = _txt(n.test)
        if t in self.ref_if:
            return None
        neg = negated(n.test)
        if _txt(neg) in self.ref_if:
            return neg
        # the negation may itself contain a flipped comparison
        neg2 = _Reshape(self.ref_cmp, self.ref_if).visit(neg) if isinstance(neg, ast.AST) else neg
        if _txt(neg2) in self.ref_if:
            return neg2
        return None

    def visit_If(self, n):
        self.generic_visit(n)
        if n.orelse:
            neg = self._maybe_invert(n, n.body, n.orelse)
            if neg is not None:
                self.n += 1
                return ast.copy_location(ast.If(test=neg, body=n.orelse, orelse=n.body), n)
        return n

    def visit_IfExp(self, n):
        self.generic_visit(n)
        neg = self._maybe_invert(n, n.body, n.orelse)
        if neg is not None:
            self.n += 1
            return ast.copy_location(ast.IfExp(test=neg, body=n.orelse, orelse=n.body), n)
        return n


_REF = None
_MOVED_INV: dict = {}   # (file B, qualname') in the current tree -> (file A, qualname) in the reference


def set_moved(moved: dict):
    global _MOVED_INV
    _MOVED_INV = {tuple(v): tuple(k) for k, v in moved.items()}


def ref_key(rel: str, q: str) -> tuple[str, str]:
    return _MOVED_INV.get((rel, q), (rel, q))


def _rd(R, section, rel, q):
    rrel, rq = ref_key(rel, q)
    d = R.get(rrel) if section is None else R.get(section, {}).get(rrel)
    return (d or {}).get(rq)



def _load_ref():
    global _REF
    if _REF is None:
        _REF = json.loads(REF_FILE.read_text()) if REF_FILE.exists() else {}
    return _REF


def _mapping(fn, want) -> dict[str, str]:
    cur = signatures(fn)
    by_sig_ref: dict[str, list[str]] = {}
    for n, h in want.items():
        by_sig_ref.setdefault(h, []).append(n)
    by_sig_cur: dict[str, list[str]] = {}
    for n, h in cur.items():
        by_sig_cur.setdefault(h, []).append(n)
    mapping = {}
    for h, cn in by_sig_cur.items():
        rn = by_sig_ref.get(h)
        if rn and len(rn) == 1 and len(cn) == 1 and cn[0] != rn[0]:
            # the reference name must not already be in use by another current local
            if rn[0] not in cur:
                mapping[cn[0]] = rn[0]
    return mapping


def _alpha_and_reshape(fn, want, sh) -> tuple[int, dict]:
    n = 0
    mapping = _mapping(fn, want) if want else {}
    if mapping:
        n += len(mapping)
        for st in fn.body:
            _Sub(mapping).visit(st)
    if sh:
        r = _Reshape(sh['cmp'], sh['if'])
        fn.body = [r.visit(st) for st in fn.body]
        n += r.n
    return n, mapping


def _rename_params(fn, ref_params, ref_sig) -> int:
    """a parameter renamed in place (same position, same count) gets its reference name back inside the function;
    keyword arguments at call sites follow in reshape_calls"""
    if not ref_params:
        return 0
    a = fn.args
    cur = a.posonlyargs + a.args + a.kwonlyargs
    n_static = 0
    if len(cur) + 1 == len(ref_params) and ref_params[0] == 'self' and not a.posonlyargs and \
            any(isinstance(d, ast.Name) and d.id == 'staticmethod' for d in fn.decorator_list) and \
            'self' not in {x.id for x in ast.walk(fn) if isinstance(x, ast.Name)}:
        # a method that does not use `self` was made a static method: calls through an instance are unaffected
        fn.decorator_list = [d for d in fn.decorator_list if not (isinstance(d, ast.Name) and d.id == 'staticmethod')]
        a.args.insert(0, ast.arg(arg='self', annotation=None))
        ast.copy_location(a.args[0], fn)
        cur = a.posonlyargs + a.args + a.kwonlyargs
        n_static = 1
    if len(cur) != len(ref_params) or [x.arg for x in cur] == ref_params:
        return n_static
    used = {x.id for x in ast.walk(fn) if isinstance(x, ast.Name)} | {x.arg for x in cur}
    mp = {}
    for x, want in zip(cur, ref_params):
        if x.arg != want:
            if want in used or x.arg in ref_params:
                return 0
            mp[x.arg] = want
    for x in cur:
        if x.arg in mp:
            x.arg = mp[x.arg]
    for st in fn.body:
        _Sub(mp).visit(st)
    fn._param_renames = mp
    return len(mp)


def normalise(tree: ast.Module, rel: str, digest: str | None = None) -> tuple[ast.Module, int]:
    """Bring the functions of a file that differs from the reference back to the
    reference's spelling where that is behaviour-preserving: local names (by
    structural signature), flipped comparisons / inverted branches, and
    single-use temporaries (temps.py).  Returns (tree, number of rewrites)."""
    R = _load_ref()
    if digest is not None and R.get('__digest__', {}).get(rel) == digest:
        return tree, 0  # file is byte-identical to the reference: nothing to do
    import copy
    import os
    from . import temps
    pre = 0
    if os.environ.get('AEIC_VERIF_NO_PRENORM') != '1':
        from . import prenorm
        tree, pre = prenorm.prenormalise(tree, rel, R)
    known = set(R.get('__funcs__', {}).get(rel, [])) | {q for (r, q) in _MOVED_INV if r == rel}
    done = pre
    for q, fn in list(_functions(tree)):
        if q not in known:
            continue
        sig_q, shp_q = _rd(R, None, rel, q), _rd(R, '__shapes__', rel, q)
        fsig_q, fshp_q = _rd(R, '__flat__', rel, q), _rd(R, '__flatshapes__', rel, q)
        done += _rename_params(fn, _rd(R, '__params__', rel, q), sig_q)
        ref_temps = sorted(s['name'] for s in (_rd(R, '__temps__', rel, q) or []) if 'canon' not in s)
        # (A) the function as written: same temporaries as the reference once names are normalised?
        trial = copy.deepcopy(fn)
        _alpha_and_reshape(trial, sig_q, shp_q)
        own = sorted(s['name'] for s in temps.flatten(trial, record=True) if 'canon' not in s)
        if own == ref_temps:
            done += _alpha_and_reshape(fn, sig_q, shp_q)[0]
            continue
        # (B) temporaries were added or removed: compare in flattened form, then give the function the
        #     reference's temporaries back (reextract_all, after call reshaping)
        steps = temps.flatten(fn, record=True, keep_nodes=True)
        n, mapping = _alpha_and_reshape(fn, fsig_q, fshp_q)
        done += n + len(steps)
        fn._own_steps = [(mapping.get(s['name'], s['name']), s['node']) for s in steps if 'canon' not in s]
        fn._ref_names = set(sig_q or ())
        fn._flattened = True
    ast.fix_missing_locations(tree)
    return tree, done


def call_shapes(fn) -> dict[str, list]:
    """callee text -> distinct [n positional, sorted keyword names] shapes used in fn"""
    out: dict[str, list] = {}
    for n in ast.walk(fn):
        if isinstance(n, ast.Call) and not any(isinstance(a, ast.Starred) for a in n.args) \
                and not any(k.arg is None for k in n.keywords):
            sh = [len(n.args), sorted(k.arg for k in n.keywords)]
            lst = out.setdefault(_txt(n.func), [])
            if sh not in lst:
                lst.append(sh)
    return out


def reshape_calls(prog) -> int:
    """Positional <-> keyword respelling of calls to repository functions is
    behaviour-preserving.  For files that differ from the reference, a call whose
    (positional count, keyword names) shape is not the one the reference function
    uses for that callee is rewritten into the reference shape, using the
    callee's own parameter list (only `self.`/`cls.` methods and functions of
    the same module are touched, where resolution is certain)."""
    from .resolve import resolve_call
    ref = _load_ref()
    calls = ref.get('__calls__', {})
    digests = ref.get('__digest__', {})
    done = 0
    # keyword arguments that name a parameter which was renamed back (see _rename_params)
    for rel, m in prog.modules.items():
        if digests.get(rel) == m.digest:
            continue
        for q, fi in list(m.functions.items()):
            for c in [x for x in ast.walk(fi.node) if isinstance(x, ast.Call) and x.keywords]:
                callee = resolve_call(prog, fi, c)
                mp = getattr(callee.node, '_param_renames', None) if callee is not None else None
                if mp:
                    for k in c.keywords:
                        if k.arg in mp:
                            k.arg = mp[k.arg]
                            done += 1
    for rel, m in prog.modules.items():
        if digests.get(rel) == m.digest:
            continue
        for q, fi in list(m.functions.items()):
            rrel, rq = ref_key(rel, q.split('@')[0])
            want = calls.get(rrel, {}).get(rq)
            if not want:
                continue
            for c in [x for x in ast.walk(fi.node) if isinstance(x, ast.Call)]:
                shapes_ = want.get(_txt(c.func))
                if not shapes_ or len(shapes_) != 1:
                    continue
                if any(isinstance(a, ast.Starred) for a in c.args) or any(k.arg is None for k in c.keywords):
                    continue
                cur = [len(c.args), sorted(k.arg for k in c.keywords)]
                if cur == shapes_[0]:
                    continue
                f = c.func
                certain = (isinstance(f, ast.Attribute) and isinstance(f.value, ast.Name) and f.value.id in ('self', 'cls')) \
                    or (isinstance(f, ast.Name))
                if not certain:
                    continue
                callee = resolve_call(prog, fi, c)
                if callee is None or (isinstance(f, ast.Name) and callee.module is not m):
                    continue
                a = callee.node.args
                if a.vararg or a.posonlyargs:
                    continue
                ps = [x.arg for x in a.args]
                if ps[:1] in (['self'], ['cls']) and isinstance(f, ast.Attribute):
                    ps = ps[1:]
                kwonly = [x.arg for x in a.kwonlyargs]
                val = {}
                ok = len(c.args) <= len(ps)
                for i, v in enumerate(c.args[:len(ps)]):
                    val[ps[i]] = v
                for k in c.keywords:
                    if k.arg in val or k.arg not in ps + kwonly:
                        ok = False
                    val[k.arg] = k.value
                npos, kws = shapes_[0]
                if not ok or npos > len(ps) or any(p not in val for p in ps[:npos]) \
                        or set(val) != set(ps[:npos]) | set(kws):
                    continue
                c.args = [val[p] for p in ps[:npos]]
                c.keywords = [ast.keyword(arg=k, value=val[k]) for k in kws]
                for k in c.keywords:
                    k._parent = c
                    k.value._parent = k
                for v in c.args:
                    v._parent = c
                done += 1
    return done


def reextract_all(prog) -> int:
    """last normalisation step (after call reshaping) for functions that were flattened: re-create the
    temporaries their reference versions have, then those of the function's own temporaries that carry a name
    the reference function also uses as a local (a changed definition keeps its name for the rules to find)"""
    from . import temps
    ref = _load_ref()
    tmp = ref.get('__temps__', {})
    digests = ref.get('__digest__', {})
    done = 0
    for rel, m in prog.modules.items():
        if digests.get(rel) == m.digest:
            continue
        for q, fi in m.functions.items():
            if not getattr(fi.node, '_flattened', False):
                continue
            rrel, rq = ref_key(rel, q.split('@')[0])
            steps = tmp.get(rrel, {}).get(rq) or []
            k = temps.reextract(fi.node, steps)
            k += temps.restore_own(fi.node, [(n, v) for n, v in fi.node._own_steps if n in fi.node._ref_names])
            done += k
            ast.fix_missing_locations(fi.node)
            for n in ast.walk(fi.node):
                for ch in ast.iter_child_nodes(n):
                    if not isinstance(ch, (ast.expr_context, ast.operator, ast.unaryop, ast.cmpop, ast.boolop)):
                        ch._parent = n
    return done
