"""Alpha-normalisation of local variable names against a reference tree.

Local variable names are free: renaming one changes no behaviour.  Rules,
however, are written against the names the repository uses today.  To keep a
rename from turning into a false alarm, every local is given a *structural
signature* (how it is bound: the normalised right-hand sides of all its binding
sites, with other locals replaced by their own signatures, parameters /
attributes / globals kept by name).  `reference_locals.json` (committed,
generated from the tree the rules were written against) maps signature -> name
per function.  At load time a local whose signature matches a reference
signature uniquely is renamed back to the reference name before any rule runs.
A local whose definition changed matches nothing and keeps its current name,
so the pass never hides a change of behaviour.
"""

from __future__ import annotations

import ast
import hashlib
import json
from pathlib import Path

REF_FILE = Path(__file__).resolve().parent / 'reference_locals.json'


def function_locals(fn) -> set[str]:
    a = fn.args
    params = {x.arg for x in a.posonlyargs + a.args + a.kwonlyargs}
    if a.vararg:
        params.add(a.vararg.arg)
    if a.kwarg:
        params.add(a.kwarg.arg)
    out, banned = set(), set()
    stack = list(fn.body)
    while stack:
        n = stack.pop()
        if isinstance(n, (ast.FunctionDef, ast.AsyncFunctionDef, ast.ClassDef)):
            banned.add(n.name)
            continue
        if isinstance(n, ast.Lambda):
            continue
        if isinstance(n, (ast.Global, ast.Nonlocal)):
            banned |= set(n.names)
        if isinstance(n, ast.Name) and isinstance(n.ctx, (ast.Store, ast.Del)):
            out.add(n.id)
        if isinstance(n, (ast.Import, ast.ImportFrom)):
            for al in n.names:
                banned.add((al.asname or al.name).split('.')[0])
        if isinstance(n, ast.ExceptHandler) and n.name:
            banned.add(n.name)
        if isinstance(n, (ast.MatchAs, ast.MatchStar)) and getattr(n, 'name', None):
            banned.add(n.name)
        stack.extend(ast.iter_child_nodes(n))
    return {x for x in out - params - banned if x != '_'}


def _bindings(fn, names):
    """name -> list of (kind, position, value-expr) in source order"""
    out = {n: [] for n in names}

    def targets(t, prefix=()):
        if isinstance(t, ast.Name):
            yield t.id, prefix
        elif isinstance(t, (ast.Tuple, ast.List)):
            for i, e in enumerate(t.elts):
                yield from targets(e, prefix + (i,))
        elif isinstance(t, ast.Starred):
            yield from targets(t.value, prefix + ('*',))

    stack = list(fn.body)
    nodes = []
    while stack:
        n = stack.pop()
        if isinstance(n, (ast.FunctionDef, ast.AsyncFunctionDef, ast.ClassDef, ast.Lambda)):
            continue
        nodes.append(n)
        stack.extend(ast.iter_child_nodes(n))
    nodes.sort(key=lambda n: (getattr(n, 'lineno', 0), getattr(n, 'col_offset', 0)))
    def base_store(t):
        # X[k] = v / X[k][j] = v / X.attr = v  -> X
        b = t
        while isinstance(b, (ast.Subscript, ast.Attribute)):
            b = b.value
        return b.id if isinstance(b, ast.Name) and b is not t else None

    for n in nodes:
        if isinstance(n, (ast.Assign, ast.AugAssign)):
            for t in (n.targets if isinstance(n, ast.Assign) else [n.target]):
                b = base_store(t)
                if b in out:
                    import copy as _c
                    shape = _c.deepcopy(t)
                    for x in ast.walk(shape):
                        if hasattr(x, 'ctx'):
                            x.ctx = ast.Load()
                    out[b].append(('S', (), ast.Tuple(elts=[shape, n.value], ctx=ast.Load())))
        if isinstance(n, ast.Expr) and isinstance(n.value, ast.Call) and isinstance(n.value.func, ast.Attribute) \
                and isinstance(n.value.func.value, ast.Name) and n.value.func.value.id in out:
            c = n.value
            out[c.func.value.id].append(('M' + c.func.attr, (), ast.Tuple(elts=list(c.args), ctx=ast.Load())))
        if isinstance(n, ast.Assign):
            for t in n.targets:
                for nm, pos in targets(t):
                    if nm in out:
                        out[nm].append(('A', pos, n.value))
        elif isinstance(n, ast.AnnAssign) and n.value is not None:
            for nm, pos in targets(n.target):
                if nm in out:
                    out[nm].append(('A', pos, n.value))
        elif isinstance(n, ast.AugAssign):
            for nm, pos in targets(n.target):
                if nm in out:
                    out[nm].append(('G' + type(n.op).__name__, pos, n.value))
        elif isinstance(n, (ast.For, ast.AsyncFor)):
            for nm, pos in targets(n.target):
                if nm in out:
                    out[nm].append(('F', pos, n.iter))
        elif isinstance(n, ast.comprehension):
            for nm, pos in targets(n.target):
                if nm in out:
                    out[nm].append(('C', pos, n.iter))
        elif isinstance(n, (ast.With, ast.AsyncWith)):
            for it in n.items:
                if it.optional_vars is not None:
                    for nm, pos in targets(it.optional_vars):
                        if nm in out:
                            out[nm].append(('W', pos, it.context_expr))
        elif isinstance(n, ast.NamedExpr):
            if n.target.id in out:
                out[n.target.id].append(('N', (), n.value))
    return out


class _Sub(ast.NodeTransformer):
    def __init__(self, mapping):
        self.mapping = mapping

    def visit_Name(self, n):
        if n.id in self.mapping:
            return ast.copy_location(ast.Name(self.mapping[n.id], n.ctx), n)
        return n


def signatures(fn, rounds: int = 4) -> dict[str, str]:
    """local name -> structural signature hash (colour refinement: each round
    re-describes a local by its binding sites with the other locals replaced
    by their previous-round hashes; polynomial, cycle-safe)."""
    import copy
    names = function_locals(fn)
    binds = _bindings(fn, names)
    uses = {n: [(k, p, v, {x.id for x in ast.walk(v) if isinstance(x, ast.Name) and x.id in names})
                for k, p, v in bl] for n, bl in binds.items()}
    cur = {n: 'L' for n in names}
    for _ in range(rounds):
        nxt = {}
        for n in names:
            parts = []
            for kind, pos, val, used in uses[n]:
                if used:
                    mp = {u: ('SELF' if u == n else 'L' + cur[u]) for u in used}
                    txt = ast.unparse(_Sub(mp).visit(copy.deepcopy(val)))
                else:
                    txt = ast.unparse(val)
                parts.append(f'{kind}{pos}:{" ".join(txt.split())}')
            nxt[n] = hashlib.sha1('|'.join(parts).encode()).hexdigest()[:12]
        cur = nxt
    return {n: cur[n] for n in sorted(names)}


def _functions(tree, prefix=''):
    for s in tree.body if hasattr(tree, 'body') else []:
        if isinstance(s, (ast.FunctionDef, ast.AsyncFunctionDef)):
            q = prefix + s.name
            yield q, s
            yield from _functions(s, q + '.<locals>.')
        elif isinstance(s, ast.ClassDef):
            yield from _functions(s, prefix + s.name + '.')
        elif isinstance(s, (ast.If, ast.Try, ast.With)):
            yield from _functions(s, prefix)


def build_reference(root: Path) -> dict:
    ref = {}
    for p in sorted((root / 'src' / 'AEIC').rglob('*.py')):
        rel = str(p.relative_to(root))
        from .loader import _Canon
        src = p.read_text()
        ref.setdefault('__digest__', {})[rel] = hashlib.sha256(src.encode()).hexdigest()
        tree = _Canon().visit(ast.parse(src))
        for q, fn in _functions(tree):
            sg = signatures(fn)
            if sg:
                ref.setdefault(rel, {})[q] = sg
    return ref


_REF = None


def _load_ref():
    global _REF
    if _REF is None:
        _REF = json.loads(REF_FILE.read_text()) if REF_FILE.exists() else {}
    return _REF


def normalise(tree: ast.Module, rel: str, digest: str | None = None) -> tuple[ast.Module, int]:
    """Rename locals back to their reference names where the structural
    signature matches uniquely.  Returns (tree, number of locals renamed)."""
    if digest is not None and _load_ref().get('__digest__', {}).get(rel) == digest:
        return tree, 0  # file is byte-identical to the reference: nothing to do
    ref = _load_ref().get(rel)
    if not ref:
        return tree, 0
    renamed = 0
    for q, fn in list(_functions(tree)):
        want = ref.get(q)
        if not want:
            continue
        cur = signatures(fn)
        by_sig_ref: dict[str, list[str]] = {}
        for n, h in want.items():
            by_sig_ref.setdefault(h, []).append(n)
        by_sig_cur: dict[str, list[str]] = {}
        for n, h in cur.items():
            by_sig_cur.setdefault(h, []).append(n)
        mapping = {}
        for h, cn in by_sig_cur.items():
            rn = by_sig_ref.get(h)
            if rn and len(rn) == 1 and len(cn) == 1 and cn[0] != rn[0]:
                # the reference name must not already be in use by another current local
                if rn[0] not in cur:
                    mapping[cn[0]] = rn[0]
        if mapping:
            renamed += len(mapping)
            for st in fn.body:
                _Sub(mapping).visit(st)
    return tree, renamed
