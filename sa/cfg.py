"""Statement-level control-flow graph with exceptional edges.

Model (validated on Builder.fly and TrajectoryStore.merge, see DESIGN.md):

* one node per simple statement; compound statements contribute a *head* node
  (`if`/`while` test, `for` iteration, `with` enter, `match` subject, one node
  per `case`, one per `except` clause) and their bodies;
* a statement that may raise gets an edge labelled 'e' to the innermost
  handler dispatch / `finally` copy / exceptional exit.  `why_raise` on the node
  says why: 'raise' (explicit), 'call', 'other' (subscript, attribute,
  arithmetic, ...), so that rules can choose which exceptional edges count;
* a `finally` body is instantiated once per continuation kind that reaches it
  (normal, exc, return, break, continue); nodes of a copy carry `fin=(kind,..)`;
* `except` dispatch: a 'dispatch' node with an 'e' edge to every handler and,
  unless one handler is bare / BaseException / Exception, to the outer target.
* the exceptional out-edge of a node does NOT carry the node's own effect;
  `forward()` implements that by feeding the in-state to 'e' successors.
"""

from __future__ import annotations

import ast
from dataclasses import dataclass, field
from typing import Callable, Iterable

CATCH_ALL = {'BaseException', 'Exception'}


@dataclass
class Node:
    id: int
    kind: str
    stmt: ast.AST | None = None
    fin: tuple = ()
    why_raise: frozenset = frozenset()
    note: str = ''

    @property
    def line(self) -> int:
        return getattr(self.stmt, 'lineno', 0) if self.stmt is not None else 0

    def text(self) -> str:
        if self.stmt is None:
            return f'<{self.kind}>'
        s = self.stmt
        if self.kind == 'test':
            return f'{"if" if isinstance(s, ast.If) else "while"} {ast.unparse(s.test)}'
        if self.kind == 'iter':
            return f'for {ast.unparse(s.target)} in {ast.unparse(s.iter)}'
        if self.kind == 'with':
            return 'with ' + ', '.join(ast.unparse(i) for i in s.items)
        if self.kind == 'match':
            return f'match {ast.unparse(s.subject)}'
        if self.kind == 'case':
            return f'case {ast.unparse(s.pattern)}'
        if self.kind == 'except':
            return 'except ' + (ast.unparse(s.type) if s.type else '')
        if isinstance(s, (ast.FunctionDef, ast.ClassDef, ast.AsyncFunctionDef)):
            return f'def {s.name}'
        return ast.unparse(s).split('\n')[0]


def expr_may_raise(e: ast.AST | None) -> set[str]:
    """Why evaluating `e` may raise ('call', 'other'); nested lambdas/defs are
    not evaluated."""
    out: set[str] = set()
    if e is None:
        return out
    stack = [e]
    while stack:
        n = stack.pop()
        if isinstance(n, (ast.Lambda, ast.FunctionDef, ast.AsyncFunctionDef, ast.ClassDef)):
            continue
        if isinstance(n, ast.Call):
            out.add('call')
        elif isinstance(n, ast.Subscript):
            out.add('other')
        elif isinstance(n, ast.Attribute):
            out.add('other')
        elif isinstance(n, ast.BinOp) and isinstance(
            n.op, (ast.Div, ast.FloorDiv, ast.Mod, ast.Pow)
        ):
            out.add('other')
        elif isinstance(n, (ast.Await, ast.Yield, ast.YieldFrom)):
            out.add('call')
        elif isinstance(n, (ast.ListComp, ast.SetComp, ast.DictComp, ast.GeneratorExp)):
            out.add('other')
        elif isinstance(n, ast.Starred):
            out.add('other')
        stack.extend(ast.iter_child_nodes(n))
    return out


def stmt_may_raise(s: ast.stmt) -> set[str]:
    if isinstance(s, ast.Raise):
        return {'raise'} | expr_may_raise(s.exc)
    if isinstance(s, ast.Assert):
        return {'raise'}
    if isinstance(s, (ast.Pass, ast.Break, ast.Continue, ast.Global, ast.Nonlocal)):
        return set()
    if isinstance(s, (ast.FunctionDef, ast.AsyncFunctionDef, ast.ClassDef)):
        return set()
    if isinstance(s, (ast.Import, ast.ImportFrom)):
        return {'other'}
    if isinstance(s, ast.Delete):
        return {'other'}
    out: set[str] = set()
    if isinstance(s, (ast.Assign, ast.AnnAssign, ast.AugAssign)):
        out |= expr_may_raise(s.value)
        tgts = s.targets if isinstance(s, ast.Assign) else [s.target]
        for t in tgts:
            if isinstance(t, (ast.Tuple, ast.List)):
                out.add('other')  # unpacking
            if not isinstance(t, ast.Name):
                out |= expr_may_raise(t)
        if isinstance(s, ast.AugAssign):
            out.add('other')
        return out
    if isinstance(s, ast.Expr):
        return expr_may_raise(s.value)
    if isinstance(s, ast.Return):
        return expr_may_raise(s.value)
    return {'other'}


@dataclass
class _Ctx:
    exc: Callable[[], int]
    ret: Callable[[], int]
    brk: Callable[[], int] | None = None
    cont: Callable[[], int] | None = None
    fin: tuple = ()


class CFG:
    def __init__(self, func: ast.FunctionDef | ast.AsyncFunctionDef):
        self.func = func
        self.nodes: list[Node] = []
        self.succ: dict[int, list[tuple[int, str]]] = {}
        self.pred: dict[int, list[tuple[int, str]]] = {}
        self.entry = self._new('entry').id
        self.exit = self._new('exit').id
        self.raise_exit = self._new('raise').id
        ctx = _Ctx(exc=lambda: self.raise_exit, ret=lambda: self.exit)
        outs = self._block(func.body, [(self.entry, 'n')], ctx)
        self._connect(outs, self.exit)
        self._by_stmt: dict[int, list[int]] = {}
        for n in self.nodes:
            if n.stmt is not None:
                self._by_stmt.setdefault(id(n.stmt), []).append(n.id)

    # -- construction --------------------------------------------------
    def _new(self, kind, stmt=None, fin=(), why=frozenset(), note='') -> Node:
        n = Node(len(self.nodes), kind, stmt, fin, frozenset(why), note)
        self.nodes.append(n)
        self.succ[n.id] = []
        self.pred[n.id] = []
        return n

    def _edge(self, a: int, b: int, label: str):
        if (b, label) not in self.succ[a]:
            self.succ[a].append((b, label))
            self.pred[b].append((a, label))

    def _connect(self, frm: list[tuple[int, str]], to: int):
        for a, lab in frm:
            self._edge(a, to, lab)

    def _stmt_node(self, s, kind, ctx: _Ctx, frm, why: Iterable[str]) -> Node:
        n = self._new(kind, s, ctx.fin, frozenset(why))
        self._connect(frm, n.id)
        if n.why_raise:
            self._edge(n.id, ctx.exc(), 'e')
        return n

    def _block(self, stmts, frm, ctx: _Ctx):
        for s in stmts:
            frm = self._stmt(s, frm, ctx)
        return frm

    def _stmt(self, s: ast.stmt, frm, ctx: _Ctx):
        if isinstance(s, ast.If):
            n = self._stmt_node(s, 'test', ctx, frm, expr_may_raise(s.test))
            t = self._block(s.body, [(n.id, 't')], ctx)
            f = self._block(s.orelse, [(n.id, 'f')], ctx)
            return t + f
        if isinstance(s, ast.While):
            n = self._stmt_node(s, 'test', ctx, frm, expr_may_raise(s.test))
            after = self._new('join', s, ctx.fin, note='after-loop')
            lctx = _Ctx(ctx.exc, ctx.ret, lambda: after.id, lambda: n.id, ctx.fin)
            body_out = self._block(s.body, [(n.id, 't')], lctx)
            self._connect(body_out, n.id)
            const_true = isinstance(s.test, ast.Constant) and bool(s.test.value)
            if not const_true:
                orelse_out = self._block(s.orelse, [(n.id, 'f')], ctx)
                self._connect(orelse_out, after.id)
            return [(after.id, 'n')]
        if isinstance(s, (ast.For, ast.AsyncFor)):
            n = self._stmt_node(s, 'iter', ctx, frm, {'other'} | expr_may_raise(s.iter))
            after = self._new('join', s, ctx.fin, note='after-loop')
            lctx = _Ctx(ctx.exc, ctx.ret, lambda: after.id, lambda: n.id, ctx.fin)
            body_out = self._block(s.body, [(n.id, 't')], lctx)
            self._connect(body_out, n.id)
            orelse_out = self._block(s.orelse, [(n.id, 'f')], ctx)
            self._connect(orelse_out, after.id)
            return [(after.id, 'n')]
        if isinstance(s, (ast.With, ast.AsyncWith)):
            why = set()
            for it in s.items:
                why |= expr_may_raise(it.context_expr)
            why.add('call')  # __enter__
            n = self._stmt_node(s, 'with', ctx, frm, why)
            return self._block(s.body, [(n.id, 'n')], ctx)
        if isinstance(s, ast.Match):
            n = self._stmt_node(s, 'match', ctx, frm, expr_may_raise(s.subject))
            outs = []
            cur = [(n.id, 'n')]
            for c in s.cases:
                cn = self._new('case', c, ctx.fin, expr_may_raise(c.guard))
                self._connect(cur, cn.id)
                if cn.why_raise:
                    self._edge(cn.id, ctx.exc(), 'e')
                outs += self._block(c.body, [(cn.id, 't')], ctx)
                irrefutable = (
                    c.guard is None
                    and isinstance(c.pattern, ast.MatchAs)
                    and c.pattern.pattern is None
                )
                cur = [] if irrefutable else [(cn.id, 'f')]
            return outs + cur
        if isinstance(s, (ast.Try, getattr(ast, 'TryStar', ast.Try))):
            return self._try(s, frm, ctx)
        if isinstance(s, ast.Return):
            n = self._stmt_node(s, 'stmt', ctx, frm, stmt_may_raise(s))
            self._edge(n.id, ctx.ret(), 'n')
            return []
        if isinstance(s, ast.Raise):
            n = self._new('stmt', s, ctx.fin, frozenset(stmt_may_raise(s)))
            self._connect(frm, n.id)
            self._edge(n.id, ctx.exc(), 'e')
            return []
        if isinstance(s, ast.Break):
            n = self._stmt_node(s, 'stmt', ctx, frm, ())
            if ctx.brk is not None:
                self._edge(n.id, ctx.brk(), 'n')
            return []
        if isinstance(s, ast.Continue):
            n = self._stmt_node(s, 'stmt', ctx, frm, ())
            if ctx.cont is not None:
                self._edge(n.id, ctx.cont(), 'n')
            return []
        n = self._stmt_node(s, 'stmt', ctx, frm, stmt_may_raise(s))
        return [(n.id, 'n')]

    def _try(self, s: ast.Try, frm, ctx: _Ctx):
        if s.finalbody:
            cache: dict[str, int] = {}

            def fin(kind: str, outer: Callable[[], int] | None):
                if outer is None:
                    return None

                def get() -> int:
                    if kind not in cache:
                        fctx = _Ctx(ctx.exc, ctx.ret, ctx.brk, ctx.cont, ctx.fin + (kind,))
                        entry = self._new('finally', s, fctx.fin, note=kind)
                        cache[kind] = entry.id
                        outs = self._block(s.finalbody, [(entry.id, 'n')], fctx)
                        # after an exceptional finally the exception continues
                        lab = 'e' if kind == 'exc' else 'n'
                        tgt = outer()
                        if outs:
                            j = self._new('join', s, fctx.fin, note='end-finally')
                            self._connect(outs, j.id)
                            self._edge(j.id, tgt, lab)
                    return cache[kind]

                return get

            inner = _Ctx(
                fin('exc', ctx.exc),
                fin('return', ctx.ret),
                fin('break', ctx.brk),
                fin('continue', ctx.cont),
                ctx.fin,
            )
        else:
            inner = ctx

        if s.handlers:
            disp = self._new('dispatch', s, ctx.fin)
            body_ctx = _Ctx(lambda: disp.id, inner.ret, inner.brk, inner.cont, ctx.fin)
        else:
            disp = None
            body_ctx = inner
        outs = self._block(s.body, frm, body_ctx)
        outs = self._block(s.orelse, outs, inner)
        if disp is not None:
            catch_all = False
            for h in s.handlers:
                hn = self._new('except', h, ctx.fin)
                self._edge(disp.id, hn.id, 'e')
                outs += self._block(h.body, [(hn.id, 'n')], inner)
                names = set()
                if h.type is None:
                    catch_all = True
                else:
                    ts = h.type.elts if isinstance(h.type, ast.Tuple) else [h.type]
                    for t in ts:
                        names.add(ast.unparse(t).split('.')[-1])
                    if names & CATCH_ALL:
                        catch_all = True
            if not catch_all and self.pred[disp.id]:
                self._edge(disp.id, inner.exc(), 'e')
            elif not catch_all:
                # body cannot raise as far as we can tell; keep dispatch isolated
                pass
        if s.finalbody:
            if outs:
                entry = fin('normal', lambda: -1)  # type: ignore[arg-type]
                # build the normal copy by hand so that its exits stay dangling
                fctx = _Ctx(ctx.exc, ctx.ret, ctx.brk, ctx.cont, ctx.fin + ('normal',))
                e = self._new('finally', s, fctx.fin, note='normal')
                self._connect(outs, e.id)
                return self._block(s.finalbody, [(e.id, 'n')], fctx)
            return []
        return outs

    # -- queries -------------------------------------------------------
    def nodes_of(self, stmt: ast.AST) -> list[int]:
        return self._by_stmt.get(id(stmt), [])

    def reachable(self, start: int | None = None, labels: set[str] | None = None) -> set[int]:
        start = self.entry if start is None else start
        seen = {start}
        st = [start]
        while st:
            a = st.pop()
            for b, lab in self.succ[a]:
                if labels is not None and lab not in labels:
                    continue
                if b not in seen:
                    seen.add(b)
                    st.append(b)
        return seen

    def reaches(self, a: int, b: int, edge_ok: Callable[[int, int, str], bool] | None = None,
                strict: bool = True) -> bool:
        seen = set()
        st = [a]
        first = True
        while st:
            x = st.pop()
            if x == b and not (first and strict):
                return True
            first = False
            for y, lab in self.succ[x]:
                if edge_ok is not None and not edge_ok(x, y, lab):
                    continue
                if y == b:
                    return True
                if y not in seen:
                    seen.add(y)
                    st.append(y)
        return False

    def find_path(self, a: int, b: int, edge_ok=None) -> list[int] | None:
        prev = {a: None}
        q = [a]
        while q:
            x = q.pop(0)
            for y, lab in self.succ[x]:
                if edge_ok is not None and not edge_ok(x, y, lab):
                    continue
                if y not in prev:
                    prev[y] = x
                    if y == b:
                        path = [y]
                        while prev[path[-1]] is not None:
                            path.append(prev[path[-1]])
                        return list(reversed(path))
                    q.append(y)
        return None

    def dominators(self, edge_ok=None) -> dict[int, set[int]]:
        live = self._reach(edge_ok)
        order = sorted(live)
        dom = {n: set(order) for n in order}
        dom[self.entry] = {self.entry}
        changed = True
        while changed:
            changed = False
            for n in order:
                if n == self.entry:
                    continue
                preds = [
                    p for p, lab in self.pred[n]
                    if p in live and (edge_ok is None or edge_ok(p, n, lab))
                ]
                if not preds:
                    new = {n}
                else:
                    new = set.intersection(*(dom[p] for p in preds)) | {n}
                if new != dom[n]:
                    dom[n] = new
                    changed = True
        return dom

    def _reach(self, edge_ok=None) -> set[int]:
        seen = {self.entry}
        st = [self.entry]
        while st:
            a = st.pop()
            for b, lab in self.succ[a]:
                if edge_ok is not None and not edge_ok(a, b, lab):
                    continue
                if b not in seen:
                    seen.add(b)
                    st.append(b)
        return seen

    def postdominators(self, sinks: Iterable[int], edge_ok=None) -> dict[int, set[int]]:
        sinks = set(sinks)
        alln = set(range(len(self.nodes)))
        pdom = {n: set(alln) for n in alln}
        for s in sinks:
            pdom[s] = {s}
        changed = True
        while changed:
            changed = False
            for n in alln:
                if n in sinks:
                    continue
                succs = [
                    b for b, lab in self.succ[n] if edge_ok is None or edge_ok(n, b, lab)
                ]
                if not succs:
                    new = set(alln)  # dead end that is not a sink: vacuous
                else:
                    new = set.intersection(*(pdom[b] for b in succs)) | {n}
                if new != pdom[n]:
                    pdom[n] = new
                    changed = True
        return pdom

    def forward(self, init, transfer, join, edge_ok=None, exc_transfer=None, branch_transfer=None):
        """Generic forward dataflow.  `transfer(node, state) -> state` gives the
        state on normal out-edges; exceptional out-edges carry
        `exc_transfer(node, state)` (default: the in-state, i.e. the statement's
        own effect did not happen).  Returns (in_states, out_states)."""
        ins: dict[int, object] = {self.entry: init}
        outs: dict[int, object] = {}
        work = [self.entry]
        while work:
            n = work.pop()
            st = ins[n]
            out_n = transfer(self.nodes[n], st)
            out_e = exc_transfer(self.nodes[n], st) if exc_transfer else st
            outs[n] = out_n
            for b, lab in self.succ[n]:
                if edge_ok is not None and not edge_ok(n, b, lab):
                    continue
                val = out_e if lab == 'e' and self.nodes[n].kind not in ('dispatch', 'finally', 'join') else out_n
                if lab == 'e' and self.nodes[n].kind == 'stmt' and isinstance(self.nodes[n].stmt, ast.Raise):
                    val = st
                if branch_transfer is not None and lab in ('t', 'f'):
                    val = branch_transfer(self.nodes[n], lab, val)
                if b not in ins:
                    ins[b] = val
                    work.append(b)
                else:
                    j = join(ins[b], val)
                    if j != ins[b]:
                        ins[b] = j
                        work.append(b)
        return ins, outs

    def acyclic_paths(self, a: int, b: int, limit: int = 20000, edge_ok=None):
        """Enumerate simple paths a→b (reporting aid for the thorough tier)."""
        out = []
        path = [a]
        on = {a}

        def go(x):
            if len(out) >= limit:
                return
            if x == b and len(path) > 1:
                out.append(list(path))
                return
            for y, lab in self.succ[x]:
                if edge_ok is not None and not edge_ok(x, y, lab):
                    continue
                if y in on and y != b:
                    continue
                if y == b:
                    out.append(path + [y])
                    continue
                on.add(y)
                path.append(y)
                go(y)
                path.pop()
                on.discard(y)

        go(a)
        return out

    def dump(self) -> str:
        lines = []
        for n in self.nodes:
            s = ', '.join(f'{b}{lab}' for b, lab in self.succ[n.id])
            lines.append(f'{n.id:3d} [{n.kind}{"/" + ",".join(n.fin) if n.fin else ""}] L{n.line} {n.text()[:70]} -> {s}')
        return '\n'.join(lines)
