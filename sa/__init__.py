"""Static analysis of MIT-LAE/AEIC against the 20 given properties.

Stdlib only (`ast`).  The repository is parsed, never imported or run.
"""

# The loader hangs a `_parent` link on every AST node.  copy.deepcopy of a sub-tree would follow that link upwards and
# copy the whole module (slow, and the copy drags a second module tree along).  Copies of AST nodes therefore stop at
# the root's parent: the root copy gets `_parent = None`, links inside the sub-tree point at the copied nodes.
import ast as _ast
import copy as _copy

_orig_deepcopy = _copy.deepcopy


def _deepcopy(x, memo=None, _nil=[]):  # noqa: B006
    if memo is None:
        roots = [x] if isinstance(x, _ast.AST) else \
            [e for e in x if isinstance(e, _ast.AST)] if isinstance(x, (list, tuple)) else []
        if roots:
            memo = {}
            inside = {id(r) for r in roots}
            for r in roots:
                p = getattr(r, '_parent', None)
                if p is not None and id(p) not in inside:
                    memo[id(p)] = None
    return _orig_deepcopy(x, memo)


if getattr(_copy.deepcopy, '__name__', '') != '_deepcopy':
    _copy.deepcopy = _deepcopy
