"""Static analysis of MIT-LAE/AEIC against the 20 given properties.

Stdlib only (`ast`).  The repository is parsed, never imported or run.
"""
