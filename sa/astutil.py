"""Small AST helpers shared by the rules."""

from __future__ import annotations

import ast
from typing import Iterable, Iterator

from .loader import dotted_name, parent


def unparse(n: ast.AST | None) -> str:
    return ast.unparse(n) if n is not None else ''


def norm(n: ast.AST | str) -> str:
    """Normalised one-line text of a construct (used in finding keys)."""
    s = n if isinstance(n, str) else ast.unparse(n)
    return ' '.join(s.split())


def walk_no_nested(n: ast.AST, include_lambda: bool = True) -> Iterator[ast.AST]:
    """ast.walk that does not descend into nested function/class definitions
    (the root itself may be a function)."""
    stack = list(ast.iter_child_nodes(n))
    yield n
    while stack:
        x = stack.pop()
        if isinstance(x, (ast.FunctionDef, ast.AsyncFunctionDef, ast.ClassDef)):
            continue
        if not include_lambda and isinstance(x, ast.Lambda):
            continue
        yield x
        stack.extend(ast.iter_child_nodes(x))


def calls_in(n: ast.AST) -> list[ast.Call]:
    return sorted(
        (x for x in walk_no_nested(n) if isinstance(x, ast.Call)),
        key=lambda c: (c.lineno, c.col_offset),
    )


def call_name(c: ast.Call) -> str:
    return dotted_name(c.func) or unparse(c.func)


def names_in(n: ast.AST) -> set[str]:
    return {x.id for x in ast.walk(n) if isinstance(x, ast.Name)}


def attr_chains_in(n: ast.AST) -> set[str]:
    out = set()
    for x in ast.walk(n):
        if isinstance(x, (ast.Attribute, ast.Name)):
            d = dotted_name(x)
            if d:
                out.add(d)
    return out


def stmt_of(n: ast.AST) -> ast.stmt | None:
    while n is not None and not isinstance(n, ast.stmt):
        n = parent(n)
    return n  # type: ignore[return-value]


def ancestors(n: ast.AST) -> Iterator[ast.AST]:
    p = parent(n)
    while p is not None:
        yield p
        p = parent(p)


def is_within(n: ast.AST, anc: ast.AST) -> bool:
    return any(a is anc for a in ancestors(n)) or n is anc


def in_body(n: ast.AST, owner: ast.AST, field: str) -> bool:
    """True iff statement/expression n is (transitively) inside owner.<field>."""
    for s in getattr(owner, field, []) or []:
        if is_within(n, s):
            return True
    return False


def guards_of(n: ast.AST, stop: ast.AST | None = None) -> list[tuple[ast.expr, bool, ast.AST]]:
    """Conditions the construct n is control-dependent on *syntactically*:
    list of (test expr, polarity, owner) from innermost to outermost.  Covers
    if/elif/else, while, conditional expressions and `and`/`or` short circuit
    on the left operands."""
    out = []
    child = n
    for a in ancestors(n):
        if a is stop:
            break
        if isinstance(a, (ast.FunctionDef, ast.AsyncFunctionDef, ast.Lambda)):
            break
        if isinstance(a, ast.If):
            if any(child is s for s in a.body):
                out.append((a.test, True, a))
            elif any(child is s for s in a.orelse):
                out.append((a.test, False, a))
        elif isinstance(a, ast.While):
            if any(child is s for s in a.body):
                out.append((a.test, True, a))
        elif isinstance(a, ast.IfExp):
            if child is a.body:
                out.append((a.test, True, a))
            elif child is a.orelse:
                out.append((a.test, False, a))
        elif isinstance(a, ast.BoolOp):
            idx = next((i for i, v in enumerate(a.values) if v is child), None)
            if idx:
                for v in a.values[:idx]:
                    out.append((v, isinstance(a.op, ast.And), a))
        elif isinstance(a, ast.comprehension):
            pass
        elif isinstance(a, (ast.ListComp, ast.SetComp, ast.GeneratorExp, ast.DictComp)):
            # element expression is guarded by the comprehension's ifs
            for g in a.generators:
                if child is not g:
                    for c in g.ifs:
                        out.append((c, True, a))
        child = a
    return out


def conjuncts(e: ast.expr, polarity: bool = True) -> list[tuple[ast.expr, bool]]:
    """Split a guard known to have truth value `polarity` into atomic facts."""
    if isinstance(e, ast.UnaryOp) and isinstance(e.op, ast.Not):
        return conjuncts(e.operand, not polarity)
    if isinstance(e, ast.BoolOp):
        if isinstance(e.op, ast.And) and polarity:
            return [x for v in e.values for x in conjuncts(v, True)]
        if isinstance(e.op, ast.Or) and not polarity:
            return [x for v in e.values for x in conjuncts(v, False)]
    return [(e, polarity)]


def assigned_names(t: ast.AST) -> list[str]:
    if isinstance(t, ast.Name):
        return [t.id]
    if isinstance(t, (ast.Tuple, ast.List)):
        return [x for e in t.elts for x in assigned_names(e)]
    if isinstance(t, ast.Starred):
        return assigned_names(t.value)
    return []


def local_defs(func: ast.AST, name: str) -> list[ast.stmt]:
    """Statements in func (not nested defs) that bind local `name`."""
    out = []
    for x in walk_no_nested(func):
        if isinstance(x, ast.Assign):
            if any(name in assigned_names(t) for t in x.targets):
                out.append(x)
        elif isinstance(x, (ast.AnnAssign, ast.AugAssign)):
            if name in assigned_names(x.target):
                out.append(x)
        elif isinstance(x, (ast.For, ast.AsyncFor)):
            if name in assigned_names(x.target):
                out.append(x)
        elif isinstance(x, (ast.With, ast.AsyncWith)):
            for it in x.items:
                if it.optional_vars is not None and name in assigned_names(it.optional_vars):
                    out.append(x)
        elif isinstance(x, ast.NamedExpr):
            if x.target.id == name:
                out.append(stmt_of(x))
    return sorted(out, key=lambda s: (s.lineno, s.col_offset))


def single_def_value(func: ast.AST, name: str) -> ast.expr | None:
    """Value of `name` if it is bound exactly once in func by a plain
    assignment `name = value` (or annotated)."""
    ds = local_defs(func, name)
    if len(ds) != 1:
        return None
    d = ds[0]
    if isinstance(d, ast.Assign) and len(d.targets) == 1 and isinstance(d.targets[0], ast.Name):
        return d.value
    if isinstance(d, ast.AnnAssign) and isinstance(d.target, ast.Name):
        return d.value
    return None


def tuple_def_component(func: ast.AST, name: str) -> tuple[ast.expr, int] | None:
    """If `name` is bound once by `a, name, c = value`, return (value, index)."""
    ds = local_defs(func, name)
    if len(ds) != 1 or not isinstance(ds[0], ast.Assign):
        return None
    d = ds[0]
    if len(d.targets) == 1 and isinstance(d.targets[0], (ast.Tuple, ast.List)):
        for i, e in enumerate(d.targets[0].elts):
            if isinstance(e, ast.Name) and e.id == name:
                return d.value, i
    return None


def const_value(e: ast.AST):
    if isinstance(e, ast.Constant):
        return e.value
    if isinstance(e, ast.UnaryOp) and isinstance(e.op, ast.USub) and isinstance(e.operand, ast.Constant):
        return -e.operand.value
    return None


def kwarg(c: ast.Call, name: str) -> ast.expr | None:
    for k in c.keywords:
        if k.arg == name:
            return k.value
    return None


def arg_or_kw(c: ast.Call, pos: int, name: str) -> ast.expr | None:
    if len(c.args) > pos and not any(isinstance(a, ast.Starred) for a in c.args[: pos + 1]):
        return c.args[pos]
    return kwarg(c, name)


def terminal_identifier(e: ast.AST) -> str | None:
    """Last identifier of an access path, looking through subscripts, slices,
    calls of conversion helpers and unary/scalar arithmetic."""
    while True:
        if isinstance(e, ast.Subscript):
            e = e.value
        elif isinstance(e, ast.Starred):
            e = e.value
        elif isinstance(e, ast.Attribute):
            return e.attr
        elif isinstance(e, ast.Name):
            return e.id
        elif isinstance(e, ast.UnaryOp):
            e = e.operand
        elif isinstance(e, ast.Call) and len(e.args) == 1 and not e.keywords:
            e = e.args[0]
        else:
            return None


def stores_to(n: ast.AST) -> list[tuple[ast.expr, ast.stmt, str]]:
    """All store targets in n (not nested defs): (target expr, statement, how)
    with how in {'assign','aug','del','for','with','ann'}."""
    out = []
    for x in walk_no_nested(n):
        if isinstance(x, ast.Assign):
            for t in x.targets:
                for e in _flatten(t):
                    out.append((e, x, 'assign'))
        elif isinstance(x, ast.AnnAssign) and x.value is not None:
            out.append((x.target, x, 'ann'))
        elif isinstance(x, ast.AugAssign):
            out.append((x.target, x, 'aug'))
        elif isinstance(x, ast.Delete):
            for t in x.targets:
                out.append((t, x, 'del'))
        elif isinstance(x, (ast.For, ast.AsyncFor)):
            for e in _flatten(x.target):
                out.append((e, x, 'for'))
    out.sort(key=lambda r: (getattr(r[1], 'lineno', 0), getattr(r[1], 'col_offset', 0)))
    return out


def _flatten(t: ast.expr) -> Iterable[ast.expr]:
    if isinstance(t, (ast.Tuple, ast.List)):
        for e in t.elts:
            yield from _flatten(e)
    elif isinstance(t, ast.Starred):
        yield from _flatten(t.value)
    else:
        yield t


MUTATING_METHODS = {
    'append', 'extend', 'insert', 'pop', 'remove', 'clear', 'update', 'add',
    'discard', 'setdefault', 'popitem', 'sort', 'reverse', 'appendleft',
}


def eval_pred(e: ast.AST, env: dict):
    """Evaluate a side-effect-free predicate / arithmetic expression over an
    explicit environment (truth-table evaluation of an *extracted* expression;
    nothing from the repository is imported or run).  Raises ValueError on any
    construct outside comparisons, boolean operators, +,-,*, names, constants."""
    if isinstance(e, ast.Constant):
        return e.value
    if isinstance(e, (ast.Name, ast.Attribute)):
        k = ast.unparse(e)
        if k in env:
            return env[k]
        raise ValueError(f'unbound {k}')
    if isinstance(e, ast.BoolOp):
        vals = [eval_pred(v, env) for v in e.values]
        return all(vals) if isinstance(e.op, ast.And) else any(vals)
    if isinstance(e, ast.UnaryOp):
        v = eval_pred(e.operand, env)
        if isinstance(e.op, ast.Not):
            return not v
        if isinstance(e.op, ast.USub):
            return -v
    if isinstance(e, ast.BinOp):
        a, b = eval_pred(e.left, env), eval_pred(e.right, env)
        if isinstance(e.op, ast.Add):
            return a + b
        if isinstance(e.op, ast.Sub):
            return a - b
        if isinstance(e.op, ast.Mult):
            return a * b
    if isinstance(e, ast.Compare):
        left = eval_pred(e.left, env)
        for op, c in zip(e.ops, e.comparators):
            right = eval_pred(c, env)
            r = {ast.Eq: lambda x, y: x == y, ast.NotEq: lambda x, y: x != y, ast.Lt: lambda x, y: x < y,
                 ast.LtE: lambda x, y: x <= y, ast.Gt: lambda x, y: x > y, ast.GtE: lambda x, y: x >= y,
                 ast.In: lambda x, y: x in y, ast.NotIn: lambda x, y: x not in y,
                 ast.Is: lambda x, y: x is y, ast.IsNot: lambda x, y: x is not y}.get(type(op))
            if r is None:
                raise ValueError(type(op).__name__)
            if not r(left, right):
                return False
            left = right
        return True
    if isinstance(e, (ast.Tuple, ast.List, ast.Set)):
        return tuple(eval_pred(x, env) for x in e.elts)
    raise ValueError(f'cannot evaluate {type(e).__name__}')


LOG_CALLS = ('logger.', 'logging.', 'print', 'warnings.warn', 'log.')


def real_body(body: list) -> list:
    """statements of a block without logging / printing / no-op statements"""
    out = []
    for st in body or []:
        if isinstance(st, ast.Pass):
            continue
        if isinstance(st, ast.Expr):
            if isinstance(st.value, ast.Constant):
                continue
            if isinstance(st.value, ast.Call) and call_name(st.value).startswith(LOG_CALLS):
                continue
        out.append(st)
    return out


def first_stmt(body):
    rb = real_body(body)
    return rb[0] if rb else None


def last_stmt(body):
    rb = real_body(body)
    return rb[-1] if rb else None


_SEQ_WRAPPERS = ('list', 'tuple', 'sorted', 'iter', 'reversed')


def iterated_mapping(it: ast.AST) -> tuple[ast.AST, str] | None:
    """(mapping expression, 'keys' | 'values' | 'items') when the iterable `it` is a mapping's own content:
    `m`, `m.keys()`, `m.values()`, `m.items()`, each possibly inside list()/tuple()/sorted()/iter()/reversed().
    A call result counts as a mapping only when one of the three methods is applied to it (`f(x).items()`)."""
    while isinstance(it, ast.Call) and isinstance(it.func, ast.Name) and it.func.id in _SEQ_WRAPPERS \
            and len(it.args) == 1 and all(k.arg in ('key', 'reverse') for k in it.keywords):
        it = it.args[0]
    if isinstance(it, ast.Call) and isinstance(it.func, ast.Attribute) and not it.args and not it.keywords \
            and it.func.attr in ('keys', 'values', 'items'):
        m = it.func.value
        if isinstance(m, (ast.Name, ast.Attribute, ast.Subscript, ast.Call)):
            return m, it.func.attr
        return None
    if isinstance(it, (ast.Name, ast.Attribute, ast.Subscript)):
        return it, 'keys'
    return None


def map_iteration(target: ast.AST, it: ast.AST) -> tuple[str, str | None, str | None] | None:
    """What a `for target in it` (statement or comprehension clause) walks when `it` is a mapping's own
    content (see iterated_mapping): (normalised text of the mapping, key variable or None, value variable or
    None).  None when `it` is anything else (a literal, an arbitrary call …)."""
    im = iterated_mapping(it)
    if im is None:
        return None
    m, how = norm(im[0]), im[1]
    if how == 'items':
        if isinstance(target, (ast.Tuple, ast.List)) and len(target.elts) == 2:
            k, v = target.elts
            return m, (k.id if isinstance(k, ast.Name) else None), (v.id if isinstance(v, ast.Name) else None)
        return m, None, None
    if not isinstance(target, ast.Name):
        return m, None, None
    return (m, target.id, None) if how == 'keys' else (m, None, target.id)


def enclosing_iterations(n: ast.AST, stop: ast.AST | None = None):
    """(owner, target, iter) of every `for` statement whose *body* contains n and of every comprehension clause
    that governs n, innermost first; stops at `stop` / the enclosing function."""
    child = n
    for a in ancestors(n):
        if a is stop or isinstance(a, (ast.FunctionDef, ast.AsyncFunctionDef, ast.Lambda)):
            break
        if isinstance(a, (ast.For, ast.AsyncFor)) and any(child is s for s in a.body):
            yield a, a.target, a.iter
        elif isinstance(a, (ast.ListComp, ast.SetComp, ast.GeneratorExp, ast.DictComp)):
            for g in reversed(a.generators):
                if child is not g:
                    yield a, g.target, g.iter
        child = a
