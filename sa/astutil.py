"""Small AST helpers shared by the rules."""

from __future__ import annotations

import ast
from typing import Iterable, Iterator

from .loader import dotted_name, parent


def unparse(n: ast.AST | None) -> str:
    return ast.unparse(n) if n is not None else ''


def norm(n: ast.AST | str) -> str:
    """Normalised one-line text of a construct (used in finding keys)."""
    s = n if isinstance(n, str) else ast.unparse(n)
    return ' '.join(s.split())


def walk_no_nested(n: ast.AST, include_lambda: bool = True) -> Iterator[ast.AST]:
    """ast.walk that does not descend into nested function/class definitions
    (the root itself may be a function)."""
    stack = list(ast.iter_child_nodes(n))
    yield n
    while stack:
        x = stack.pop()
        if isinstance(x, (ast.FunctionDef, ast.AsyncFunctionDef, ast.ClassDef)):
            continue
        if not include_lambda and isinstance(x, ast.Lambda):
            continue
        yield x
        stack.extend(ast.iter_child_nodes(x))


def calls_in(n: ast.AST) -> list[ast.Call]:
    return sorted(
        (x for x in walk_no_nested(n) if isinstance(x, ast.Call)),
        key=lambda c: (c.lineno, c.col_offset),
    )


def call_name(c: ast.Call) -> str:
    return dotted_name(c.func) or unparse(c.func)


def names_in(n: ast.AST) -> set[str]:
    return {x.id for x in ast.walk(n) if isinstance(x, ast.Name)}


def attr_chains_in(n: ast.AST) -> set[str]:
    out = set()
    for x in ast.walk(n):
        if isinstance(x, (ast.Attribute, ast.Name)):
            d = dotted_name(x)
            if d:
                out.add(d)
    return out


def stmt_of(n: ast.AST) -> ast.stmt | None:
    while n is not None and not isinstance(n, ast.stmt):
        n = parent(n)
    return n  # type: ignore[return-value]


def ancestors(n: ast.AST) -> Iterator[ast.AST]:
    p = parent(n)
    while p is not None:
        yield p
        p = parent(p)


def is_within(n: ast.AST, anc: ast.AST) -> bool:
    return any(a is anc for a in ancestors(n)) or n is anc


def in_body(n: ast.AST, owner: ast.AST, field: str) -> bool:
    """True iff statement/expression n is (transitively) inside owner.<field>."""
    for s in getattr(owner, field, []) or []:
        if is_within(n, s):
            return True
    return False


def guards_of(n: ast.AST, stop: ast.AST | None = None) -> list[tuple[ast.expr, bool, ast.AST]]:
    """Conditions the construct n is control-dependent on *syntactically*:
    list of (test expr, polarity, owner) from innermost to outermost.  Covers
    if/elif/else, while, conditional expressions and `and`/`or` short circuit
    on the left operands."""
    out = []
    child = n
    for a in ancestors(n):
        if a is stop:
            break
        if isinstance(a, (ast.FunctionDef, ast.AsyncFunctionDef, ast.Lambda)):
            break
        if isinstance(a, ast.If):
            if any(child is s for s in a.body):
                out.append((a.test, True, a))
            elif any(child is s for s in a.orelse):
                out.append((a.test, False, a))
        elif isinstance(a, ast.While):
            if any(child is s for s in a.body):
                out.append((a.test, True, a))
        elif isinstance(a, ast.IfExp):
            if child is a.body:
                out.append((a.test, True, a))
            elif child is a.orelse:
                out.append((a.test, False, a))
        elif isinstance(a, ast.BoolOp):
            idx = next((i for i, v in enumerate(a.values) if v is child), None)
            if idx:
                for v in a.values[:idx]:
                    out.append((v, isinstance(a.op, ast.And), a))
        elif isinstance(a, ast.comprehension):
            pass
        elif isinstance(a, (ast.ListComp, ast.SetComp, ast.GeneratorExp, ast.DictComp)):
            # element expression is guarded by the comprehension's ifs
            for g in a.generators:
                if child is not g:
                    for c in g.ifs:
                        out.append((c, True, a))
        child = a
    return out


def conjuncts(e: ast.expr, polarity: bool = True) -> list[tuple[ast.expr, bool]]:
    """Split a guard known to have truth value `polarity` into atomic facts."""
    if isinstance(e, ast.UnaryOp) and isinstance(e.op, ast.Not):
        return conjuncts(e.operand, not polarity)
    if isinstance(e, ast.BoolOp):
        if isinstance(e.op, ast.And) and polarity:
            return [x for v in e.values for x in conjuncts(v, True)]
        if isinstance(e.op, ast.Or) and not polarity:
            return [x for v in e.values for x in conjuncts(v, False)]
    return [(e, polarity)]


def assigned_names(t: ast.AST) -> list[str]:
    if isinstance(t, ast.Name):
        return [t.id]
    if isinstance(t, (ast.Tuple, ast.List)):
        return [x for e in t.elts for x in assigned_names(e)]
    if isinstance(t, ast.Starred):
        return assigned_names(t.value)
    return []


def local_defs(func: ast.AST, name: str) -> list[ast.stmt]:
    """Statements in func (not nested defs) that bind local `name`."""
    out = []
    for x in walk_no_nested(func):
        if isinstance(x, ast.Assign):
            if any(name in assigned_names(t) for t in x.targets):
                out.append(x)
        elif isinstance(x, (ast.AnnAssign, ast.AugAssign)):
            if name in assigned_names(x.target):
                out.append(x)
        elif isinstance(x, (ast.For, ast.AsyncFor)):
            if name in assigned_names(x.target):
                out.append(x)
        elif isinstance(x, (ast.With, ast.AsyncWith)):
            for it in x.items:
                if it.optional_vars is not None and name in assigned_names(it.optional_vars):
                    out.append(x)
        elif isinstance(x, ast.NamedExpr):
            if x.target.id == name:
                out.append(stmt_of(x))
    return sorted(out, key=lambda s: (s.lineno, s.col_offset))


def single_def_value(func: ast.AST, name: str) -> ast.expr | None:
    """Value of `name` if it is bound exactly once in func by a plain
    assignment `name = value` (or annotated)."""
    ds = local_defs(func, name)
    if len(ds) != 1:
        return None
    d = ds[0]
    if isinstance(d, ast.Assign) and len(d.targets) == 1 and isinstance(d.targets[0], ast.Name):
        return d.value
    if isinstance(d, ast.AnnAssign) and isinstance(d.target, ast.Name):
        return d.value
    return None


def tuple_def_component(func: ast.AST, name: str) -> tuple[ast.expr, int] | None:
    """If `name` is bound once by `a, name, c = value`, return (value, index)."""
    ds = local_defs(func, name)
    if len(ds) != 1 or not isinstance(ds[0], ast.Assign):
        return None
    d = ds[0]
    if len(d.targets) == 1 and isinstance(d.targets[0], (ast.Tuple, ast.List)):
        for i, e in enumerate(d.targets[0].elts):
            if isinstance(e, ast.Name) and e.id == name:
                return d.value, i
    return None


def const_value(e: ast.AST):
    if isinstance(e, ast.Constant):
        return e.value
    if isinstance(e, ast.UnaryOp) and isinstance(e.op, ast.USub) and isinstance(e.operand, ast.Constant):
        return -e.operand.value
    return None


def kwarg(c: ast.Call, name: str) -> ast.expr | None:
    for k in c.keywords:
        if k.arg == name:
            return k.value
    return None


def arg_or_kw(c: ast.Call, pos: int, name: str) -> ast.expr | None:
    if len(c.args) > pos and not any(isinstance(a, ast.Starred) for a in c.args[: pos + 1]):
        return c.args[pos]
    return kwarg(c, name)


def terminal_identifier(e: ast.AST) -> str | None:
    """Last identifier of an access path, looking through subscripts, slices,
    calls of conversion helpers and unary/scalar arithmetic."""
    while True:
        if isinstance(e, ast.Subscript):
            e = e.value
        elif isinstance(e, ast.Starred):
            e = e.value
        elif isinstance(e, ast.Attribute):
            return e.attr
        elif isinstance(e, ast.Name):
            return e.id
        elif isinstance(e, ast.UnaryOp):
            e = e.operand
        elif isinstance(e, ast.Call) and len(e.args) == 1 and not e.keywords:
            e = e.args[0]
        else:
            return None


def stores_to(n: ast.AST) -> list[tuple[ast.expr, ast.stmt, str]]:
    """All store targets in n (not nested defs): (target expr, statement, how)
    with how in {'assign','aug','del','for','with','ann'}."""
    out = []
    for x in walk_no_nested(n):
        if isinstance(x, ast.Assign):
            for t in x.targets:
                for e in _flatten(t):
                    out.append((e, x, 'assign'))
        elif isinstance(x, ast.AnnAssign) and x.value is not None:
            out.append((x.target, x, 'ann'))
        elif isinstance(x, ast.AugAssign):
            out.append((x.target, x, 'aug'))
        elif isinstance(x, ast.Delete):
            for t in x.targets:
                out.append((t, x, 'del'))
        elif isinstance(x, (ast.For, ast.AsyncFor)):
            for e in _flatten(x.target):
                out.append((e, x, 'for'))
    out.sort(key=lambda r: (getattr(r[1], 'lineno', 0), getattr(r[1], 'col_offset', 0)))
    return out


def _flatten(t: ast.expr) -> Iterable[ast.expr]:
    if isinstance(t, (ast.Tuple, ast.List)):
        for e in t.elts:
            yield from _flatten(e)
    elif isinstance(t, ast.Starred):
        yield from _flatten(t.value)
    else:
        yield t


MUTATING_METHODS = {
    'append', 'extend', 'insert', 'pop', 'remove', 'clear', 'update', 'add',
    'discard', 'setdefault', 'popitem', 'sort', 'reverse', 'appendleft',
}


def eval_pred(e: ast.AST, env: dict):
    """Evaluate a side-effect-free predicate / arithmetic expression over an
    explicit environment (truth-table evaluation of an *extracted* expression;
    nothing from the repository is imported or run).  Raises ValueError on any
    construct outside comparisons, boolean operators, +,-,*, names, constants."""
    if isinstance(e, ast.Constant):
        return e.value
    if isinstance(e, (ast.Name, ast.Attribute)):
        k = ast.unparse(e)
        if k in env:
            return env[k]
        raise ValueError(f'unbound {k}')
    if isinstance(e, ast.BoolOp):
        vals = [eval_pred(v, env) for v in e.values]
        return all(vals) if isinstance(e.op, ast.And) else any(vals)
    if isinstance(e, ast.UnaryOp):
        v = eval_pred(e.operand, env)
        if isinstance(e.op, ast.Not):
            return not v
        if isinstance(e.op, ast.USub):
            return -v
    if isinstance(e, ast.BinOp):
        a, b = eval_pred(e.left, env), eval_pred(e.right, env)
        if isinstance(e.op, ast.Add):
            return a + b
        if isinstance(e.op, ast.Sub):
            return a - b
        if isinstance(e.op, ast.Mult):
            return a * b
    if isinstance(e, ast.Compare):
        left = eval_pred(e.left, env)
        for op, c in zip(e.ops, e.comparators):
            right = eval_pred(c, env)
            r = {ast.Eq: lambda x, y: x == y, ast.NotEq: lambda x, y: x != y, ast.Lt: lambda x, y: x < y,
                 ast.LtE: lambda x, y: x <= y, ast.Gt: lambda x, y: x > y, ast.GtE: lambda x, y: x >= y,
                 ast.In: lambda x, y: x in y, ast.NotIn: lambda x, y: x not in y,
                 ast.Is: lambda x, y: x is y, ast.IsNot: lambda x, y: x is not y}.get(type(op))
            if r is None:
                raise ValueError(type(op).__name__)
            if not r(left, right):
                return False
            left = right
        return True
    if isinstance(e, (ast.Tuple, ast.List, ast.Set)):
        return tuple(eval_pred(x, env) for x in e.elts)
    raise ValueError(f'cannot evaluate {type(e).__name__}')


LOG_CALLS = ('logger.', 'logging.', 'print', 'warnings.warn', 'log.')


def real_body(body: list) -> list:
    """statements of a block without logging / printing / no-op statements"""
    out = []
    for st in body or []:
        if isinstance(st, ast.Pass):
            continue
        if isinstance(st, ast.Expr):
            if isinstance(st.value, ast.Constant):
                continue
            if isinstance(st.value, ast.Call) and call_name(st.value).startswith(LOG_CALLS):
                continue
        out.append(st)
    return out


def first_stmt(body):
    rb = real_body(body)
    return rb[0] if rb else None


def last_stmt(body):
    rb = real_body(body)
    return rb[-1] if rb else None


_SEQ_WRAPPERS = ('list', 'tuple', 'sorted', 'iter', 'reversed')


def iterated_mapping(it: ast.AST) -> tuple[ast.AST, str] | None:
    """(mapping expression, 'keys' | 'values' | 'items') when the iterable `it` is a mapping's own content:
    `m`, `m.keys()`, `m.values()`, `m.items()`, each possibly inside list()/tuple()/sorted()/iter()/reversed().
    A call result counts as a mapping only when one of the three methods is applied to it (`f(x).items()`)."""
    while isinstance(it, ast.Call) and isinstance(it.func, ast.Name) and it.func.id in _SEQ_WRAPPERS \
            and len(it.args) == 1 and all(k.arg in ('key', 'reverse') for k in it.keywords):
        it = it.args[0]
    if isinstance(it, ast.Call) and isinstance(it.func, ast.Attribute) and not it.args and not it.keywords \
            and it.func.attr in ('keys', 'values', 'items'):
        m = it.func.value
        if isinstance(m, (ast.Name, ast.Attribute, ast.Subscript, ast.Call)):
            return m, it.func.attr
        return None
    if isinstance(it, (ast.Name, ast.Attribute, ast.Subscript)):
        return it, 'keys'
    return None


def map_iteration(target: ast.AST, it: ast.AST) -> tuple[str, str | None, str | None] | None:
    """What a `for target in it` (statement or comprehension clause) walks when `it` is a mapping's own
    content (see iterated_mapping): (normalised text of the mapping, key variable or None, value variable or
    None).  None when `it` is anything else (a literal, an arbitrary call …)."""
    im = iterated_mapping(it)
    if im is None:
        return None
    m, how = norm(im[0]), im[1]
    if how == 'items':
        if isinstance(target, (ast.Tuple, ast.List)) and len(target.elts) == 2:
            k, v = target.elts
            return m, (k.id if isinstance(k, ast.Name) else None), (v.id if isinstance(v, ast.Name) else None)
        return m, None, None
    if not isinstance(target, ast.Name):
        return m, None, None
    return (m, target.id, None) if how == 'keys' else (m, None, target.id)


def enclosing_iterations(n: ast.AST, stop: ast.AST | None = None):
    """(owner, target, iter) of every `for` statement whose *body* contains n and of every comprehension clause
    that governs n, innermost first; stops at `stop` / the enclosing function."""
    child = n
    for a in ancestors(n):
        if a is stop or isinstance(a, (ast.FunctionDef, ast.AsyncFunctionDef, ast.Lambda)):
            break
        if isinstance(a, (ast.For, ast.AsyncFor)) and any(child is s for s in a.body):
            yield a, a.target, a.iter
        elif isinstance(a, (ast.ListComp, ast.SetComp, ast.GeneratorExp, ast.DictComp)):
            for g in reversed(a.generators):
                if child is not g:
                    yield a, g.target, g.iter
        child = a


# ----------------------------------------------------------------------------------------------------
# generator-based context managers spliced into the `with` statements that run under them
# ----------------------------------------------------------------------------------------------------

def set_parents(root: ast.AST) -> ast.AST:
    """(re)hang the `_parent` links of a sub-tree that was built or rearranged by a rule; the root keeps its own"""
    for n in ast.walk(root):
        for ch in ast.iter_child_nodes(n):
            if not isinstance(ch, (ast.expr_context, ast.operator, ast.unaryop, ast.cmpop, ast.boolop)):
                ch._parent = n  # type: ignore[attr-defined]
    return root


def is_generator_manager(fn: ast.AST) -> bool:
    """a function decorated with `contextlib.contextmanager` (and nothing else)"""
    if not isinstance(fn, ast.FunctionDef) or len(fn.decorator_list) != 1:
        return False
    d = fn.decorator_list[0]
    return (dotted_name(d) or '').split('.')[-1] == 'contextmanager'


def _manager_yield(mgr: ast.FunctionDef):
    """the single statement-level `yield` of a generator-based context manager, or None when the manager has a shape
    whose splice would not be faithful: several yields, `yield from`, a yield inside a loop or an expression, a
    `return`, nested definitions, `global` / `nonlocal`"""
    ys = []
    for x in ast.walk(mgr):
        if x is not mgr and isinstance(x, (ast.FunctionDef, ast.AsyncFunctionDef, ast.ClassDef, ast.Lambda)):
            return None
        if isinstance(x, (ast.YieldFrom, ast.Await, ast.Return, ast.Global, ast.Nonlocal)):
            return None
        if isinstance(x, ast.Yield):
            ys.append(x)
    if len(ys) != 1:
        return None
    y = ys[0]
    st = getattr(y, '_parent', None)
    if not (isinstance(st, ast.Expr) or (isinstance(st, ast.Assign) and st.value is y)):
        return None
    for a in ancestors(st):
        if a is mgr:
            break
        if isinstance(a, (ast.For, ast.AsyncFor, ast.While)):
            return None
    return st


def _bind_manager_arguments(mgr: ast.FunctionDef, call: ast.Call, receiver: ast.expr | None = None):
    """parameter -> argument expression of `mgr(...)` as written at the call (defaults filled in; `receiver` = the
    object a method is called on, bound to its first parameter); None when the binding cannot be read off (star
    arguments, unknown keywords, missing arguments)"""
    a = mgr.args
    if any(isinstance(x, ast.Starred) for x in call.args) or a.vararg is not None:
        return None
    pos = [p.arg for p in a.posonlyargs + a.args]
    given = ([receiver] if receiver is not None else []) + list(call.args)
    if len(given) > len(pos):
        return None
    bound = {p: v for p, v in zip(pos, given)}
    star = [k.value for k in call.keywords if k.arg is None]
    for k in call.keywords:
        if k.arg is None:
            continue
        if k.arg in bound or k.arg not in [p.arg for p in a.args + a.kwonlyargs]:
            return None
        bound[k.arg] = k.value
    if star:
        # `**name` handed on whole into the manager's own `**name`
        if a.kwarg is None or len(star) != 1 or not isinstance(star[0], ast.Name):
            return None
        bound[a.kwarg.arg] = star[0]
    elif a.kwarg is not None:
        bound[a.kwarg.arg] = ast.Dict(keys=[], values=[])
    defaults = dict(zip(reversed([p.arg for p in a.posonlyargs + a.args]), reversed(a.defaults)))
    defaults.update({p.arg: d for p, d in zip(a.kwonlyargs, a.kw_defaults) if d is not None})
    for p in [x.arg for x in a.posonlyargs + a.args + a.kwonlyargs]:
        if p not in bound:
            if p not in defaults or star:
                return None
            bound[p] = defaults[p]
    return bound


class _ManagerNames(ast.NodeTransformer):
    def __init__(self, subst: dict, rename: dict):
        self.subst, self.rename = subst, rename

    def visit_Name(self, n: ast.Name):
        if n.id in self.subst and isinstance(n.ctx, ast.Load):
            import copy
            return ast.copy_location(copy.deepcopy(self.subst[n.id]), n)
        if n.id in self.rename:
            return ast.copy_location(ast.Name(self.rename[n.id], n.ctx), n)
        return n

    def visit_ExceptHandler(self, h: ast.ExceptHandler):
        if h.name in self.rename:
            h.name = self.rename[h.name]
        return self.generic_visit(h)


def splice_generator_managers(fn: ast.AST, resolve, max_rounds: int = 4):
    """`with cm(args) [as v]: BODY` where `cm` is a generator-based context manager of the program - `resolve(call)`
    returns (its FunctionDef, a tag, the receiver expression of a method call | None) or None - is what the interpreter runs as the manager's body with BODY in the
    place of its `yield`: an exception of BODY is thrown into the generator at the yield, so the manager's `try` /
    `except` / `finally` around the yield protect BODY exactly as if it stood there, and what the manager does before
    the yield (`__enter__`) and after it (`__exit__`) runs in the caller's flow.  Returns (a copy of `fn` with every such
    `with` replaced by that splice, the tags of the managers spliced); (`fn` itself, []) when there is none.
    The manager's parameters are replaced by the arguments when these are plain names neither side rebinds (so that
    `builder.ctx` of the manager reads `self.ctx` in a method that passes `self`), otherwise bound by an assignment
    first; its locals get the manager's name as a suffix.  Every statement taken from the manager carries
    `_from_manager = tag`.  Managers of a shape for which this would not be faithful (see `_manager_yield`) are left
    alone."""
    import copy
    done = []
    out = fn
    for _ in range(max_rounds):
        hit = None
        for w in walk_no_nested(out):
            if not isinstance(w, ast.With) or not w.items:
                continue
            it = w.items[0]
            if not isinstance(it.context_expr, ast.Call):
                continue
            r = resolve(it.context_expr)
            if r is None:
                continue
            mgr, tag, receiver = r
            if not is_generator_manager(mgr) or _manager_yield(mgr) is None:
                continue
            bound = _bind_manager_arguments(mgr, it.context_expr, receiver)
            if bound is None:
                continue
            hit = (w, it, mgr, tag, bound)
            break
        if hit is None:
            break
        if out is fn:
            # work on a copy; find the same `with` again in it
            idx = [i for i, x in enumerate(walk_no_nested(fn)) if x is hit[0]][0]
            out = copy.deepcopy(fn)
            w = [x for x in walk_no_nested(out)][idx]
            it = w.items[0]
            hit = (w, it) + hit[2:]
        w, it, mgr, tag, bound = hit
        body_stores = {x.id for s in w.body for x in ast.walk(s) if isinstance(x, ast.Name)
                       and isinstance(x.ctx, (ast.Store, ast.Del))}
        mgr_stores = {x.id for x in ast.walk(mgr) if isinstance(x, ast.Name) and isinstance(x.ctx, (ast.Store, ast.Del))}
        mgr_stores |= {h.name for h in ast.walk(mgr) if isinstance(h, ast.ExceptHandler) and h.name}
        subst, pre, rename = {}, [], {}
        for p, v in bound.items():
            plain = isinstance(v, ast.Constant) or (isinstance(v, ast.Name) and v.id not in body_stores)
            if plain and p not in mgr_stores:
                subst[p] = v
            else:
                rename[p] = f'{p}__{mgr.name}'
                asg = ast.Assign(targets=[ast.Name(rename[p], ast.Store())], value=copy.deepcopy(v))
                pre.append(ast.copy_location(asg, w))
        for nm in mgr_stores:
            rename.setdefault(nm, f'{nm}__{mgr.name}')
        m2 = copy.deepcopy(mgr)
        set_parents(m2)
        yst = _manager_yield(m2)
        # the yield becomes: [v = <value>]; BODY [; rest of the `with` items around it]
        m2 = _ManagerNames(subst, rename).visit(m2)
        yv = yst.value.value if isinstance(yst.value, ast.Yield) else None
        ast.fix_missing_locations(m2)
        for s in ast.walk(m2):
            if isinstance(s, (ast.stmt, ast.ExceptHandler)):
                s._from_manager = tag  # type: ignore[attr-defined]
        repl = []
        if it.optional_vars is not None:
            val = yv if yv is not None else ast.Constant(None)
            asg = ast.copy_location(ast.Assign(targets=[it.optional_vars], value=val), yst)
            asg._from_manager = tag  # type: ignore[attr-defined]
            repl.append(asg)
        elif yv is not None and not isinstance(yv, (ast.Name, ast.Constant)):
            ev = ast.copy_location(ast.Expr(value=yv), yst)
            ev._from_manager = tag  # type: ignore[attr-defined]
            repl.append(ev)
        if isinstance(yst, ast.Assign):
            sent = ast.copy_location(ast.Assign(targets=yst.targets, value=ast.Constant(None)), yst)
            sent._from_manager = tag  # type: ignore[attr-defined]
        else:
            sent = None
        inner = w.body if len(w.items) == 1 else [ast.copy_location(
            ast.With(items=w.items[1:], body=w.body, type_comment=None), w)]
        repl += inner
        if sent is not None:
            repl.append(sent)
        _replace_stmt(m2, yst, repl)
        mbody = list(m2.body)
        if mbody and isinstance(mbody[0], ast.Expr) and isinstance(mbody[0].value, ast.Constant) \
                and isinstance(mbody[0].value.value, str):
            mbody = mbody[1:]
        _replace_stmt(out, w, pre + mbody)
        _propagate_manager_aliases(out, f'__{mgr.name}')
        ast.fix_missing_locations(out)
        set_parents(out)
        done.append(tag)
    return out, done


def _replace_stmt(root: ast.AST, old: ast.stmt, new: list) -> None:
    for n in ast.walk(root):
        for f in ('body', 'orelse', 'finalbody'):
            b = getattr(n, f, None)
            if isinstance(b, list):
                for i, s in enumerate(b):
                    if s is old:
                        b[i:i + 1] = new
                        return
    raise ValueError('statement to replace not found')


# ----------------------------------------------------------------------------------------------------
# class-based context managers spliced into the `with` statements that run under them
# ----------------------------------------------------------------------------------------------------

class _ManagerFields(ast.NodeTransformer):
    """`self.f` of a manager object -> the argument its constructor was given for f, or a local of the caller"""

    def __init__(self, me: str, subst: dict, local: dict, rename: dict):
        self.me, self.subst, self.local, self.rename = me, subst, local, rename

    def visit_Attribute(self, n: ast.Attribute):
        if isinstance(n.value, ast.Name) and n.value.id == self.me:
            if n.attr in self.subst and isinstance(n.ctx, ast.Load):
                import copy
                return ast.copy_location(copy.deepcopy(self.subst[n.attr]), n)
            if n.attr in self.local:
                return ast.copy_location(ast.Name(self.local[n.attr], n.ctx), n)
        return self.generic_visit(n)

    def visit_Name(self, n: ast.Name):
        if n.id in self.rename:
            return ast.copy_location(ast.Name(self.rename[n.id], n.ctx), n)
        return n

    def visit_ExceptHandler(self, h: ast.ExceptHandler):
        if h.name in self.rename:
            h.name = self.rename[h.name]
        return self.generic_visit(h)


def _plain_body(fn: ast.FunctionDef):
    """body without the docstring; None when the function has a shape that cannot be spliced (nested definitions,
    generators, global / nonlocal)"""
    for x in ast.walk(fn):
        if x is not fn and isinstance(x, (ast.FunctionDef, ast.AsyncFunctionDef, ast.ClassDef, ast.Lambda)):
            return None
        if isinstance(x, (ast.Yield, ast.YieldFrom, ast.Await, ast.Global, ast.Nonlocal)):
            return None
    body = list(fn.body)
    if body and isinstance(body[0], ast.Expr) and isinstance(body[0].value, ast.Constant) \
            and isinstance(body[0].value.value, str):
        body = body[1:]
    return body


def _trailing_return(body: list):
    """(body without a trailing top-level `return`, its value | None, ok): ok is False when a `return` stands anywhere
    else"""
    val = None
    if body and isinstance(body[-1], ast.Return):
        val, body = body[-1].value, body[:-1]
        if val is None:
            val = ast.Constant(None)
    for s in body:
        for x in ast.walk(s):
            if isinstance(x, ast.Return):
                return body, val, False
    return body, val, True


def splice_class_managers(fn: ast.AST, resolve, max_rounds: int = 4):
    """`with C(args) [as v]: BODY` where C is a class of the program with `__enter__` / `__exit__` - `resolve(call)`
    returns (constructor FunctionDef | None, field names in constructor order when there is no written constructor,
    `__enter__` FunctionDef, `__exit__` FunctionDef, tag) or None - is what the interpreter runs as

        <fields of the manager object bound to the constructor arguments>
        <body of __enter__>; v = <what it returns>
        try: BODY
        finally: <body of __exit__>

    (`__exit__` is not run when `__enter__` raised; an `__exit__` that ends in `return True` swallows whatever BODY
    raised: `try: BODY / except BaseException: pass / finally: <body of __exit__>`).  The constructor must only
    store its parameters in fields (`self.f = p`) or be generated from the annotated fields (dataclass); `__exit__` must
    not look at the exception it is given; `return` only as the last statement of `__enter__` / `__exit__`.  Fields
    become the constructor arguments when these are plain names neither side rebinds, else locals named
    `<field>__<class>`.  Every statement taken from the manager carries `_from_manager = tag`.  Returns (copy of `fn`
    with the splices, tags); (`fn`, []) when there is none."""
    import copy
    done = []
    out = fn
    for _ in range(max_rounds):
        hit = None
        for w in walk_no_nested(out):
            if not isinstance(w, ast.With) or not w.items or not isinstance(w.items[0].context_expr, ast.Call):
                continue
            r = resolve(w.items[0].context_expr)
            if r is None:
                continue
            plan = _class_manager_plan(w, *r[:4])
            if plan is None:
                continue
            hit = (w, plan, r[4])
            break
        if hit is None:
            break
        if out is fn:
            idx = [i for i, x in enumerate(walk_no_nested(fn)) if x is hit[0]][0]
            out = copy.deepcopy(fn)
            w = [x for x in walk_no_nested(out)][idx]
            r = resolve(hit[0].items[0].context_expr)
            hit = (w, _class_manager_plan(w, *r[:4]), r[4])
        w, (pre, enter, enter_val, exit_body, swallow), tag = hit
        exit_ = resolve(w.items[0].context_expr)[3]
        it = w.items[0]
        stmts = list(pre) + list(enter)
        if it.optional_vars is not None:
            stmts.append(ast.copy_location(ast.Assign(targets=[it.optional_vars], value=enter_val or ast.Constant(None)), w))
        inner = w.body if len(w.items) == 1 else [ast.copy_location(
            ast.With(items=w.items[1:], body=w.body, type_comment=None), w)]
        if swallow:
            # whatever BODY raised is gone once `__exit__` has run (which it does on every way out of BODY)
            h = ast.copy_location(ast.ExceptHandler(type=ast.Name('BaseException', ast.Load()), name=None,
                                                    body=[ast.copy_location(ast.Pass(), exit_)]), exit_)
            tr = ast.Try(body=inner, handlers=[h], orelse=[], finalbody=exit_body or [ast.Pass()])
        else:
            tr = ast.Try(body=inner, handlers=[], orelse=[], finalbody=exit_body or [ast.Pass()])
        ast.copy_location(tr, w)
        for s in stmts + exit_body + ([tr.handlers[0]] if swallow else []):
            for x in ast.walk(s):
                if isinstance(x, (ast.stmt, ast.ExceptHandler)):
                    x._from_manager = tag  # type: ignore[attr-defined]
        _replace_stmt(out, w, stmts + [tr])
        _propagate_manager_aliases(out, '__' + (dotted_name(it.context_expr.func) or 'manager').split('.')[-1])
        ast.fix_missing_locations(out)
        set_parents(out)
        done.append(tag)
    return out, done


def _class_manager_plan(w: ast.With, init, field_order, enter, exit_):
    """(statements binding the fields, body of __enter__, value it returns, body of __exit__, swallows) with the
    manager object's fields resolved - None when the manager cannot be spliced faithfully"""
    import copy
    call = w.items[0].context_expr
    if not isinstance(enter, ast.FunctionDef) or not isinstance(exit_, ast.FunctionDef) \
            or enter.decorator_list or exit_.decorator_list:
        return None
    cname = dotted_name(call.func) or 'manager'
    cname = cname.split('.')[-1]
    # field -> constructor argument
    if init is not None:
        if init.decorator_list or not init.args.args:
            return None
        ibody = _plain_body(init)
        if ibody is None:
            return None
        bound = _bind_manager_arguments(init, call, ast.Name('<self>', ast.Load()))
        if bound is None:
            return None
        me0 = init.args.args[0].arg
        fields = {}
        for s in ibody:
            if not (isinstance(s, (ast.Assign, ast.AnnAssign)) and (len(s.targets) == 1 if isinstance(s, ast.Assign) else True)):
                return None
            t = s.targets[0] if isinstance(s, ast.Assign) else s.target
            v = s.value
            if not (isinstance(t, ast.Attribute) and isinstance(t.value, ast.Name) and t.value.id == me0
                    and isinstance(v, ast.Name) and v.id in bound and v.id != me0) or t.attr in fields:
                return None
            fields[t.attr] = bound[v.id]
    else:
        if any(isinstance(x, ast.Starred) for x in call.args) or any(k.arg is None for k in call.keywords) \
                or len(call.args) > len(field_order):
            return None
        fields = dict(zip(field_order, call.args))
        for k in call.keywords:
            if k.arg in fields or k.arg not in field_order:
                return None
            fields[k.arg] = k.value
    body_stores = {x.id for s in w.body for x in ast.walk(s) if isinstance(x, ast.Name)
                   and isinstance(x.ctx, (ast.Store, ast.Del))}
    parts = []
    stored_fields = set()
    xa = exit_.args
    if xa.kwarg or xa.kwonlyargs or not ((len(xa.args) == 4 and xa.vararg is None) or (len(xa.args) == 1 and xa.vararg)):
        return None
    ea = enter.args
    if len(ea.args) != 1 or ea.vararg or ea.kwarg or ea.kwonlyargs:
        return None
    # __exit__ must not look at the exception it is given
    ex_names = {p.arg for p in xa.args[1:]} | ({xa.vararg.arg} if xa.vararg else set())
    if any(isinstance(x, ast.Name) and x.id in ex_names for s in exit_.body for x in ast.walk(s)):
        return None
    for f in (enter, exit_):
        b = _plain_body(f)
        if b is None:
            return None
        me = f.args.args[0].arg
        for x in ast.walk(f):
            if isinstance(x, ast.Name) and x.id == me:
                par = getattr(x, '_parent', None)
                if not (isinstance(par, ast.Attribute) and par.value is x):
                    # the object itself escapes: only `return self` of an `__enter__` whose result nobody binds
                    if not (f is enter and isinstance(par, ast.Return) and w.items[0].optional_vars is None):
                        return None
            if isinstance(x, ast.Attribute) and isinstance(x.value, ast.Name) and x.value.id == me \
                    and isinstance(x.ctx, (ast.Store, ast.Del)):
                stored_fields.add(x.attr)
        parts.append((f, me, b))
    subst, local, pre = {}, {}, []
    for fld, v in fields.items():
        plain = isinstance(v, ast.Constant) or (isinstance(v, ast.Name) and v.id not in body_stores)
        if plain and fld not in stored_fields:
            subst[fld] = v
        else:
            local[fld] = f'{fld}__{cname}'
            pre.append(ast.copy_location(ast.Assign(targets=[ast.Name(local[fld], ast.Store())], value=copy.deepcopy(v)), w))
    for fld in stored_fields:
        local.setdefault(fld, f'{fld}__{cname}')
    out = []
    for f, me, b in parts:
        names = {x.id for x in ast.walk(f) if isinstance(x, ast.Name) and isinstance(x.ctx, (ast.Store, ast.Del))}
        names |= {h.name for h in ast.walk(f) if isinstance(h, ast.ExceptHandler) and h.name}
        rename = {nm: f'{nm}__{cname}' for nm in names}
        b2 = [_ManagerFields(me, subst, local, rename).visit(copy.deepcopy(s)) for s in b]
        b2, val, ok = _trailing_return(b2)
        if not ok:
            return None
        out.append((b2, val))
    (enter_body, enter_val), (exit_body, exit_val) = out
    if isinstance(enter_val, ast.Name) and enter_val.id == parts[0][1]:
        enter_val = None   # `return self`, bound by nobody (checked above)
    if exit_val is None or (isinstance(exit_val, ast.Constant) and not exit_val.value):
        swallow = False
    elif isinstance(exit_val, ast.Constant) and exit_val.value is True:
        swallow = True
    else:
        return None
    return pre, enter_body, enter_val, exit_body, swallow


def _propagate_manager_aliases(fn: ast.AST, suffix: str) -> None:
    """`x__<manager> = y` - a local the splice of a manager introduced, bound once, to a plain name that the function
    never rebinds (`builder = self.builder` of a manager object whose field is the caller's `self`): read y for it"""
    stores = {}
    for x in walk_no_nested(fn):
        if isinstance(x, ast.Name) and isinstance(x.ctx, (ast.Store, ast.Del)):
            stores[x.id] = stores.get(x.id, 0) + 1
    params = set()
    if isinstance(fn, (ast.FunctionDef, ast.AsyncFunctionDef)):
        a = fn.args
        params = {p.arg for p in a.posonlyargs + a.args + a.kwonlyargs}
    for st in list(walk_no_nested(fn)):
        if isinstance(st, ast.Assign) and len(st.targets) == 1 and isinstance(st.targets[0], ast.Name) \
                and st.targets[0].id.endswith(suffix) and stores.get(st.targets[0].id) == 1 \
                and isinstance(st.value, ast.Name) and stores.get(st.value.id, 0) == 0 and st.value.id in params:
            a, b = st.targets[0].id, st.value.id
            for x in walk_no_nested(fn):
                if isinstance(x, ast.Name) and x.id == a and isinstance(x.ctx, ast.Load):
                    x.id = b
            _replace_stmt(fn, st, [])


# ---- generator functions consumed by one `for` loop ------------------------------------------------------------------

def _own_jumps(body: list, kinds) -> list:
    """`break` / `continue` statements in a loop body that belong to that loop (not to a loop nested in the body)"""
    out = []

    def go(stmts):
        for s in stmts:
            if isinstance(s, kinds):
                out.append(s)
            if isinstance(s, (ast.For, ast.AsyncFor, ast.While)):
                go(s.orelse)        # the `else` of an inner loop still belongs to the outer one
                continue
            if isinstance(s, (ast.FunctionDef, ast.AsyncFunctionDef, ast.ClassDef)):
                continue
            for f in ('body', 'orelse', 'finalbody'):
                go(getattr(s, f, []) or [])
            for h in getattr(s, 'handlers', []) or []:
                go(h.body)
            for c in getattr(s, 'cases', []) or []:
                go(c.body)
    go(body)
    return out


def _generator_plan(gen: ast.FunctionDef):
    """A generator function that can stand in the place of the `for` loop that consumes it: exactly one `yield <value>`,
    written as a statement, not inside `try` / `with` (closing the generator early runs nothing), no `return`, no
    `yield from`, no nested functions / lambdas / comprehensions that bind names, no global / nonlocal, plain parameters.
    -> (the yield statement, its innermost enclosing loop | None, the yield is the last thing its loop body does,
        that loop is the last top-level statement of the generator) or None"""
    if not isinstance(gen, ast.FunctionDef):
        return None
    a = gen.args
    if a.vararg or a.kwarg or a.posonlyargs:
        return None
    ys = [n for n in walk_no_nested(gen) if isinstance(n, (ast.Yield, ast.YieldFrom, ast.Await))]
    if len(ys) != 1 or not isinstance(ys[0], ast.Yield) or ys[0].value is None:
        return None
    for n in ast.walk(gen):
        if n is not gen and isinstance(n, (ast.FunctionDef, ast.AsyncFunctionDef, ast.ClassDef, ast.Lambda, ast.Return, ast.Global,
                                           ast.Nonlocal, ast.NamedExpr)):
            return None
    y = ys[0]
    st = getattr(y, '_parent', None)
    if not isinstance(st, ast.Expr):
        return None
    loop, tail = None, True
    node = st
    while True:
        p = getattr(node, '_parent', None)
        if p is None:
            return None
        if p is gen:
            break
        if isinstance(p, (ast.Try, ast.With, ast.AsyncWith, ast.AsyncFor, ast.Match)) or isinstance(p, ast.match_case):
            return None
        if isinstance(p, (ast.For, ast.While)):
            if not any(node is s for s in p.body):
                return None          # a yield in a loop's `else`
            if loop is None:
                loop = p
                if p.body[-1] is not node:
                    tail = False
        elif isinstance(p, ast.If):
            lst = p.body if any(node is s for s in p.body) else p.orelse
            if loop is None and lst[-1] is not node:
                tail = False
        else:
            return None
        node = p
    last = loop is not None and real_body(gen.body)[-1] is loop and not loop.orelse
    return st, loop, (tail if loop is not None else False), last


def splice_generator_loops(fn: ast.AST, resolve, max_rounds: int = 4) -> list:
    """`for T in g(args): BODY` where `g` is a generator function of the program - `resolve(call)` returns (its
    FunctionDef, a tag, the receiver expression of a method call | None) or None, and vouches that the generator's global
    names mean the same where `fn` is written - is what the interpreter runs as the generator's body with
    `T = <value>; BODY` in the place of its one `yield <value>`: the generator is suspended exactly while BODY runs.
    `continue` in BODY resumes the generator, so it is spliced only when the yield is the last thing the generator's loop
    body does (then it is that loop's `continue`); `break` in BODY abandons the generator, so it is spliced only when that
    loop is the generator's last statement; without an enclosing loop in the generator BODY must have neither.
    `fn` is changed *in place* (its `_parent` links are rehung); -> the tags of the generators spliced.
    The generator's parameters are replaced by the arguments when these are plain names / attribute chains / constants
    that neither side rebinds, otherwise bound by an assignment first; a local of the generator that `fn` also uses is
    renamed `<name>__<generator>`.  `(a, b) = (x, y)` from a tuple target and a tuple yield becomes `a = x; b = y` when no
    target is read by a later element.  Statements taken from the generator carry `_from_generator = tag`."""
    import copy
    done = []
    for _ in range(max_rounds):
        hit = None
        for lp in walk_no_nested(fn):
            if not isinstance(lp, ast.For) or lp.orelse or not isinstance(lp.iter, ast.Call):
                continue
            r = resolve(lp.iter)
            if r is None:
                continue
            gen, tag, receiver = r
            plan = _generator_plan(gen)
            if plan is None:
                continue
            _, gloop, tail, last = plan
            if _own_jumps(lp.body, ast.Continue) and not (gloop is not None and tail):
                continue
            if _own_jumps(lp.body, ast.Break) and not (gloop is not None and last and not any(
                    isinstance(p_, (ast.For, ast.While)) for p_ in _ancestors_upto(gloop, gen))):
                continue
            hit = (lp, gen, tag, receiver)
            break
        if hit is None:
            break
        lp, gen, tag, receiver = hit
        call = lp.iter
        # bind the parameters
        params = [p.arg for p in gen.args.args]
        binding = {}
        rest = list(params)
        if receiver is not None and params:
            binding[params[0]] = receiver
            rest = params[1:]
        if any(isinstance(a_, ast.Starred) for a_ in call.args) or any(k.arg is None for k in call.keywords) \
                or len(call.args) > len(rest):
            break
        for p_, a_ in zip(rest, call.args):
            binding[p_] = a_
        for k in call.keywords:
            if k.arg in binding or k.arg not in params + [x.arg for x in gen.args.kwonlyargs]:
                binding = None
                break
            binding[k.arg] = k.value
        if binding is None:
            break
        dflt = dict(zip(params[len(params) - len(gen.args.defaults):], gen.args.defaults))
        dflt.update({x.arg: d for x, d in zip(gen.args.kwonlyargs, gen.args.kw_defaults) if d is not None})
        allp = params + [x.arg for x in gen.args.kwonlyargs]
        for p_ in allp:
            if p_ not in binding:
                if p_ not in dflt:
                    binding = None
                    break
                binding[p_] = dflt[p_]
        if binding is None:
            break
        stores = lambda root: {x.id for x in ast.walk(root) if isinstance(x, ast.Name) and isinstance(x.ctx, (ast.Store, ast.Del))}
        gen_stores = set().union(*[stores(s) for s in gen.body]) if gen.body else set()
        fn_stores = stores(fn)
        fn_names = {x.id for x in ast.walk(fn) if isinstance(x, ast.Name)} | {a_.arg for a_ in ast.walk(fn) if isinstance(a_, ast.arg)}
        suffix = '__' + tag.split('.')[-1]
        rename = {n: n + suffix for n in gen_stores - set(allp) if n in fn_names}
        subst, pre = {}, []
        for p_ in allp:
            v = binding[p_]
            root = v
            while isinstance(root, ast.Attribute):
                root = root.value
            stable = isinstance(v, ast.Constant) or (isinstance(root, ast.Name) and root.id not in fn_stores
                                                      and root.id not in gen_stores and root.id not in rename)
            if stable and p_ not in gen_stores:
                subst[p_] = v
            else:
                nm = p_ + suffix if (p_ in fn_names or p_ in rename.values()) else p_
                rename[p_] = nm
                asg = ast.Assign(targets=[ast.Name(id=nm, ctx=ast.Store())], value=copy.deepcopy(v))
                pre.append(ast.copy_location(asg, lp))
        body = [copy.deepcopy(s) for s in real_body(gen.body)]
        holder = ast.Module(body=body, type_ignores=[])
        set_parents(holder)
        ystmt = None
        for x in list(ast.walk(holder)):
            if isinstance(x, ast.Expr) and isinstance(x.value, ast.Yield):
                ystmt = x
        for x in list(ast.walk(holder)):
            if isinstance(x, ast.Name):
                if x.id in rename:
                    x.id = rename[x.id]
                elif x.id in subst and isinstance(x.ctx, ast.Load):
                    new = copy.deepcopy(subst[x.id])
                    par = x._parent
                    for f_, val in ast.iter_fields(par):
                        if val is x:
                            setattr(par, f_, new)
                        elif isinstance(val, list):
                            for i, e_ in enumerate(val):
                                if e_ is x:
                                    val[i] = new
        for s in ast.walk(holder):
            if isinstance(s, ast.stmt):
                s._from_generator = tag
        val = ystmt.value.value
        tgt = lp.target
        if isinstance(tgt, ast.Tuple) and isinstance(val, ast.Tuple) and len(tgt.elts) == len(val.elts) \
                and all(isinstance(t_, ast.Name) for t_ in tgt.elts) and not any(isinstance(e_, ast.Starred) for e_ in val.elts) \
                and not any(t_.id in {n_.id for e_ in val.elts[i + 1:] for n_ in ast.walk(e_) if isinstance(n_, ast.Name)}
                            for i, t_ in enumerate(tgt.elts)):
            binds = [ast.copy_location(ast.Assign(targets=[t_], value=e_), ystmt) for t_, e_ in zip(tgt.elts, val.elts)]
        else:
            binds = [ast.copy_location(ast.Assign(targets=[tgt], value=val), ystmt)]
        for b in binds:
            b._from_generator = tag
        ypar = ystmt._parent
        for f_ in ('body', 'orelse'):
            lst = getattr(ypar, f_, None)
            if isinstance(lst, list) and any(s is ystmt for s in lst):
                i = next(i for i, s in enumerate(lst) if s is ystmt)
                lst[i:i + 1] = binds + lp.body
        _replace_stmt(fn, lp, pre + holder.body)
        ast.fix_missing_locations(fn)
        set_parents(fn)
        done.append(tag)
    return done


def _ancestors_upto(n: ast.AST, stop: ast.AST):
    p = getattr(n, '_parent', None)
    while p is not None and p is not stop:
        yield p
        p = getattr(p, '_parent', None)


def accumulator_as_generator(fn: ast.FunctionDef):
    """`def f(..): out = []; ...; out.append(E); ...; return out` - a function that returns the list of the values it
    appends, the list being used for nothing else - as the generator `def f(..): ...; yield E; ...` (a copy; None when `fn`
    is not of that shape).  Consumed by `for x in f(..)`, the two produce the same values in the same order; they differ
    in *when* the statements of f run relative to the loop body (all before it / interleaved), which is the same thing
    when f only computes (it stores to no attribute or subscript, deletes nothing, and declares nothing global)."""
    import copy
    if not isinstance(fn, ast.FunctionDef) or any(isinstance(n, (ast.Yield, ast.YieldFrom, ast.Await)) for n in walk_no_nested(fn)):
        return None
    body = real_body(fn.body)
    rets = [n for n in walk_no_nested(fn) if isinstance(n, ast.Return)]
    if len(rets) != 1 or not body or body[-1] is not rets[0] or not isinstance(rets[0].value, ast.Name):
        return None
    out = rets[0].value.id
    for n in ast.walk(fn):
        if isinstance(n, (ast.Global, ast.Nonlocal, ast.Delete)):
            return None
        if isinstance(n, (ast.Attribute, ast.Subscript)) and isinstance(n.ctx, (ast.Store, ast.Del)):
            return None
    inits = [s for s in body if isinstance(s, (ast.Assign, ast.AnnAssign)) and s.value is not None
             and [t.id for t in (s.targets if isinstance(s, ast.Assign) else [s.target]) if isinstance(t, ast.Name)] == [out]]
    if len(inits) != 1 or not ((isinstance(inits[0].value, ast.List) and not inits[0].value.elts) or
                               (isinstance(inits[0].value, ast.Call) and call_name(inits[0].value) == 'list'
                                and not inits[0].value.args and not inits[0].value.keywords)):
        return None
    uses = [n for n in ast.walk(fn) if isinstance(n, ast.Name) and n.id == out]
    apps = [n for n in ast.walk(fn) if isinstance(n, ast.Expr) and isinstance(n.value, ast.Call)
            and isinstance(n.value.func, ast.Attribute) and n.value.func.attr == 'append'
            and isinstance(n.value.func.value, ast.Name) and n.value.func.value.id == out
            and len(n.value.args) == 1 and not n.value.keywords and not isinstance(n.value.args[0], ast.Starred)]
    if len(apps) != 1 or len(uses) != 3:        # the initialisation, the append, the return
        return None
    idx = {id(n): i for i, n in enumerate(ast.walk(fn))}
    new = copy.deepcopy(fn)
    nodes = list(ast.walk(new))
    set_parents(new)
    n_init, n_app, n_ret = nodes[idx[id(inits[0])]], nodes[idx[id(apps[0])]], nodes[idx[id(rets[0])]]
    n_app.value = ast.copy_location(ast.Yield(value=n_app.value.args[0]), n_app.value)
    new.body = [s for s in new.body if s is not n_init and s is not n_ret]
    if not new.body:
        return None
    ast.fix_missing_locations(new)
    set_parents(new)
    return new


# ---- value objects opened in place ------------------------------------------------------------------------------------------

def _value_class_layout(cls: ast.ClassDef):
    """(fields [(name, default | None)], members {name: (kind, params, defaults, expr)}) of a class whose instances are
    immutable values: a `@dataclass` / NamedTuple with annotated fields only, no initialiser hooks, no attribute
    protocol, no method that stores into the instance; a member is listed when it is a read-only `@property` or an
    undecorated method whose body is (a docstring and) one `return <expression>`.  None when the class is not of that
    kind."""
    def deco(d):
        d = d.func if isinstance(d, ast.Call) else d
        return d.attr if isinstance(d, ast.Attribute) else getattr(d, 'id', None)
    decos = [deco(d) for d in cls.decorator_list]
    bases = [b.attr if isinstance(b, ast.Attribute) else getattr(b, 'id', None) for b in cls.bases]
    if cls.keywords or not ((decos == ['dataclass'] and not bases) or (not decos and bases == ['NamedTuple'])):
        return None
    for d in cls.decorator_list:
        if isinstance(d, ast.Call) and (d.args or any(k.arg not in ('frozen', 'slots', 'eq', 'order', 'repr', 'kw_only')
                                                      or (k.arg == 'kw_only' and const_value(k.value) is not False)
                                                      for k in d.keywords)):
            return None
    fields, members = [], {}
    for s in real_body(cls.body):
        if isinstance(s, ast.Pass):
            continue
        if isinstance(s, ast.AnnAssign) and isinstance(s.target, ast.Name):
            if 'ClassVar' in ast.unparse(s.annotation) or 'InitVar' in ast.unparse(s.annotation):
                return None
            if s.value is not None and not (isinstance(s.value, ast.Constant) or (
                    isinstance(s.value, ast.UnaryOp) and isinstance(s.value.operand, ast.Constant))):
                return None
            fields.append((s.target.id, s.value))
        elif isinstance(s, ast.FunctionDef):
            if s.name in ('__init__', '__new__', '__post_init__', '__getattr__', '__getattribute__', '__setattr__',
                          '__delattr__', '__get__', '__set__', '__init_subclass__', '__class_getitem__'):
                return None
            a = s.args
            me = a.args[0].arg if a.args and not a.posonlyargs else None
            for x in ast.walk(s):
                if isinstance(x, (ast.Attribute, ast.Subscript)) and isinstance(x.ctx, (ast.Store, ast.Del)) \
                        and isinstance(x.value, ast.Name) and x.value.id == me:
                    return None
                if isinstance(x, ast.Call) and isinstance(x.func, ast.Attribute) and x.func.attr in ('__setattr__', '__delattr__', '__dict__'):
                    return None
                if isinstance(x, ast.Name) and x.id in ('setattr', 'delattr', 'vars'):
                    return None
            ds = [deco(d) for d in s.decorator_list]
            body = real_body(s.body)
            if me is None or ds not in ([], ['property']) or a.vararg or a.kwarg or len(body) != 1 \
                    or not isinstance(body[0], ast.Return) or body[0].value is None:
                members[s.name] = None                      # present, but not a member this pass opens
                continue
            if any(isinstance(x, (ast.NamedExpr, ast.Lambda, ast.Yield, ast.YieldFrom, ast.Await)) for x in ast.walk(body[0].value)):
                members[s.name] = None
                continue
            params = [p.arg for p in a.args[1:]] + [p.arg for p in a.kwonlyargs]
            dflt = dict(zip([p.arg for p in a.args[len(a.args) - len(a.defaults):]], a.defaults))
            dflt.update({p.arg: d for p, d in zip(a.kwonlyargs, a.kw_defaults) if d is not None})
            dflt.pop(me, None)
            if ds == ['property'] and params:
                return None
            members[s.name] = ('property' if ds else 'method', me, params, [p.arg for p in a.kwonlyargs], dflt, body[0].value)
        else:
            return None
    if not fields or {f for f, _ in fields} & set(members):
        return None
    return fields, members


def open_value_objects(fn: ast.AST, classes: dict, max_rounds: int = 8) -> list:
    """A local of `fn` bound once, by a statement of the function's own block, to `K(a, b, ..)` - K an immutable value
    class (`_value_class_layout`: dataclass / NamedTuple of annotated fields; `classes` maps the names visible in the
    function to their ClassDef), the arguments names or constants that the function binds nowhere else - and used only
    as `v.field`, `v.prop` and `v.method(simple arguments)` where the property / method is one returned expression over
    the fields, the parameters and module-level names, IS those arguments: `v.field` is replaced by the argument,
    `v.prop` / `v.method(..)` by the returned expression with the fields and parameters substituted (members that use
    other members are opened in turn), and the binding goes.  Unlike a statement-level inliner this needs no
    unconditionally evaluated position - an expression replaces an expression where it stands (conditional
    expressions, comprehension elements, lambda bodies).  Exact because the object cannot change, the names that
    stand for its fields are never rebound, and every name the member reads besides those means the same in the
    function (it is not a local of the function).  Anything else leaves the function as it is.
    -> names of the locals opened (the function node is rewritten in place; parent links renewed)."""
    import copy
    done: list = []
    if not isinstance(fn, (ast.FunctionDef, ast.AsyncFunctionDef)):
        return done
    tried: set = set()

    def dcopy(node):
        # a deep copy of the node alone (the loader's parent link would take the whole module along)
        up = node.__dict__.pop('_parent', None)
        try:
            return copy.deepcopy(node)
        finally:
            if up is not None:
                node._parent = up

    def placed(r, at):
        # every substituted node reports at the place of the expression it replaces
        for x in ast.walk(r):
            if isinstance(x, (ast.expr, ast.keyword, ast.comprehension, ast.arg)) or hasattr(x, 'lineno'):
                ast.copy_location(x, at)
        return ast.fix_missing_locations(r)

    def simple(e):
        return isinstance(e, ast.Constant) or isinstance(e, ast.Name) or (
            isinstance(e, ast.UnaryOp) and isinstance(e.operand, ast.Constant))

    for _ in range(max_rounds):
        stores: dict = {}
        for x in ast.walk(fn):
            if isinstance(x, ast.Name) and not isinstance(x.ctx, ast.Load):
                stores.setdefault(x.id, []).append(x)
            elif isinstance(x, ast.arg):
                stores.setdefault(x.arg, []).append(x)
            elif isinstance(x, (ast.FunctionDef, ast.AsyncFunctionDef, ast.ClassDef)) and x is not fn:
                stores.setdefault(x.name, []).append(x)
            elif isinstance(x, (ast.Global, ast.Nonlocal)):
                for n_ in x.names:
                    stores.setdefault(n_, []).extend([x, x])
            elif isinstance(x, ast.alias):
                stores.setdefault((x.asname or x.name).split('.')[0], []).append(x)
            elif isinstance(x, ast.ExceptHandler) and x.name:
                stores.setdefault(x.name, []).append(x)
            elif isinstance(x, (ast.MatchAs, ast.MatchStar)) and x.name:
                stores.setdefault(x.name, []).append(x)
            elif isinstance(x, ast.MatchMapping) and x.rest:
                stores.setdefault(x.rest, []).append(x)
        cand = None
        for i, st in enumerate(fn.body):
            if isinstance(st, ast.Assign) and len(st.targets) == 1:
                t = st.targets[0]
            elif isinstance(st, ast.AnnAssign) and st.value is not None:
                t = st.target
            else:
                continue
            v = st.value
            if not (isinstance(t, ast.Name) and isinstance(v, ast.Call) and isinstance(v.func, ast.Name)):
                continue
            if t.id in tried or len(stores.get(t.id, [])) != 1 or v.func.id in stores or v.func.id not in classes:
                continue
            lay = _value_class_layout(classes[v.func.id])
            if lay is None:
                continue
            cand = (i, st, t.id, v, lay)
            break
        if cand is None:
            break
        i, st, name, call, (fields, members) = cand
        tried.add(name)
        # ---- the fields as given ------------------------------------------------------------------------------------------
        if any(isinstance(a, ast.Starred) for a in call.args) or any(k.arg is None for k in call.keywords) \
                or len(call.args) > len(fields):
            continue
        given = {fields[j][0]: a for j, a in enumerate(call.args)}
        bad = False
        for k in call.keywords:
            if k.arg in given or k.arg not in dict(fields):
                bad = True
            given[k.arg] = k.value
        for f, d in fields:
            if f not in given:
                if d is None:
                    bad = True
                else:
                    given[f] = d
        if bad or not all(simple(e) for e in given.values()):
            continue
        # a name that stands for a field must be the same object at every use: a parameter or a local bound once, before
        if any(isinstance(e, ast.Name) and not (len(stores.get(e.id, [])) == 1 and (
                isinstance(stores[e.id][0], ast.arg) or (getattr(stores[e.id][0], 'lineno', 10**9) < st.lineno and any(
                    stores[e.id][0] in ast.walk(s_) for s_ in fn.body[:i] if isinstance(s_, (ast.Assign, ast.AnnAssign))))))
               and e.id in stores for e in given.values()):
            continue
        local_names = set(stores)

        def opened(member, args, kws, depth):
            """the value of `self.member` / `self.member(args)` with fields, parameters substituted; None = cannot"""
            if depth > 6:
                return None
            if member in given and args is None:
                return dcopy(given[member])
            info = members.get(member)
            if info is None:
                return None
            kind, me, params, kwonly, dflt, expr = info
            if (kind == 'property') != (args is None):
                return None
            bind = {}
            if args is not None:
                pos = [p for p in params if p not in kwonly]
                if len(args) > len(pos) or any(isinstance(a, ast.Starred) for a in args) or any(k.arg is None for k in kws):
                    return None
                bind = dict(zip(pos, args))
                for k in kws:
                    if k.arg in bind or k.arg not in params:
                        return None
                    bind[k.arg] = k.value
                for p in params:
                    if p not in bind:
                        if p not in dflt or not simple(dflt[p]) or isinstance(dflt[p], ast.Name):
                            return None
                        bind[p] = dflt[p]
                if not all(simple(a) for a in bind.values()):
                    return None
            inner = set()
            for x in ast.walk(expr):
                if isinstance(x, ast.comprehension):
                    inner |= {y.id for y in ast.walk(x.target) if isinstance(y, ast.Name)}
            arg_names = {y.id for a in list(bind.values()) + list(given.values()) for y in ast.walk(a) if isinstance(y, ast.Name)}
            if inner & (arg_names | set(params) | {me}):
                return None
            fail = []

            class Open(ast.NodeTransformer):
                def visit_Call(self, n):
                    if isinstance(n.func, ast.Attribute) and isinstance(n.func.value, ast.Name) and n.func.value.id == me:
                        n.args = [self.visit(a) for a in n.args]
                        for k in n.keywords:
                            k.value = self.visit(k.value)
                        r = opened(n.func.attr, n.args, n.keywords, depth + 1)
                        if r is None:
                            fail.append(n)
                            return n
                        return ast.copy_location(r, n)
                    return self.generic_visit(n)

                def visit_Attribute(self, n):
                    if isinstance(n.value, ast.Name) and n.value.id == me:
                        r = opened(n.attr, None, None, depth + 1) if isinstance(n.ctx, ast.Load) else None
                        if r is None:
                            fail.append(n)
                            return n
                        return ast.copy_location(r, n)
                    return self.generic_visit(n)

                def visit_Name(self, n):
                    if n.id == me:
                        fail.append(n)                      # the object itself is handed on / compared / formatted
                    elif n.id in bind:
                        if not isinstance(n.ctx, ast.Load):
                            fail.append(n)
                            return n
                        return ast.copy_location(dcopy(bind[n.id]), n)
                    elif n.id not in inner and n.id in local_names:
                        fail.append(n)                      # a module-level name of the class's module, a local here
                    return n
            out = Open().visit(dcopy(expr))
            return None if fail else out

        # ---- every use of the local ---------------------------------------------------------------------------------------
        work = [dcopy(s_) for s_ in fn.body[i + 1:]]
        before = [x for s_ in fn.body[:i + 1] for x in ast.walk(s_) if isinstance(x, ast.Name) and x.id == name]
        if len(before) != 1:
            continue
        ok = [True]

        class Uses(ast.NodeTransformer):
            def visit_Call(self, n):
                if isinstance(n.func, ast.Attribute) and isinstance(n.func.value, ast.Name) and n.func.value.id == name \
                        and n.func.attr not in given:
                    n.args = [self.visit(a) for a in n.args]
                    for k in n.keywords:
                        k.value = self.visit(k.value)
                    r = opened(n.func.attr, n.args, n.keywords, 0)
                    if r is None:
                        ok[0] = False
                        return n
                    return placed(r, n)
                return self.generic_visit(n)

            def visit_Attribute(self, n):
                if isinstance(n.value, ast.Name) and n.value.id == name:
                    r = opened(n.attr, None, None, 0) if isinstance(n.ctx, ast.Load) else None
                    if r is None:
                        ok[0] = False
                        return n
                    return placed(r, n)
                return self.generic_visit(n)

            def visit_Name(self, n):
                if n.id == name:
                    ok[0] = False
                return n
        holder = ast.Module(body=work, type_ignores=[])
        Uses().visit(holder)
        if not ok[0]:
            continue
        fn.body[i:] = holder.body or [ast.copy_location(ast.Pass(), st)]
        set_parents(fn)
        done.append(name)
    return done


def drains_as_loops(fn: ast.AST, resolve) -> list:
    """A generator that is drained on the spot into a list is the loop that appends what it yields: in `fn` (changed in
    place)  `X = list(g(..))` / `X = [*g(..)]` / `X = [v for v in g(..)]`  become  `X = []; for D in g(..): X.append(D)`,
    and  `X.extend(g(..))` / `X += g(..)` / `X += list(g(..))`  become  `for D in g(..): X.append(D)`  - for the calls
    `resolve(call)` accepts (same contract as `splice_generator_loops`, which can then run the generator in the place of
    that loop).  Exact: list()/extend() take the values one by one in order, and an exception of the generator leaves
    through the same statement (a list bound only afterwards is bound to nothing the caller could still see, so only a
    plain local name X is rewritten).  -> the statements rewritten; the loop variable is a fresh name `D`, see
    `fold_drained_appends`."""
    done = []
    names = {x.id for x in ast.walk(fn) if isinstance(x, ast.Name)} | {a.arg for a in ast.walk(fn) if isinstance(a, ast.arg)}

    def drained(v):
        """the generator call a list-valued expression drains completely, or None"""
        if isinstance(v, ast.Call) and isinstance(v.func, ast.Name) and v.func.id == 'list' and len(v.args) == 1 \
                and not v.keywords and isinstance(v.args[0], ast.Call):
            return v.args[0]
        if isinstance(v, ast.List) and len(v.elts) == 1 and isinstance(v.elts[0], ast.Starred) \
                and isinstance(v.elts[0].value, ast.Call):
            return v.elts[0].value
        if isinstance(v, ast.ListComp) and len(v.generators) == 1 and not v.generators[0].ifs and not v.generators[0].is_async \
                and isinstance(v.generators[0].target, ast.Name) and isinstance(v.elt, ast.Name) \
                and v.elt.id == v.generators[0].target.id and isinstance(v.generators[0].iter, ast.Call):
            return v.generators[0].iter
        return None

    for st in [s for s in walk_no_nested(fn) if isinstance(s, ast.stmt)]:
        tgt, call, fresh_list = None, None, False
        if isinstance(st, ast.Assign) and len(st.targets) == 1 and isinstance(st.targets[0], ast.Name):
            tgt, call, fresh_list = st.targets[0].id, drained(st.value), True
        elif isinstance(st, ast.AnnAssign) and isinstance(st.target, ast.Name) and st.value is not None:
            tgt, call, fresh_list = st.target.id, drained(st.value), True
        elif isinstance(st, ast.AugAssign) and isinstance(st.op, ast.Add) and isinstance(st.target, ast.Name):
            tgt = st.target.id
            call = drained(st.value) or (st.value if isinstance(st.value, ast.Call) else None)
        elif isinstance(st, ast.Expr) and isinstance(st.value, ast.Call) and isinstance(st.value.func, ast.Attribute) \
                and st.value.func.attr == 'extend' and isinstance(st.value.func.value, ast.Name) and len(st.value.args) == 1 \
                and not st.value.keywords:
            tgt = st.value.func.value.id
            a0 = st.value.args[0]
            call = drained(a0) or (a0 if isinstance(a0, ast.Call) else None)
        if tgt is None or call is None:
            continue
        r = resolve(call)
        if r is None or not any(isinstance(x, ast.Yield) for x in walk_no_nested(r[0])):
            continue
        if any(isinstance(x, ast.Name) and x.id == tgt for x in ast.walk(call)):
            continue
        k = 0
        while f'drained{k or ""}__' in names:
            k += 1
        var = f'drained{k or ""}__'
        names.add(var)
        app = ast.Expr(value=ast.Call(func=ast.Attribute(value=ast.Name(id=tgt, ctx=ast.Load()), attr='append', ctx=ast.Load()),
                                      args=[ast.Name(id=var, ctx=ast.Load())], keywords=[]))
        loop = ast.For(target=ast.Name(id=var, ctx=ast.Store()), iter=call, body=[app], orelse=[], type_comment=None)
        new = [loop]
        if fresh_list:
            new.insert(0, ast.Assign(targets=[ast.Name(id=tgt, ctx=ast.Store())], value=ast.List(elts=[], ctx=ast.Load())))
        for n_ in new:
            ast.copy_location(n_, st)
            for x in ast.walk(n_):
                if not hasattr(x, 'lineno') and isinstance(x, (ast.expr, ast.stmt)):
                    ast.copy_location(x, st)
        app._drained = True
        _replace_stmt(fn, st, new)
        done.append(st)
    if done:
        ast.fix_missing_locations(fn)
        set_parents(fn)
    return done


def fold_drained_appends(fn: ast.AST) -> int:
    """`D = <value>; X.append(D)` left by `drains_as_loops` + `splice_generator_loops` (D the fresh loop variable, used
    nowhere else) is `X.append(<value>)`.  -> number folded"""
    n = 0
    for owner in list(ast.walk(fn)):
        for f in ('body', 'orelse', 'finalbody'):
            lst = getattr(owner, f, None)
            if not isinstance(lst, list):
                continue
            i = 0
            while i + 1 < len(lst):
                a, b = lst[i], lst[i + 1]
                if isinstance(a, ast.Assign) and len(a.targets) == 1 and isinstance(a.targets[0], ast.Name) \
                        and a.targets[0].id.startswith('drained') and a.targets[0].id.endswith('__') \
                        and getattr(b, '_drained', False) and isinstance(b.value.args[0], ast.Name) \
                        and b.value.args[0].id == a.targets[0].id \
                        and sum(1 for x in ast.walk(fn) if isinstance(x, ast.Name) and x.id == a.targets[0].id) == 2:
                    b.value.args[0] = a.value
                    ast.copy_location(b, a)
                    ast.copy_location(b.value, a)
                    ast.copy_location(b.value.func, a)
                    ast.copy_location(b.value.func.value, a)
                    del lst[i]
                    n += 1
                    continue
                i += 1
    if n:
        ast.fix_missing_locations(fn)
        set_parents(fn)
    return n
