# usage: gninfo.py <patch>  -> what the program-level passes did on the patched tree
import sys, os, subprocess, tempfile, shutil, json
sys.path.insert(0, os.path.dirname(os.path.dirname(os.path.abspath(__file__))))
patch = os.path.abspath(sys.argv[1])
d = tempfile.mkdtemp(prefix='gninfo-')
subprocess.run([os.path.dirname(os.path.abspath(__file__)) + '/scratch.sh', d, patch], check=True)
os.environ['AEIC_VERIF_REPO'] = d
from sa.loader import Program
prog = Program()
g = dict(prog.globalnorm); g["moved"] = {f"{a}:{b}": f"{c}:{d}" for (a, b), (c, d) in g.get("moved", {}).items()}
print(json.dumps(g, indent=1, default=str))
shutil.rmtree(d)
