#!/venv/bin/python
"""Run the checks against every seeded change (and every reverted repair).

usage: tools/seedrun.py [--all-props] [seed ids...]
For each /verif/seeded/<id>/patch.diff: scratch copy of /repo's tracked tree,
apply, run ./check <property> --repo <scratch>; print exit code and rules fired.
"""
import json, os, subprocess, sys, tempfile, shutil, re
from concurrent.futures import ThreadPoolExecutor
V = os.path.dirname(os.path.dirname(os.path.abspath(__file__)))
PROPS = [f'C{i:02d}' for i in range(1, 21)]

def run_one(sid, patch, prop, reverse=False, allprops=False):
    d = tempfile.mkdtemp(prefix='seedrun-')
    try:
        cmd = [f'{V}/tools/scratch.sh', d] + (['-R'] if reverse else []) + [patch]
        r = subprocess.run(cmd, capture_output=True, text=True)
        if r.returncode:
            return sid, prop, 'APPLY-FAILED', r.stdout + r.stderr
        res = {}
        env = dict(os.environ, AEIC_VERIF_EVIDENCE_DIR=d + '/ev')
        for p in (PROPS if allprops else [prop]):
            if not os.path.exists(f'{V}/sa/rules/{p.lower()}.py'):
                continue
            r = subprocess.run([f'{V}/check', p, '--repo', d], capture_output=True, text=True, env=env)
            rules = sorted(set(re.findall(r'\s(C\d\d-[RMO][\w/]+)\s', r.stdout)))
            res[p] = (r.returncode, rules, r.stdout.strip().split('\n')[-1] if r.returncode == 2 else '')
        return sid, prop, res, ''
    finally:
        shutil.rmtree(d, ignore_errors=True)

def main():
    args = [a for a in sys.argv[1:] if not a.startswith('--')]
    allprops = '--all-props' in sys.argv
    jobs = []
    sd = os.environ.get('AEIC_VERIF_SEED_DIR', f'{V}/seeded')
    for sid in sorted(os.listdir(sd)) if os.path.isdir(sd) else []:
        if args and sid not in args:
            continue
        meta = json.load(open(f'{sd}/{sid}/meta.json'))
        jobs.append((sid, f'{sd}/{sid}/patch.diff', meta['property'], False))
    fx = f'{V}/regress/fixes'
    for f in sorted(os.listdir(fx)):
        sid = 'revert-' + f[:-6]
        if args and sid not in args:
            continue
        jobs.append((sid, f'{fx}/{f}', f[:3], True))
    with ThreadPoolExecutor(8) as ex:
        futs = [ex.submit(run_one, s, p, pr, rev, allprops) for s, p, pr, rev in jobs]
        for f in futs:
            sid, prop, res, err = f.result()
            if isinstance(res, str):
                print(f'{sid:14s} {prop} {res} {err[:200]}')
                continue
            own = res.get(prop)
            others = {p: v for p, v in res.items() if p != prop and v[0] != 0}
            status = {0: 'MISSED', 1: 'CAUGHT', 2: 'ANALYSIS-ERROR'}.get(own[0], own[0]) if own else 'NO-CHECK'
            print(f'{sid:14s} {prop} {status:15s} {" ".join(own[1]) if own else ""} {own[2] if own else ""}'
                  + (f'   also: {others}' if others else ''))

main()
