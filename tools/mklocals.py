#!/venv/bin/python
"""Regenerate sa/reference_locals.json (structural signatures of every local of
every function) from /repo's current tree.  Run only when the rules have been
brought in line with the tree."""
import json, sys, os
sys.path.insert(0, os.path.dirname(os.path.dirname(os.path.abspath(__file__))))
from pathlib import Path
from sa import alpha
ref = alpha.build_reference(Path(sys.argv[1] if len(sys.argv) > 1 else '/repo'))
alpha.REF_FILE.write_text(json.dumps(ref, indent=0, sort_keys=True))
print(len(ref.get('__funcs__', {})), 'files;', len(ref.get('__idents__', [])), 'identifiers')
