#!/venv/bin/python
"""Generate /verif/MANIFEST.json from the rule modules that exist."""
import json, os, re
V = os.path.dirname(os.path.dirname(os.path.abspath(__file__)))
props = [json.loads(l) for l in open(f'{V}/properties.jsonl')]

LEVEL = {
 'C01': ("Decides the bookkeeping shape of the inventory, not its numbers: totals are the sum over exactly the four sources (+ life-cycle CO2 on CO2 only), fuel is counted for exactly the summed components, every amount is written as EI x component fuel, the climb/descent windows are complementary for every accounting mode, and the NOx/SOx speciation identities hold as exact polynomial identities. Finiteness, sign and float rounding are not decided.",
         "dataflow + T-AGREE over enum members + exact rational algebra (T-ALG)"),
 'C02': ("Decides the structural bookkeeping clauses: paired mass/fuel decrement, clamp dominance, buffer-view discipline of the growable container (every read of a per-point buffer goes through the [:_size] view or a proven-in-range index), position/ground-distance pairing incl. leg coherence of the forward geodesic, first-point initialisation, refusal of infeasible altitude schedules and the algebraic end point of the altitude schedule. Monotonicity and values along the flight depend on table data and are not decided.",
         "def-use dataflow on Container/Trajectory buffers, CFG dominance, T-PAIR, T-ALG"),
 'C03': ("Decides agreement between the writer, the reader and the dimension creation of the NetCDF layout: same source for the species/thrust-mode axis position, skipped-cell <-> filtered-on-read agreement, exhaustiveness of the four dimension case tables over the combinations Dimensions.__init__ admits (enumerated completely), digest completeness and the hash gate on open. Value equality through netCDF4 is not decided.",
         "T-AGREE (sibling/table agreement) with finite enumeration, CFG dominance"),
 'C04': ("Decides only what is visible in code shape: antimeridian split fractions sum to one (exact algebra over the returned lengths), a zero-length segment keeps share one in the guarded division, and one repetition vector expands numerators and denominators. The numeric conservation bound over real geometry is NOT decided.",
         "T-ALG + guarded-division idiom (T-GUARD) + T-AGREE on np.repeat operands"),
 'C05': ("Decides only: altitude/time/state attribution comes from the segment's starting point, all outputs are expanded by one count vector, and antimeridian split shares and per-part index arrays go to their own part. Which cell a piece lands in, path order and length shares are geometry over real coordinates and are NOT decided.",
         "T-ROLE / T-AGREE on slices and part suffixes"),
 'C06': ("Decides: FL<->metre and other unit constant pairs are exact reciprocals (constant folding over exact rationals), no interpolation call disables bounds checking or clamps the query (zero-expected with positive control), load-time validation raises are present and reachable, symbolic min/max mass mean the table extremes, PTF rows are paired with the columns and unit conversions their names demand. Node exactness/boundedness/continuity of scipy interpolation are not decided.",
         "constant folding, zero-expected rule with positive control, T-ROLE"),
 'C07': ("Decides freshness of the cumulative size table for every NcFiles construction site that can still grow (def-use across add path), exactly-one counter increment per successful add (path-complete dataflow), length source, cache key discipline, eviction refusal wiring, and the file-link typestate (no list operation dereferences file-only state on a store that has no file attached). netCDF4/cachetools behaviour is trusted.",
         "interprocedural def-use, forward dataflow on the CFG, dominance"),
 'C08': ("Decides the stale-flag discipline (set on every successful identified add; every index use dominated by the lazy reindex), sorted-writer <-> bisect-reader agreement on the sort component, merged offset arithmetic, all-or-none identifier refusals, and the file-link typestate (look-up, sync and close work on an in-memory store).",
         "T-ORDER (dominance), T-AGREE on pair components, typestate on the CFG with certifying edges"),
 'C09': ("Decides order preservation from the argument list through metadata, relocation, merged index and the size table (order-preserving derivation chains only), presence of the two refusals, and the locate arithmetic (bisect form, bound check, local index).",
         "dataflow over derivation chains, T-ORDER"),
 'C10': ("Decides validate-before-mutate for add (forward dataflow with rejection edges: no store to logical state survives a rejection unless a catch-all handler restores the saved copy and re-raises) and for merge (no validation raise reachable after a file-system effect; metadata written last; relocation by rename only). HDF5 crash behaviour is not decided.",
         "T-ORDER + effect summaries over the resolved call graph, CFG with exceptional edges"),
 'C11': ("Decides the four kinds of per-site defects behind the option product: dispatch exhaustiveness over every method enum (members enumerated from the enum), guarded key reads of configuration-dependent species maps, switched-off species never written unguarded, element type of ThrustModeArray iteration. Each rule holds for every enum member at its site, so the Cartesian product is never enumerated. Numeric balance is C01.",
         "T-AGREE over enum members, T-GUARD with a guard-implication table"),
 'C12': ("Decides coefficient/shape conformance of the straight-line building blocks against an independent transcription of the published equations by exact canonical-form comparison, the sulfur-conservation and speciation identities, inverse-pair structure of the ISA pressure/altitude functions, and totality of the thrust categories. HC/CO branch logic, MEEM and anything over the whole real input range are NOT decided.",
         "T-ALG canonical-form comparison against reference_equations.py"),
 'C13': ("Decides argument roles of the geodesic call in the plausibility rule, defaulted-optional flow, departure/arrival and origin/destination role agreement in instants, INSERT columns and call arguments, must-pass-through of flight/schedule/count on every successful path, rejection sites being a subset of the documented reasons, and the expansion shape. Time-zone arithmetic and DST are trusted.",
         "T-ROLE, T-ORDER, defaulted-optional dataflow"),
 'C14': ("Decides purity of to_sql (every mutated attribute re-initialised on every path of the same call), guarded unpack of empty collections, placeholder-count = parameter-count as linear forms over list lengths, SELECT column <-> result field agreement and the spatial compatibility rule by truth table. SQL semantics are trusted.",
         "effects + dominance, symbolic counting, T-AGREE"),
 'C15': ("Decides argument roles of every geodesic call and its wrappers, azimuth normalisation at the single construction point, step = location of the sum, overstep only behind its guard, refusal of out-of-range distances before indexing, and leg coherence of forward geodesics. Geodesic accuracy (pyproj) is trusted.",
         "T-ROLE with derived wrapper signatures, dominance"),
 'C16': ("Decides east<->sin / north<->cos role agreement of the heading decomposition, that the result is hypot of the two sums, that the NaN refusal dominates the return, and the Pa->hPa / coordinate roles of the interpolation. Interpolation numerics are trusted.",
         "T-ROLE on operands, dominance"),
 'C17': ("Decides acquire/release pairing of the per-flight context on every path including exceptional ones (must-dataflow with finally instantiated per continuation), absence of builder-persistent state read or mutated by a flight, and the convergence gate of the mass iteration. Bit-identity of numerics is not decided.",
         "T-PAIR typestate dataflow on the CFG, effects"),
 'C18': ("Decides that the singleton is published only by the last validator of the pydantic pipeline with nothing fallible after it, the frozen closure of the model classes, the access guards, and overlay precedence with recursive merges only.",
         "T-ORDER over the validator pipeline, dataflow of the merge chain"),
 'C19': ("Decides protocol conformance of every access to the parameter object against the declared dataclass, the shape of thrust limiting / descent substitution / cruise-only correction, the trapezoid mass update and the MTOW clamp. The numeric mass profile is not decided.",
         "protocol conformance against resolved class, shape rules"),
 'C20': ("The property is a code-shape property: every access of the owner record lies in one critical section on a lock created once at class level, check and set share that section, only the constructor writes the record and nothing resets it. Decided completely for the constructor; assumes no __new__/pickle bypass.",
         "lock-discipline analysis"),
}
GENERIC = (" Generic clauses decided over this property's modules (necessary conditions of 'for every history'): a functools.cache/lru_cache "
           "function reads nothing but its arguments in its resolved call closure and its result is not changed in place; no store through a view of a "
           "parameter (caller-owned arrays and objects); no class-level mutable object written through an instance.")
NOTE = "Trusted: CPython's ast parser; the engine in /verif/sa; third-party behaviour as documented (netCDF4, pyproj, scipy, pandas, pydantic, cachetools, SQLite). The rules decide necessary structural conditions: breaking one breaks the behaviour, holding all does not prove it. /repo is parsed, never imported or run."

checks, na = [], []
for p in props:
    pid = p['id']
    if os.path.exists(f'{V}/sa/rules/{pid.lower()}.py'):
        text, tech = LEVEL[pid]
        text += GENERIC
        tech += '; generic effect rules T-MEMO / T-OWN / shared class state over the property\'s modules'
        checks.append({
            'property_id': pid,
            'quick_cmd': f'./check {pid} --tier quick',
            'thorough_cmd': f'./check {pid} --tier thorough',
            'evidence_file': f'/verif/evidence/{pid}.json',
            'replay_cmd_template': f'./check {pid} --replay {{path}}',
            'engine': 'sa',
            'level_claimed': {'category': 'other', 'text': 'Static rule conformance. ' + text,
                              'design_ref': f'DESIGN.md section 4, {pid}'},
            'level_note': NOTE,
            'technique': 'static analysis (Python ast): ' + tech,
        })
    else:
        na.append({'property_id': pid, 'reason': 'check under construction in this round (rules designed in DESIGN.md section 4; not yet registered)'})
m = {
 'version': 1,
 'setup_cmd': 'true',
 'hooks': {'guard': 'AEIC_VERIF', 'enable': 'none needed: the analysis parses /repo and instruments nothing',
           'baseline_off_cmd': 'cd /repo && /venv/bin/python -m pytest -ra -q -p no:cacheprovider --timeout=900 --continue-on-collection-errors',
           'source_commits': [], 'add_only': True},
 'engines': [{'name': 'sa', 'path': '/verif/sa', 'serves_properties': [c['property_id'] for c in checks],
              'kind_free_text': 'repository-specific static analyser on Python ast: program model + resolver, statement CFG with exceptional edges and per-continuation finally copies, dominators, forward dataflow, effect summaries, exact rational algebra, lexical role inference'}],
 'checks': checks,
 'notes': 'Known findings and repaired defects: /verif/known_findings.json. Seeded changes: /verif/seeded/. Exit 2 = ANALYSIS-ERROR (vanished anchor / unknown idiom), never a violation.',
 'not_applicable': na,
}
json.dump(m, open(f'{V}/MANIFEST.json', 'w'), indent=1)
print(len(checks), 'checks;', len(na), 'not yet')
