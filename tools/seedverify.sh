#!/bin/sh
# usage: seedverify.sh <seed dir containing patch.diff demo.py>   -> writes verify.json there
# Confirms: demo passes on clean tree, fails on patched tree, full suite passes on patched tree.
d=$(realpath "$1"); id=$(echo "$d" | tr '/' '_')
w=/tmp/seedverify/$id; rm -rf "$w"; mkdir -p /tmp/seedverify
git -C /repo worktree add -q --detach "$w" HEAD || exit 3
cd "$w"
PYTHONPATH=$w/src timeout 900 /venv/bin/python "$d/demo.py" >/dev/null 2>&1; clean=$?
git apply "$d/patch.diff" || { echo "apply failed"; cd /; git -C /repo worktree remove --force "$w"; exit 3; }
PYTHONPATH=$w/src timeout 900 /venv/bin/python "$d/demo.py" >"$w/demo.out" 2>&1; patched=$?
tailmsg=$(tail -2 "$w/demo.out" | tr '\n' ' ' | cut -c1-300)
PYTHONPATH=$w/src /venv/bin/python -m pytest -q -p no:cacheprovider --timeout=900 -n 4 2>&1 | tail -1 > "$w/suite.out"
suite=$(cat "$w/suite.out")
cd /; git -C /repo worktree remove --force "$w"
/venv/bin/python - "$d" "$clean" "$patched" "$suite" "$tailmsg" <<'PY'
import json,sys
d,clean,patched,suite,msg=sys.argv[1:6]
json.dump({"demo_exit_clean":int(clean),"demo_exit_patched":int(patched),"suite_with_patch":suite,
           "demo_failure":msg,"repo_head":open('/repo/.git/refs/heads/main').read().strip()},
          open(d+'/verify.json','w'),indent=1)
print(d,clean,patched,suite)
PY
