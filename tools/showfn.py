# usage: showfn.py <patch> <relpath> <qualname>  -> print normalised function after loader passes
import sys, os, subprocess, tempfile, shutil, ast
import os; sys.path.insert(0, os.path.dirname(os.path.dirname(os.path.abspath(__file__))))
patch, rel, q = sys.argv[1:4]; patch = os.path.abspath(patch)
d = tempfile.mkdtemp(prefix='showfn-')
subprocess.run([os.path.dirname(os.path.abspath(__file__)) + '/scratch.sh', d, patch], check=True)
os.environ['AEIC_VERIF_REPO'] = d
from sa.loader import Program
prog = Program()
m = prog.module(rel)
for k, fi in m.functions.items():
    if k == q or (q.endswith('*') and k.startswith(q[:-1])):
        print('#', k); print(ast.unparse(fi.node)); print()

shutil.rmtree(d)
