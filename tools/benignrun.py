#!/venv/bin/python
"""Run the checks against behaviour-preserving maintenance patches.

usage: tools/benignrun.py [--dir DIR] [--own | --own-of CXX] [--write-expected] [ids...]
DIR (default /verif/regress/benign) holds <id>/patch.diff + meta.json (meta['property']).
Each patch is applied to a scratch copy of /repo's tracked tree and *every* property's quick
check is run on it (or only the patch's own property with --own).  Expected: exit 0 everywhere.
--write-expected (full run only) records the outcome in DIR/EXPECTED.json: {patch id: {property: exit code}} for the
non-zero ones; the thorough-tier audit re-checks every (patch, property) pair NOT listed there and reports the listed
ones as known brittleness.
"""
import json, os, subprocess, sys, tempfile, shutil
from concurrent.futures import ThreadPoolExecutor
V = os.path.dirname(os.path.dirname(os.path.abspath(__file__)))
PROPS = [f'C{i:02d}' for i in range(1, 21)]


def run_one(bid, patch, prop, own):
    d = tempfile.mkdtemp(prefix='benignrun-')
    try:
        r = subprocess.run([f'{V}/tools/scratch.sh', d, patch], capture_output=True, text=True)
        if r.returncode:
            return bid, prop, 'APPLY-FAILED', r.stdout + r.stderr
        res = {}
        env = dict(os.environ, AEIC_VERIF_EVIDENCE_DIR=d + '/ev')
        for p in ([prop] if own else PROPS):
            r = subprocess.run([f'{V}/check', p, '--repo', d], capture_output=True, text=True, env=env)
            if r.returncode:
                lines = [ln for ln in r.stdout.strip().split('\n') if ln]
                keep = [ln for ln in lines if 'ANALYSIS-ERROR' in ln or ' — ' in ln or 'UNDECIDED' in ln][:4]
                res[p] = (r.returncode, keep or lines[-2:])
        return bid, prop, res, ''
    finally:
        shutil.rmtree(d, ignore_errors=True)


def main():
    argv = sys.argv[1:]
    base = f'{V}/regress/benign'
    if '--dir' in argv:
        i = argv.index('--dir'); base = argv[i + 1]; del argv[i:i + 2]
    own = '--own' in argv
    own_of = None
    if '--own-of' in argv:
        i = argv.index('--own-of'); own_of = argv[i + 1]; del argv[i:i + 2]; own = True
    write = '--write-expected' in argv
    ids = [a for a in argv if not a.startswith('--')]
    jobs = []
    for root, dirs, files in sorted(os.walk(base)):
        if 'patch.diff' in files:
            bid = os.path.relpath(root, base).replace('/', '-')
            if ids and bid not in ids:
                continue
            try:
                prop = json.load(open(f'{root}/meta.json'))['property']
            except Exception:
                prop = bid[:3]
            jobs.append((bid, f'{root}/patch.diff', own_of or prop))
    bad = 0
    expected = {}
    with ThreadPoolExecutor(int(os.environ.get("AEIC_VERIF_JOBS", "8"))) as ex:
        for bid, prop, res, err in ex.map(lambda j: run_one(*j, own), jobs):
            if isinstance(res, str):
                print(f'{bid:12s} {prop} {res} {err[:200]}'); bad += 1
                continue
            if not res:
                print(f'{bid:12s} {prop} silent')
                continue
            bad += 1
            expected[bid] = {p: rc for p, (rc, _) in res.items()}
            for p, (rc, lines) in res.items():
                print(f'{bid:12s} {prop} ALARM in {p} exit={rc}')
                for ln in lines:
                    print(f'      {ln[:260]}')
    print(f'{len(jobs)} patches, {bad} with an alarm')
    if write and not ids and not own:
        json.dump({'patches': len(jobs), 'not_silent': expected}, open(f'{base}/EXPECTED.json', 'w'), indent=1, sort_keys=True)
    return 1 if bad else 0


sys.exit(main())
