#!/venv/bin/python
"""Regenerate the generated parts of DESIGN.md:
  section 4 (each rule module's header) between <!-- RULES:BEGIN --> / <!-- RULES:END -->
  the seeded-change table between <!-- SEEDS:BEGIN --> / <!-- SEEDS:END --> from a tools/seedrun.py output file
usage: tools/mkdesign.py [seedrun-output.txt]"""
import ast, json, os, re, sys
V = os.path.dirname(os.path.dirname(os.path.abspath(__file__)))
props = {json.loads(l)['id']: json.loads(l) for l in open(f'{V}/properties.jsonl')}
doc = open(f'{V}/DESIGN.md').read()

def between(text, a, b, new):
    i, j = text.index(a) + len(a), text.index(b)
    return text[:i] + '\n' + new + '\n' + text[j:]

rules = []
for pid in sorted(props):
    src = open(f'{V}/sa/rules/{pid.lower()}.py').read()
    ds = ast.get_docstring(ast.parse(src)) or ''
    rules.append(f'### {pid} — {props[pid]["title"]}\n\n```\n{ds}\n```\n')
for extra, title in (('memo', 'T-MEMO (all properties)'), ('own', 'T-OWN / shared state (per-property scopes)')):
    src = open(f'{V}/sa/rules/{extra}.py').read()
    rules.append(f'### {title}\n\n```\n{ast.get_docstring(ast.parse(src))}\n```\n')
doc = between(doc, '<!-- RULES:BEGIN -->', '<!-- RULES:END -->', '\n'.join(rules))

if len(sys.argv) > 1:
    rows = ['| change | property | round | what was changed (abridged) | caught by |', '|---|---|---|---|---|']
    rnd = {'a': 1, 'b': 1, 'c': 2, 'd': 2, 'e': 3, 'f': 3, 'g': 4, 'h': 4, 'i': 5, 'j': 5, 'k': 6, 'l': 6, 'm': 7, 'n': 7, 'o': 8, 'p': 8, 'q': 9, 'r': 9}
    for line in open(sys.argv[1]):
        parts = line.split()
        if len(parts) < 3 or parts[2] != 'CAUGHT':
            if len(parts) >= 3 and re.match(r'(C\d\d[a-z]|revert-)', parts[0]):
                rows.append(f'| {parts[0]} | {parts[1]} | | **{parts[2]}** | |')
            continue
        sid, prop = parts[0], parts[1]
        fired = ' '.join(p for p in parts[3:] if re.match(r'C\d\d-[RMO]', p) and p.startswith(prop))
        if sid.startswith('revert-'):
            what, r = f'repair patch `regress/fixes/{sid[7:]}.patch` reverted (the original defect)', ''
        else:
            m = json.load(open(f'{V}/seeded/{sid}/meta.json'))
            what = ' '.join(str(m.get('summary', '')).split())
            what = what[:150] + ('…' if len(what) > 150 else '')
            what = what.replace('|', '/')
            r = rnd.get(sid[-1], '')
        rows.append(f'| {sid} | {prop} | {r} | {what} | {fired} |')
    doc = between(doc, '<!-- SEEDS:BEGIN -->', '<!-- SEEDS:END -->', '\n'.join(rows))
open(f'{V}/DESIGN.md', 'w').write(doc)
print('DESIGN.md regenerated')
