#!/bin/sh
# usage: benignverify.sh <dir with patch.diff>  -> writes verify.json there: the pinned suite with the patch applied
d=$(realpath "$1"); id=$(basename "$d")
w=/tmp/benignverify/$id; rm -rf "$w"; mkdir -p /tmp/benignverify
git -C /repo worktree add -q --detach "$w" HEAD || exit 3
cd "$w"
git apply "$d/patch.diff" || { echo "apply failed $id"; cd /; git -C /repo worktree remove --force "$w"; exit 3; }
suite=$(PYTHONPATH=$w/src /venv/bin/python -m pytest -q -p no:cacheprovider --timeout=900 -n 4 2>&1 | tail -1)
ruff=$(/venv/bin/ruff check src 2>&1 | tail -1)
cd /; git -C /repo worktree remove --force "$w"
/venv/bin/python - "$d" "$suite" "$ruff" <<'PY'
import json,sys
d,suite,ruff=sys.argv[1:4]
json.dump({"suite_with_patch":suite,"ruff":ruff,"repo_head":open('/repo/.git/refs/heads/main').read().strip()},open(d+'/verify.json','w'),indent=1)
print(d,suite,'|',ruff)
PY
