#!/bin/sh
# usage: tools_scratch.sh <dir> [-R] <patch>...   make a scratch copy of /repo's tracked tree and apply patches
d=$1; shift
rm -rf "$d"; mkdir -p "$d"
(cd /repo && git ls-files -z src scripts notebooks | xargs -0 cp --parents -t "$d") 
rev=""
for p in "$@"; do
  if [ "$p" = "-R" ]; then rev="-R"; continue; fi
  (cd "$d" && git apply $rev --include="src/*" --include="scripts/*" --include="notebooks/*" "$p") || { echo "APPLY FAILED $p"; exit 3; }
done
